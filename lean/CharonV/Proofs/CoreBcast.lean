/-
Helper lemmas about `CharonV.Model.CoreBcast` (the property theorems are in `Props/C01Bcast.lean`).
-/
import CharonV.Model.CoreBcast

namespace CharonV.CoreBcast

open CharonV.Admit (SigType)

/-- identity of a signed object: content and signature. -/
def key (o : Obj) : Nat × Sig := (o.cid, o.sig)
def ikey (i : Item) : Nat × Sig := (i.cid, i.sig)

@[simp] theorem ikey_itemOf (o : Obj) : ikey (itemOf o) = key o := rfl

/-- the submit method an object of a given Go type belongs to. -/
def endpointOf (o : Obj) : Option Endpoint :=
  match o.ty with
  | .attestation => some .attestations
  | .proposal => some (if o.blinded then .blindedProposal else .proposal)
  | .exit => some .voluntaryExit
  | .vAggProof => some .aggregates
  | .syncMessage => some .syncMessages
  | .contribution => some .contributions
  | _ => none

def epoch0 : List Obj → Epoch
  | [] => 0
  | a :: _ => a.epoch

def slot0 : List Obj → Slot
  | [] => 0
  | a :: _ => a.slot

/-- `a'` is `a` with at most the validator index replaced — by the index of a duty of `ds` at slot
`s` under whose key `a`'s signature verifies. -/
def Upd (verify : VerifyFn) (e : Epoch) (s : Slot) (ds : List AttDuty) (a a' : Obj) : Prop :=
  a' = a ∨ ∃ d ∈ ds, d.slot = s ∧ a' = { a with valIdx := some d.valIdx } ∧
    verify d.key e a.root a.sig = .ok

theorem collect_some {p : Obj → Bool} : ∀ {l r : List Obj}, collect p l = some r →
    r = l ∧ ∀ o ∈ l, p o = true
  | [], r, h => by
    simp [collect] at h
    subst h
    exact ⟨rfl, by simp⟩
  | o :: os, r, h => by
    unfold collect at h
    by_cases hp : p o = true
    · rw [if_pos hp] at h
      cases hc : collect p os with
      | none => rw [hc] at h; cases h
      | some r' =>
        rw [hc] at h
        obtain ⟨h1, h2⟩ := collect_some hc
        simp at h
        subst h h1
        refine ⟨rfl, ?_⟩
        intro x hx
        rcases List.mem_cons.mp hx with rfl | hx
        · exact hp
        · exact h2 x hx
    · rw [if_neg hp] at h
      cases h

theorem collect_none {p : Obj → Bool} : ∀ {l : List Obj}, collect p l = none → ∃ o ∈ l, p o = false
  | [], h => by simp [collect] at h
  | o :: os, h => by
    unfold collect at h
    by_cases hp : p o = true
    · rw [if_pos hp] at h
      cases hc : collect p os with
      | none =>
        obtain ⟨x, hx, hpx⟩ := collect_none hc
        exact ⟨x, List.mem_cons_of_mem _ hx, hpx⟩
      | some r' => rw [hc] at h; cases h
    · exact ⟨o, List.mem_cons_self, by simpa using hp⟩

theorem collect_all {p : Obj → Bool} : ∀ {l : List Obj}, (∀ o ∈ l, p o = true) → collect p l = some l
  | [], _ => rfl
  | o :: os, h => by
    unfold collect
    rw [if_pos (h o List.mem_cons_self), collect_all (fun x hx => h x (List.mem_cons_of_mem _ hx))]
    rfl

/-- pointwise relation between two lists of equal length (core Lean has no `List.Forall₂`). -/
inductive All₂ {α β : Type} (R : α → β → Prop) : List α → List β → Prop
  | nil : All₂ R [] []
  | cons {a : α} {b : β} {l1 : List α} {l2 : List β} : R a b → All₂ R l1 l2 → All₂ R (a :: l1) (b :: l2)

theorem forall₂_refl {R : Obj → Obj → Prop} (hr : ∀ a, R a a) : ∀ l, All₂ R l l
  | [] => .nil
  | a :: l => .cons (hr a) (forall₂_refl hr l)

theorem forall₂_trans {R S T : Obj → Obj → Prop} (h : ∀ a b c, R a b → S b c → T a c) :
    ∀ {l1 l2 l3 : List Obj}, All₂ R l1 l2 → All₂ S l2 l3 → All₂ T l1 l3
  | _, _, _, .nil, .nil => .nil
  | _, _, _, .cons h1 t1, .cons h2 t2 => .cons (h _ _ _ h1 h2) (forall₂_trans h t1 t2)

theorem forall₂_imp {α β : Type} {R S : α → β → Prop} (h : ∀ a b, R a b → S a b) :
    ∀ {l1 : List α} {l2 : List β}, All₂ R l1 l2 → All₂ S l1 l2
  | _, _, .nil => .nil
  | _, _, .cons h1 t1 => .cons (h _ _ h1) (forall₂_imp h t1)

theorem forall₂_map_eq {α β γ : Type} {R : α → β → Prop} {f : α → γ} {g : β → γ}
    (h : ∀ a b, R a b → g b = f a) :
    ∀ {l1 : List α} {l2 : List β}, All₂ R l1 l2 → l2.map g = l1.map f
  | _, _, .nil => rfl
  | _, _, .cons h1 t1 => by simp [h _ _ h1, forall₂_map_eq h t1]

theorem forall₂_map_left {α β γ : Type} {R : α → β → Prop} {f : γ → α} :
    ∀ {l1 : List γ} {l2 : List β}, All₂ R (l1.map f) l2 → All₂ (fun c b => R (f c) b) l1 l2
  | [], _, h => by cases h; exact .nil
  | c :: l1, _, h => by
    cases h with
    | cons h1 t1 => exact .cons h1 (forall₂_map_left t1)

theorem upd_refl (verify : VerifyFn) (e : Epoch) (s : Slot) (ds : List AttDuty) (a : Obj) :
    Upd verify e s ds a a := Or.inl rfl

theorem upd_key {verify : VerifyFn} {e : Epoch} {s : Slot} {ds : List AttDuty} {a a' : Obj}
    (h : Upd verify e s ds a a') : key a' = key a := by
  rcases h with rfl | ⟨d, _, _, rfl, _⟩ <;> rfl

theorem upd_trans {verify : VerifyFn} {e : Epoch} {s : Slot} {d : AttDuty} {ds : List AttDuty}
    {a a1 a2 : Obj} (h1 : Upd verify e s [d] a a1) (h2 : Upd verify e s ds a1 a2) :
    Upd verify e s (d :: ds) a a2 := by
  rcases h1 with rfl | ⟨d1, hd1, hs1, rfl, hv1⟩
  · rcases h2 with rfl | ⟨d2, hd2, hs2, rfl, hv2⟩
    · exact Or.inl rfl
    · exact Or.inr ⟨d2, List.mem_cons_of_mem _ hd2, hs2, rfl, hv2⟩
  · have hd1' : d1 = d := by simpa using hd1
    subst hd1'
    rcases h2 with rfl | ⟨d2, hd2, hs2, rfl, hv2⟩
    · exact Or.inr ⟨d1, List.mem_cons_self, hs1, rfl, hv1⟩
    · exact Or.inr ⟨d2, List.mem_cons_of_mem _ hd2, hs2, rfl, hv2⟩

theorem tryDuty_ok {verify : VerifyFn} {e : Epoch} {d : AttDuty} :
    ∀ {atts atts' : List Obj}, tryDuty verify e d atts = .ok atts' →
      All₂ (Upd verify e d.slot [d]) atts atts'
  | [], atts', h => by
    simp [tryDuty] at h
    subst h
    exact .nil
  | a :: rest, atts', h => by
    unfold tryDuty at h
    by_cases hd : a.dataOk = true
    · have hnd : (!a.dataOk) = false := by rw [hd]; rfl
      rw [hnd] at h
      simp only [Bool.false_eq_true, if_false] at h
      cases hv : verify d.key e a.root a.sig with
      | ok =>
        rw [hv] at h
        simp only [Except.ok.injEq] at h
        subst h
        exact .cons (Or.inr ⟨d, List.mem_cons_self, rfl, rfl, hv⟩) (forall₂_refl (upd_refl _ _ _ _) _)
      | no =>
        rw [hv] at h
        cases hr : tryDuty verify e d rest with
        | ok r =>
          rw [hr] at h
          simp only [Except.ok.injEq] at h
          subst h
          exact .cons (Or.inl rfl) (tryDuty_ok hr)
        | error x => rw [hr] at h; cases h
      | err => rw [hv] at h; cases h
    · simp only [hd, Bool.not_false, if_true] at h
      cases h

theorem recover_ok {verify : VerifyFn} {e : Epoch} {s : Slot} :
    ∀ {ds : List AttDuty} {atts atts' : List Obj}, recover verify e s ds atts = .ok atts' →
      All₂ (Upd verify e s ds) atts atts'
  | [], atts, atts', h => by
    simp [recover] at h
    subst h
    exact forall₂_refl (upd_refl _ _ _ _) _
  | d :: ds, atts, atts', h => by
    unfold recover at h
    by_cases hs : d.slot = s
    · simp only [hs, ne_eq, not_true_eq_false, if_false] at h
      cases ht : tryDuty verify e d atts with
      | ok atts1 =>
        rw [ht] at h
        have h1 := tryDuty_ok ht
        rw [hs] at h1
        have h2 := recover_ok h
        exact forall₂_trans (R := Upd verify e s [d]) (S := Upd verify e s ds) (T := Upd verify e s (d :: ds))
          (fun _ _ _ hab hbc => upd_trans hab hbc) h1 h2
      | error x => rw [ht] at h; cases h
    · simp only [ne_eq, hs, not_false_eq_true, if_true] at h
      have h2 := recover_ok h
      refine forall₂_imp ?_ h2
      intro a b hab
      rcases hab with rfl | ⟨d2, hd2, hs2, rfl, hv2⟩
      · exact Or.inl rfl
      · exact Or.inr ⟨d2, List.mem_cons_of_mem _ hd2, hs2, rfl, hv2⟩

/-- the duty was offered by the beacon node to this Broadcast call: it is in the node's list, its
validator index is one of the requested (active) ones, and its slot is the slot of attestation 0. -/
def Offered (bn : BN) (objs : List Obj) (d : AttDuty) : Prop :=
  ∃ vals ds idxs, bn.vals = some vals ∧ bn.duties = some ds ∧ bn.domainOk = true ∧
    resolveActive vals (epoch0 objs) = .ok idxs ∧ d ∈ dutiesFor ds idxs ∧ d.slot = slot0 objs

/-- what Broadcast may do to an attestation: nothing, or replace the validator index by the index of
an offered duty under whose public key the attestation's signature verifies. -/
def IdxOnly (verify : VerifyFn) (bn : BN) (objs : List Obj) (a a' : Obj) : Prop :=
  a' = a ∨ ∃ d, Offered bn objs d ∧ a' = { a with valIdx := some d.valIdx } ∧
    verify d.key (epoch0 objs) a.root a.sig = .ok

theorem recoverIdxs_ok {verify : VerifyFn} {bn : BN} {atts atts' : List Obj}
    (h : recoverIdxs verify bn atts = .ok atts') :
    All₂ (IdxOnly verify bn atts) atts atts' := by
  unfold recoverIdxs at h
  cases atts with
  | nil => cases h
  | cons a0 rest =>
    simp only at h
    by_cases hd : a0.dataOk = true
    · simp only [hd, Bool.not_true, Bool.false_eq_true, if_false] at h
      cases hv : bn.vals with
      | none => rw [hv] at h; cases h
      | some vals =>
        rw [hv] at h
        simp only at h
        cases hr : resolveActive vals a0.epoch with
        | error x => rw [hr] at h; cases h
        | ok idxs =>
          rw [hr] at h
          simp only at h
          cases hds : bn.duties with
          | none => rw [hds] at h; cases h
          | some ds =>
            rw [hds] at h
            simp only at h
            by_cases hdom : bn.domainOk = true
            · simp only [hdom, Bool.not_true, Bool.false_eq_true, if_false] at h
              refine forall₂_imp ?_ (recover_ok h)
              intro a b hab
              rcases hab with rfl | ⟨d, hdm, hs, rfl, hvf⟩
              · exact Or.inl rfl
              · exact Or.inr ⟨d, ⟨vals, ds, idxs, hv, hds, hdom, hr, hdm, hs⟩, rfl, hvf⟩
            · simp only [hdom, Bool.not_false, if_true] at h
              cases h
    · simp only [hd, Bool.not_false, if_true] at h
      cases h

theorem submitBatch_calls (ep : Endpoint) (r : SubRes) (sw : Bool) (objs : List Obj) :
    (submitBatch ep r sw objs).calls = [⟨ep, objs.map itemOf, r != .ok⟩] := rfl

theorem submitBatch_err (ep : Endpoint) (r : SubRes) (sw : Bool) (objs : List Obj) (e : Err)
    (h : (submitBatch ep r sw objs).err = some e) : e = .bn ∧ (r != .ok) = true := by
  unfold submitBatch at h
  cases r <;> cases sw <;> simp at h <;> simp [h]

/-- everything the attester branch can do. -/
theorem attester_spec (verify : VerifyFn) (bn : BN) (objs : List Obj) :
    ((attester verify bn objs).calls = [] ∧ (attester verify bn objs).err ≠ none ∧
      (attester verify bn objs).err ≠ some .bn) ∨
    (∃ outs, (∀ o ∈ objs, o.ty = .attestation) ∧
      All₂ (IdxOnly verify bn objs) objs outs ∧
      (checkNeeded objs = false → outs = objs) ∧
      attester verify bn objs = submitBatch .attestations (bn.sub 0) true outs) := by
  unfold attester
  cases hc : collect (isTy .attestation) objs with
  | none => exact Or.inl ⟨rfl, by simp [fail], by simp [fail]⟩
  | some atts =>
    obtain ⟨rfl, hall⟩ := collect_some hc
    have hty : ∀ o ∈ atts, o.ty = .attestation := by
      intro o ho
      have := hall o ho
      simpa [isTy] using this
    simp only
    by_cases hn : checkNeeded atts = true
    · rw [if_pos hn]
      cases hr : recoverIdxs verify bn atts with
      | error x =>
        refine Or.inl ⟨rfl, by simp [fail], ?_⟩
        simp only [fail]
        intro hx
        simp only [Option.some.injEq] at hx
        subst hx
        -- recoverIdxs never returns `.bn`
        unfold recoverIdxs at hr
        cases atts with
        | nil => cases hr
        | cons a0 rest =>
          simp only at hr
          by_cases hd : a0.dataOk = true
          · simp only [hd, Bool.not_true, Bool.false_eq_true, if_false] at hr
            cases hv : bn.vals with
            | none => rw [hv] at hr; cases hr
            | some vals =>
              rw [hv] at hr
              simp only at hr
              cases hra : resolveActive vals a0.epoch with
              | error y =>
                rw [hra] at hr
                simp only [Except.error.injEq] at hr
                subst hr
                unfold resolveActive at hra
                by_cases hany : (vals.any (·.isNil)) = true
                · rw [if_pos hany] at hra; cases hra
                · rw [if_neg hany] at hra; cases hra
              | ok idxs =>
                rw [hra] at hr
                simp only at hr
                cases hds : bn.duties with
                | none => rw [hds] at hr; cases hr
                | some ds =>
                  rw [hds] at hr
                  simp only at hr
                  by_cases hdom : bn.domainOk = true
                  · simp only [hdom, Bool.not_true, Bool.false_eq_true, if_false] at hr
                    exact recover_no_bn hr
                  · simp only [hdom, Bool.not_false, if_true] at hr
                    cases hr
          · simp only [hd, Bool.not_false, if_true] at hr
            cases hr
      | ok atts' =>
        exact Or.inr ⟨atts', hty, recoverIdxs_ok hr, (fun h => by rw [h] at hn; cases hn), rfl⟩
    · rw [if_neg hn]
      exact Or.inr ⟨atts, hty, forall₂_refl (fun a => Or.inl rfl) _, fun _ => rfl, rfl⟩
where
  tryDuty_no_bn {verify : VerifyFn} {e : Epoch} {d : AttDuty} :
      ∀ {atts : List Obj}, tryDuty verify e d atts = .error .bn → False
    | [], h => by simp [tryDuty] at h
    | a :: rest, h => by
      unfold tryDuty at h
      by_cases hd : a.dataOk = true
      · simp only [hd, Bool.not_true, Bool.false_eq_true, if_false] at h
        cases hv : verify d.key e a.root a.sig with
        | ok => rw [hv] at h; cases h
        | no =>
          rw [hv] at h
          cases hr : tryDuty verify e d rest with
          | ok r => rw [hr] at h; cases h
          | error x =>
            rw [hr] at h
            simp only [Except.error.injEq] at h
            subst h
            exact tryDuty_no_bn hr
        | err => rw [hv] at h; cases h
      · simp only [hd, Bool.not_false, if_true] at h
        cases h
  recover_no_bn {verify : VerifyFn} {e : Epoch} {s : Slot} :
      ∀ {ds : List AttDuty} {atts : List Obj}, recover verify e s ds atts = .error .bn → False
    | [], atts, h => by simp [recover] at h
    | d :: ds, atts, h => by
      unfold recover at h
      by_cases hs : d.slot = s
      · simp only [hs, ne_eq, not_true_eq_false, if_false] at h
        cases ht : tryDuty verify e d atts with
        | ok atts1 => rw [ht] at h; exact recover_no_bn h
        | error x =>
          rw [ht] at h
          simp only [Except.error.injEq] at h
          subst h
          exact tryDuty_no_bn ht
      · simp only [ne_eq, hs, not_false_eq_true, if_true] at h
        exact recover_no_bn h

/-- everything a plain batch branch (aggregator, sync message, sync contribution) can do. -/
theorem batch_spec (t : SigType) (bad : Err) (ep : Endpoint) (bn : BN) (objs : List Obj) :
    (batch t bad ep bn objs = fail bad ∧ ∃ o ∈ objs, o.ty ≠ t) ∨
    ((∀ o ∈ objs, o.ty = t) ∧ batch t bad ep bn objs = submitBatch ep (bn.sub 0) false objs) := by
  unfold batch
  cases hc : collect (isTy t) objs with
  | none =>
    obtain ⟨o, ho, hp⟩ := collect_none hc
    exact Or.inl ⟨rfl, o, ho, by simpa [isTy] using hp⟩
  | some xs =>
    obtain ⟨rfl, hall⟩ := collect_some hc
    refine Or.inr ⟨?_, rfl⟩
    intro o ho
    simpa [isTy] using hall o ho

theorem exits_cons_exit (sub : Nat → SubRes) (i : Nat) (last : Option Err) (o : Obj) (os : List Obj)
    (ho : isTy .exit o = true) :
    exits sub i last (o :: os) =
      ⟨(exits sub (i + 1) (if sub i != .ok then some .bn else none) os).err,
       ⟨.voluntaryExit, [itemOf o], sub i != .ok⟩ ::
         (exits sub (i + 1) (if sub i != .ok then some .bn else none) os).calls⟩ := by
  rw [exits]
  rw [if_neg (by rw [ho]; decide)]

theorem all₂_mem_right {α β : Type} {R : α → β → Prop} :
    ∀ {l1 : List α} {l2 : List β}, All₂ R l1 l2 → ∀ b ∈ l2, ∃ a ∈ l1, R a b
  | _, _, .nil, b, hb => by cases hb
  | _, _, .cons h1 t1, b, hb => by
    rcases List.mem_cons.mp hb with rfl | hb
    · exact ⟨_, List.mem_cons_self, h1⟩
    · obtain ⟨a, ha, hr⟩ := all₂_mem_right t1 b hb
      exact ⟨a, List.mem_cons_of_mem _ ha, hr⟩

theorem all₂_imp_mem {α β : Type} {R S : α → β → Prop} :
    ∀ {l1 : List α} {l2 : List β}, (∀ a ∈ l1, ∀ b, R a b → S a b) → All₂ R l1 l2 → All₂ S l1 l2
  | _, _, _, .nil => .nil
  | _, _, h, .cons h1 t1 =>
    .cons (h _ List.mem_cons_self _ h1) (all₂_imp_mem (fun a ha => h a (List.mem_cons_of_mem _ ha)) t1)

theorem all₂_length {α β : Type} {R : α → β → Prop} :
    ∀ {l1 : List α} {l2 : List β}, All₂ R l1 l2 → l2.length = l1.length
  | _, _, .nil => rfl
  | _, _, .cons _ t1 => by simp [all₂_length t1]

theorem mem_takeWhile {p : Obj → Bool} : ∀ {l : List Obj} {x : Obj}, x ∈ l.takeWhile p → x ∈ l ∧ p x = true
  | [], x, h => by cases h
  | o :: os, x, h => by
    rw [List.takeWhile_cons] at h
    by_cases hp : p o = true
    · rw [if_pos hp] at h
      rcases List.mem_cons.mp h with rfl | h
      · exact ⟨List.mem_cons_self, hp⟩
      · obtain ⟨h1, h2⟩ := mem_takeWhile h
        exact ⟨List.mem_cons_of_mem _ h1, h2⟩
    · rw [if_neg hp] at h
      cases h

/-- the exit branch hands over exactly the leading run of exits, one per call, in order. -/
theorem exits_items (sub : Nat → SubRes) : ∀ (objs : List Obj) (i : Nat) (last : Option Err),
    (exits sub i last objs).calls.flatMap (·.items) = (objs.takeWhile (isTy .exit)).map itemOf ∧
    (∀ c ∈ (exits sub i last objs).calls, c.ep = .voluntaryExit)
  | [], i, last => by simp [exits]
  | o :: os, i, last => by
    by_cases ho : isTy .exit o = true
    · rw [exits_cons_exit sub i last o os ho]
      obtain ⟨h1, h2⟩ := exits_items sub os (i + 1) (if sub i != .ok then some .bn else none)
      refine ⟨?_, ?_⟩
      · rw [List.takeWhile_cons, if_pos ho]
        simp only [List.flatMap_cons, List.map_cons, List.cons_append, List.nil_append, h1]
      · intro c hc
        rcases List.mem_cons.mp hc with rfl | hc
        · rfl
        · exact h2 c hc
    · rw [exits, if_pos (by simpa using ho), List.takeWhile_cons, if_neg ho]
      simp [fail]

/-- the error of the exit branch: "invalid exit" iff some entry is not an exit; otherwise the
answer of the node to the LAST call alone. -/
theorem exits_err (sub : Nat → SubRes) : ∀ (objs : List Obj) (i : Nat) (last : Option Err),
    ((exits sub i last objs).err = some .invalidExit ∧ ∃ o ∈ objs, o.ty ≠ .exit) ∨
    ((∀ o ∈ objs, o.ty = .exit) ∧ (exits sub i last objs).calls.length = objs.length ∧
      ((objs = [] ∧ (exits sub i last objs).err = last) ∨
       (∃ c, (exits sub i last objs).calls.getLast? = some c ∧
          (exits sub i last objs).err = if c.failed then some .bn else none)))
  | [], i, last => by
    exact Or.inr ⟨by simp, by simp [exits], Or.inl ⟨rfl, rfl⟩⟩
  | o :: os, i, last => by
    by_cases ho : isTy .exit o = true
    · rw [exits_cons_exit sub i last o os ho]
      have hty : o.ty = .exit := by simpa [isTy] using ho
      generalize hl : (if sub i != .ok then some Err.bn else none) = l
      rcases exits_err sub os (i + 1) l with ⟨h1, x, hx, hxt⟩ | ⟨hall, hlen, hlast⟩
      · exact Or.inl ⟨h1, x, List.mem_cons_of_mem _ hx, hxt⟩
      · refine Or.inr ⟨?_, ?_, Or.inr ?_⟩
        · intro x hx
          rcases List.mem_cons.mp hx with rfl | hx
          · exact hty
          · exact hall x hx
        · simp only [List.length_cons, hlen]
        · rcases hlast with ⟨rfl, herr⟩ | ⟨c, hc, herr⟩
          · refine ⟨⟨.voluntaryExit, [itemOf o], sub i != .ok⟩, ?_, ?_⟩
            · simp [exits]
            · simp only [exits] at herr ⊢
              rw [← hl]
          · refine ⟨c, ?_, herr⟩
            rw [List.getLast?_cons, hc]
            rfl
    · refine Or.inl ⟨?_, o, List.mem_cons_self, ?_⟩
      · rw [exits, if_pos (by simpa using ho)]
        rfl
      · simpa [isTy] using ho

/-- the values of the set in Go's iteration order. -/
def objsOf (ord : List (Validator × Obj) → List (Validator × Obj)) (set : List (Validator × Obj)) :
    List Obj := (ord set).map (·.2)

theorem mem_objsOf {ord : List (Validator × Obj) → List (Validator × Obj)} {set : List (Validator × Obj)}
    {o : Obj} (h : o ∈ objsOf ord set) : ∃ e ∈ ord set, e.2 = o := by
  obtain ⟨e, he, rfl⟩ := List.mem_map.mp h
  exact ⟨e, he, rfl⟩

section unfold
variable (verify : VerifyFn) (bn : BN) (ord : List (Validator × Obj) → List (Validator × Obj))
  (set : List (Validator × Obj))

theorem broadcast_attester : broadcast verify bn ord .attester set = attester verify bn (objsOf ord set) := rfl
theorem broadcast_proposer :
    broadcast verify bn ord .proposer set = proposer bn set.length (objsOf ord set) := rfl
theorem broadcast_exit : broadcast verify bn ord .exit set = exits bn.sub 0 none (objsOf ord set) := rfl
theorem broadcast_aggregator :
    broadcast verify bn ord .aggregator set = batch .vAggProof .invalidAgg .aggregates bn (objsOf ord set) := rfl
theorem broadcast_syncMessage :
    broadcast verify bn ord .syncMessage set =
      batch .syncMessage .invalidSyncMsg .syncMessages bn (objsOf ord set) := rfl
theorem broadcast_syncContribution :
    broadcast verify bn ord .syncContribution set =
      batch .contribution .invalidContribution .contributions bn (objsOf ord set) := rfl

end unfold

/-- everything the proposer branch can do. -/
theorem proposer_spec (bn : BN) (n : Nat) (objs : List Obj) :
    ((proposer bn n objs).calls = [] ∧ (proposer bn n objs).err ≠ none ∧ (proposer bn n objs).err ≠ some .bn) ∨
    (n = 1 ∧ ∃ o rest, objs = o :: rest ∧ o.ty = .proposal ∧
      proposer bn n objs =
        submitBatch (if o.blinded then .blindedProposal else .proposal) (bn.sub 0) false [o]) := by
  unfold proposer
  by_cases hn : n ≠ 1
  · rw [if_pos hn]; exact Or.inl ⟨rfl, by simp [fail], by simp [fail]⟩
  · rw [if_neg hn]
    cases objs with
    | nil => exact Or.inl ⟨rfl, by simp [fail], by simp [fail]⟩
    | cons o rest =>
      simp only
      by_cases hp : isTy .proposal o = true
      · have hnp : (!isTy .proposal o) = false := by rw [hp]; rfl
        rw [hnp]
        simp only [Bool.false_eq_true, if_false]
        exact Or.inr ⟨by omega, o, rest, rfl, by simpa [isTy] using hp, rfl⟩
      · have hnp : (!isTy .proposal o) = true := by simpa using hp
        rw [hnp]
        simp only [if_true]
        exact Or.inl ⟨rfl, by simp [fail], by simp [fail]⟩

theorem submitBatch_err_none (ep : Endpoint) (r : SubRes) (objs : List Obj)
    (h : (submitBatch ep r false objs).err = none) : r = .ok := by
  unfold submitBatch at h
  cases r <;> simp at h
  rfl

theorem map_ikey_itemOf (l : List Obj) : (l.map itemOf).map ikey = l.map key := by
  rw [List.map_map]
  rfl

theorem idxOnly_key {verify : VerifyFn} {bn : BN} {objs : List Obj} {a b : Obj}
    (h : IdxOnly verify bn objs a b) : key b = key a := by
  rcases h with rfl | ⟨d, _, rfl, _⟩ <;> rfl

end CharonV.CoreBcast
