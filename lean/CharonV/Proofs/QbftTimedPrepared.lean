/-
C04 (timed composition, part 3): the ROUND-CHANGE stage of a round of the *timed* cluster
(`Model/QbftTimed.lean`) whose members may hold PREPARED certificates of earlier rounds — the state a
round leaves behind whose leader ran but crashed half-way through a broadcast, or whose messages were
partly lost.

`Proofs/QbftTimed.lean` proves the timed good round from `Poised` states: nobody ever prepared, all
ROUND-CHANGEs are null, the leader proposes its own input (rule J1). `Proofs/QbftPrepared.lean`
proves the J2 path on the phased (untimed) schedule. Here the step of the timed proof that used the
"quorum of null ROUND-CHANGEs" is redone for arbitrary prepared states, over EVERY execution of the
timed semantics (any interleaving, any delivery instants in `(sent + lo, sent + hi]`, any oracle):

* `PoisedP`: all running members sit in round `ρ - 1`, undecided, with their round timers due at
  instants in `[E, E + σ]`, nothing in flight; each holds whatever it received in earlier rounds
  (`old p`: cores of rounds `< ρ`, at most `B` messages per source) and a prepared state that is null
  or a certificate of a round `< ρ` (`CertState`) — the timed analogue of `Stuck`;
* `S1`: the cluster invariant of the ROUND-CHANGE stage (who entered, which ROUND-CHANGEs — carrying
  the senders' certificates — are in flight to / delivered at whom, timers, `InvR'` per member);
* `s1_step`: every action keeps `S1`, or it is the delivery at which the leader reaches its quorum and
  broadcasts a PRE-PREPARE (`FireR'`: justified for every receiver, value = the value prepared in
  the highest prepared round among the leader's quorum, else the leader's input);
* `s1_now_le`: while `S1` holds and the leader runs, the clock has not passed `E + σ + hi`;
* `s1_exec`: every execution stays in `S1` or passes through the firing delivery;
* `s1_silent`: if the leader does not run, `S1` holds until the round timers fire, and once the clock
  has passed `E + σ + hi` the cluster is `PoisedP` for round `ρ + 1` with the same prepared states,
  the skew preserved and one more message per source.

Second part of the file (after `stuck_poised`): the stages after the PRE-PREPARE.
* `TP.*` — the member lemmas and the cluster invariant of `Proofs/QbftTimed.lean` (`Shape`, `Act`,
  `Pend`, `Fx`, `MemInv`, `RInv`, `rinv_act/tick/fire/deliver/step`, `live`, `good_exec`) re-done for
  members that hold arbitrary earlier-round messages (`Rd.pre`), ROUND-CHANGEs with certificates
  (`Rd.rc`, `RcOk`) and a PRE-PREPARE with a J1/J2 justification (`JOk`); the copy differs from the
  original in `Shape.old/rc/pp`, `count_kind'`, `locHyp_of`, the ROUND-CHANGE branch of
  `rinv_deliver` and in `act_recv_rc`, which rests on `qrc_some_any`: the leader-side selection
  `getJustifiedQrc` succeeds on every buffer of the round, so a ROUND-CHANGE that arrives after the
  proposal is only buffered; `tail_any_order` / `tail_decides`: the member-level statement;
* `S1H`, `s1h_exec` — the ROUND-CHANGE stage with the history variables tracked; `rc_fire_detail`,
  `jok_of_qrc` — the firing step and the form of the justification; `s1_rinv`, `fire_rinv` — the stage
  satisfies `TP.RInv` for every value, the firing delivery for the value proposed;
* `texec_sameSem`, `resetHist` — `rcvd` / `log` are not read by the semantics;
* `good_round_any` (`GoodRoundP`), `rot_prepared_decides` (`RotP`) — the complete good round and the
  rotation.
-/
import CharonV.Proofs.QbftTimed
import CharonV.Proofs.QbftPrepared

namespace CharonV.Qbft

/-! ### List helpers -/

/-- one more element passes the filter. -/
theorem filter_gain {R : List Nat} {f g : Nat → Bool} {p : Nat} (hR : R.Nodup) (hp : p ∈ R)
    (hf : f p = false) (hg : g p = true) (hne : ∀ a, a ≠ p → g a = f a) :
    (R.filter g).Perm (p :: R.filter f) := by
  induction R with
  | nil => cases hp
  | cons x xs ih =>
    simp only [List.nodup_cons] at hR
    rcases List.mem_cons.mp hp with h | h
    · subst h
      have : xs.filter g = xs.filter f := by
        apply List.filter_congr
        intro a ha
        exact hne a (fun he => hR.1 (he ▸ ha))
      simp [hf, hg, this]
    · have hxp : x ≠ p := fun he => hR.1 (he ▸ h)
      have ih' := ih hR.2 h
      simp only [List.filter_cons, hne x hxp]
      cases f x with
      | true => exact (List.Perm.cons x ih').trans (List.Perm.swap p x _)
      | false => exact ih'

theorem filter_same {R : List Nat} {f g : Nat → Bool} (h : ∀ a ∈ R, g a = f a) :
    R.filter g = R.filter f := List.filter_congr h

/-! ### The ROUND-CHANGE stage of a round with prepared members -/

/-- the round: number, leader, entry window `[E, E + σ]`, bound on earlier messages per source. -/
structure PRd where
  ρ : Nat
  l : Nat
  E : Nat
  σ : Nat
  B : Nat

/-- the ROUND-CHANGEs of the round: member `a` announces the prepared state it holds (`C a`). -/
def rcsOf (ρ : Nat) (C : Nat → NodeState) : Nat → Msg := fun a => rcOfState ρ a (C a)

/-- one running member during the ROUND-CHANGE stage: about to enter the round (its round-`ρ - 1`
timer is due at `e ∈ [E, E + σ]`), or in the round with the ROUND-CHANGEs of the members `T`
delivered (in this order) on top of `old p`, its round-`ρ` timer armed at its entry. -/
inductive PMem (P : TParams) (timeout : Nat → Nat) (X : PRd) (C : Nat → NodeState)
    (old : Nat → List Msg) (now p : Nat) (nd : TNode) (T : List Nat) : Prop where
  | pend (e : Nat) : Wait (X.ρ - 1) p (old p) (C p) nd.st → T = [] → nd.timer = some e →
      X.E ≤ e → e ≤ X.E + X.σ → now ≤ e → Quiet nd.outs →
      (∀ r, X.ρ ≤ r → RoundTimer.lookup r nd.firsts = none) → PMem P timeout X C old now p nd T
  | act (dl : Nat) : InvR' P.d X.ρ (C p).inputValue p (rcsOf X.ρ C) (old p) (C p) T nd.st →
      nd.st.timerOn = true → Quiet nd.outs → X.E ≤ now → nd.timer = some dl →
      X.E + timeout X.ρ ≤ dl → dl ≤ X.E + X.σ + timeout X.ρ → now ≤ dl →
      (X.l = p → T.length < P.d.quorum) →
      ((∃ fd, RoundTimer.lookup X.ρ nd.firsts = some fd ∧ X.E + timeout X.ρ ≤ fd) ∧
        ∀ r, X.ρ < r → RoundTimer.lookup r nd.firsts = none) →
      (uJustifiedDecided, X.ρ) ∉ nd.st.dedup → PMem P timeout X C old now p nd T

/-- the member has entered the round. -/
def enteredB (ρ : Nat) (nd : TNode) : Bool := nd.st.round == ρ

/-- the cluster invariant of the ROUND-CHANGE stage; `T p` = the senders whose ROUND-CHANGE was
delivered to `p`, in delivery order. -/
structure S1 (P : TParams) (timeout : Nat → Nat) (X : PRd) (C : Nat → NodeState)
    (old : Nat → List Msg) (s : TState) (T : Nat → List Nat) : Prop where
  net_ok : ∀ pk ∈ s.net, pk.dst ∈ P.R ∧ s.now ≤ pk.sent + P.hi ∧ X.E ≤ pk.sent ∧
    pk.sent ≤ X.E + X.σ ∧ pk.msg = rcsOf X.ρ C pk.msg.core.src
  acct : ∀ p ∈ P.R, ((inflight p s.net).map (·.core.src) ++ T p).Perm
    (P.R.filter (fun a => enteredB X.ρ (s.node a)))
  mem : ∀ p ∈ P.R, PMem P timeout X C old s.now p (s.node p) (T p)

/-- the standing hypotheses. -/
structure PHyp (P : TParams) (timeout : Nat → Nat) (X : PRd) (C : Nat → NodeState)
    (old : Nat → List Msg) : Prop where
  nodup : P.R.Nodup
  n1 : 1 ≤ P.d.nodes
  rho : 2 ≤ X.ρ
  lead : P.d.leader X.ρ = X.l
  arm : P.arm = relTimer timeout
  cert : ∀ a ∈ P.R, CertState P.d (X.ρ - 1) (C a)
  oldRound : ∀ p ∈ P.R, ∀ c ∈ coresOf (old p), c.round ≤ X.ρ - 1 ∧ PrepGood c
  oldLen : ∀ p ∈ P.R, ∀ a, ((old p).filter (fun x => x.core.src == a)).length ≤ X.B
  fifo : X.B + 1 ≤ P.d.fifo
  inp : X.l ∈ P.R → (C X.l).inputValue ≠ 0
  lo : X.σ ≤ P.lo

theorem rcsOf_src (ρ : Nat) (C : Nat → NodeState) (a : Nat) : (rcsOf ρ C a).core.src = a := rfl

theorem PHyp.rcOk {P : TParams} {timeout : Nat → Nat} {X : PRd} {C : Nat → NodeState}
    {old : Nat → List Msg} (hy : PHyp P timeout X C old) {a : Nat} (ha : a ∈ P.R) :
    RcOk P.d X.ρ (rcsOf X.ρ C a) a := by
  refine ⟨rfl, rfl, rfl, ?_⟩
  have hρ := hy.rho
  rcases hy.cert a ha with h | ⟨h1, h2, h3, h4⟩
  · exact Or.inl h
  · exact Or.inr ⟨h1, by show (C a).preparedRound < X.ρ; omega, h3, h4⟩

theorem PHyp.rctx {P : TParams} {timeout : Nat → Nat} {X : PRd} {C : Nat → NodeState}
    {old : Nat → List Msg} (hy : PHyp P timeout X C old) {p : Nat} (hp : p ∈ P.R) {R0 : List Nat}
    (hnd : R0.Nodup) (hsub : ∀ a ∈ R0, a ∈ P.R) :
    RCtx P.d X.ρ (rcsOf X.ρ C) R0 (old p) X.B := by
  have hρ := hy.rho
  exact ⟨hnd, quorum_pos P.d hy.n1, fun a ha => hy.rcOk (hsub a ha),
    fun c hc => ⟨by have := (hy.oldRound p hp c hc).1; omega, (hy.oldRound p hp c hc).2⟩,
    hy.oldLen p hp, hy.fifo⟩

/-- a ROUND-CHANGE that does not make the leader propose leaves the round timer alone. -/
theorem rc_timerOn {d : Def} {r : Nat} {rcOf : Nat → Msg} {R0 : List Nat} {old : List Msg} {B : Nat}
    (hc : RCtx d r rcOf R0 old B) {iv p : Nat} {s0 : NodeState} {T : List Nat} {a : Nat}
    {s : NodeState} {o : Oracle} (hpre : ∃ U, (T ++ [a]) ++ U = R0)
    (hinv : InvR' d r iv p rcOf old s0 T s)
    (hnf : ¬ (d.leader r = p ∧ T.length + 1 = d.quorum)) :
    step d o s (.recv (rcOf a) .ok) = ({ s with buffer := bufferMsg d.fifo s.buffer (rcOf a) }, []) := by
  obtain ⟨hm, hb, h1, h2, h3, hcache, hin, hp3, hdd⟩ := hinv
  have hnd := nodup_of_prefix hc.nodup hpre
  obtain ⟨U, hU⟩ := hpre
  have hT' : ∀ x ∈ T ++ [a], x ∈ R0 := by
    intro x hx; rw [← hU]; exact List.mem_append_left _ hx
  have haR : a ∈ R0 := hT' a (by simp)
  have hrca := hc.rc a haR
  have hq1 := hc.qpos
  have hbuf : BufIs (bufferMsg d.fifo s.buffer (rcOf a)) (old ++ (T ++ [a]).map rcOf) := by
    have := bufIs_bufferMsg (fifo := d.fifo) (m := rcOf a) hb (by
      have h := filter_src_map_le_one (mk := fun x => if x ∈ T ++ [a] then rcOf x else rcMsg r x)
        (by intro q; split
            · rename_i hq; exact (hc.rc q (hT' q hq)).src
            · rfl) hnd (rcOf a).core.src
      have hmap : (T ++ [a]).map (fun x => if x ∈ T ++ [a] then rcOf x else rcMsg r x) =
          (T ++ [a]).map rcOf := by
        apply List.map_congr_left
        intro x hx; rw [if_pos hx]
      rw [hmap] at h
      have h2 := hc.oldLen (rcOf a).core.src
      have hf := hc.fifo
      simp only [List.map_append, List.map_cons, List.map_nil, List.filter_append,
        List.length_append] at h ⊢
      omega)
    simpa using this
  have hcnt : (filterRoundChange (flatten o.srcOrd (bufferMsg d.fifo s.buffer (rcOf a))) s.round).length
      = T.length + 1 := by
    rw [hm.round, hc.frc_length hT' hnd hbuf]; simp
  have hj := hrca.justified hq1 s.compareFailureRound
  have hlen : (T ++ [a]).length = T.length + 1 := by simp
  by_cases hlt : T.length + 1 < d.quorum
  · exact step_rc_below hm.dead hm.started hm.qc hj hrca.typ (by rw [hrca.round, hm.round]) (by omega)
  · obtain ⟨J, hJ⟩ := hc.qrc_some (ord := o.srcOrd) hT' hnd hbuf (by rw [hlen]; omega) o.pqPerm
    have hJ' : getJustifiedQrc d o.pqPerm (flatten o.srcOrd (bufferMsg d.fifo s.buffer (rcOf a)))
        s.round = some J := by rw [hm.round]; exact hJ
    have hrr : (rcOf a).core.round = s.round := by rw [hrca.round, hm.round]
    by_cases hl : d.leader r = p
    · have hq : T.length + 1 ≠ d.quorum := fun e => hnf ⟨hl, e⟩
      have hdd' : (uQuorumRoundChanges, (rcOf a).core.round) ∈ s.dedup := by
        rw [hrca.round]; exact hdd.mpr ⟨hl, by omega⟩
      exact step_rc_dup' hm.dead hm.started hm.qc hj hrca.typ hrr (by omega) hJ' hdd'
    · exact step_rc_nonleader' hm.dead hm.started hm.qc hj hrca.typ hrr (by omega) hJ'
        (by rw [hm.round, hm.proc]; exact hl)

section Stage
variable {P : TParams} {timeout : Nat → Nat} {X : PRd} {C : Nat → NodeState} {old : Nat → List Msg}

theorem PMem.started {now p : Nat} {nd : TNode} {T : List Nat}
    (h : PMem P timeout X C old now p nd T) : nd.st.started = true := by
  cases h with
  | pend e a1 => exact a1.mid.started
  | act dl a1 => exact a1.1.started

/-- elements delivered or in flight to `p` are distinct members that entered. -/
theorem S1.srcs {s : TState} {T : Nat → List Nat} (hy : PHyp P timeout X C old)
    (h : S1 P timeout X C old s T) {p : Nat} (hp : p ∈ P.R) :
    ((inflight p s.net).map (·.core.src) ++ T p).Nodup ∧
    ∀ a ∈ (inflight p s.net).map (·.core.src) ++ T p, a ∈ P.R ∧ (s.node a).st.round = X.ρ := by
  have hperm := h.acct p hp
  refine ⟨hperm.nodup_iff.mpr (hy.nodup.filter _), ?_⟩
  intro a ha
  have := (hperm.mem_iff.mp ha)
  rw [List.mem_filter] at this
  exact ⟨this.1, by simpa [enteredB] using this.2⟩

/-- **time passes** -/
theorem s1_tick {s : TState} {T : Nat → List Nat} (h : S1 P timeout X C old s T) (dt : Nat)
    (hc : canTick P s dt = true) : S1 P timeout X C old { s with now := s.now + dt } T := by
  unfold canTick at hc
  rw [Bool.and_eq_true, List.all_eq_true, List.all_eq_true] at hc
  refine ⟨?_, h.acct, ?_⟩
  · intro pk hpk
    obtain ⟨a1, _, a3, a4, a5⟩ := h.net_ok pk hpk
    have := hc.2 pk hpk
    exact ⟨a1, by simpa using this, a3, a4, a5⟩
  · intro p hp
    have ht := hc.1 p hp
    cases h.mem p hp with
    | pend e a1 a2 a3 a4 a5 a6 a7 a8 =>
      rw [a3] at ht
      exact .pend e a1 a2 a3 a4 a5 (by simpa using ht) a7 a8
    | act dl a1 a2 a3 a4 a5 a6 a7 a8 a9 a10 a11 =>
      rw [a5] at ht
      exact .act dl a1 a2 a3 (by show X.E ≤ s.now + dt; omega) a5 a6 a7 (by simpa using ht) a9 a10 a11

/-- **a round timer fires**: the member enters the round and broadcasts its ROUND-CHANGE with its
prepared certificate. -/
theorem s1_fire {s : TState} {T : Nat → List Nat} (hy : PHyp P timeout X C old)
    (h : S1 P timeout X C old s T) {p : Nat} (hp : p ∈ P.R) (ht : (s.node p).timer = some s.now)
    (hnr : (s.node p).st.round ≠ X.ρ) :
    S1 P timeout X C old (actNode P s p {} [.timeout] s.net []) T ∧
    (actNode P s p {} [.timeout] s.net []).log = s.log ++ [rcsOf X.ρ C p] ∧
    ((actNode P s p {} [.timeout] s.net []).node p).st.round = X.ρ ∧
    (∀ q, q ≠ p → (actNode P s p {} [.timeout] s.net []).node q = s.node q) ∧
    ((actNode P s p {} [.timeout] s.net []).node p).rcvd = (s.node p).rcvd := by
  have hρ := hy.rho
  have hq1 := quorum_pos P.d hy.n1
  cases h.mem p hp with
  | act dl a1 => exact absurd a1.1.round hnr
  | pend e a1 a2 a3 a4 a5 a6 a7 a8 =>
    rw [a3] at ht
    have he : e = s.now := by injection ht
    subst he
    have hst := step_timeout (d := P.d) (o := ({} : Oracle)) a1.mid.dead a1.mid.started a1.aux.timer
    have hr : (s.node p).st.round + 1 = X.ρ := by rw [a1.mid.round]; omega
    rw [hr, a1.aux.pr, a1.aux.pv, a1.aux.pj] at hst
    have htw : twires p (step P.d {} (s.node p).st .timeout).2 = [rcsOf X.ρ C p] := by
      rw [hst]; rfl
    have hnode : (actNode P s p {} [.timeout] s.net []).node p =
        updNode P s.now (s.node p) (step P.d {} (s.node p).st .timeout) [] := by
      rw [actNode_one]; simp
    have hother : ∀ q, q ≠ p → (actNode P s p {} [.timeout] s.net []).node q = s.node q := by
      intro q hq; rw [actNode_one]; simp [hq]
    have hnet : (actNode P s p {} [.timeout] s.net []).net =
        s.net ++ sendAll P.R s.now [rcsOf X.ρ C p] := by
      rw [actNode_one]; simp only; rw [htw]
    have hnow : (actNode P s p {} [.timeout] s.net []).now = s.now := by
      rw [actNode_one]
    have hround' : ((actNode P s p {} [.timeout] s.net []).node p).st.round = X.ρ := by
      rw [hnode]; simp only [updNode]; rw [hst]
    have hlog : (actNode P s p {} [.timeout] s.net []).log = s.log ++ [rcsOf X.ρ C p] := by
      rw [actNode_one]; simp only; rw [htw]
    have hrcvd : ((actNode P s p {} [.timeout] s.net []).node p).rcvd = (s.node p).rcvd := by
      rw [hnode]; simp [updNode]
    refine ⟨⟨?_, ?_, ?_⟩, hlog, hround', hother, hrcvd⟩
    · intro pk hpk
      rw [hnet] at hpk
      rw [hnow]
      rcases List.mem_append.mp hpk with hpk | hpk
      · exact h.net_ok pk hpk
      · obtain ⟨b1, b2, b3⟩ := mem_sendAll hpk
        simp only [List.mem_singleton] at b2
        refine ⟨b1, by omega, by omega, by omega, ?_⟩
        rw [b2]; rfl
    · intro q hq
      have hgain : (P.R.filter (fun a => enteredB X.ρ ((actNode P s p {} [.timeout] s.net []).node a))).Perm
          (p :: P.R.filter (fun a => enteredB X.ρ (s.node a))) := by
        apply filter_gain hy.nodup hp
        · simpa [enteredB] using hnr
        · simpa [enteredB] using hround'
        · intro a ha; simp only [enteredB]; rw [hother a ha]
      rw [hnet, inflight_append, inflight_sendAll hy.nodup hq, List.map_append]
      have h1 : ((inflight q s.net).map (·.core.src) ++ [rcsOf X.ρ C p].map (·.core.src) ++ T q).Perm
          (p :: ((inflight q s.net).map (·.core.src) ++ T q)) := by
        simp only [List.map_cons, List.map_nil, rcsOf_src]
        rw [List.append_assoc]
        exact List.perm_middle
      exact h1.trans ((List.Perm.cons p (h.acct q hq)).trans hgain.symm)
    · intro q hq
      rw [hnow]
      by_cases hqp : q = p
      · subst hqp
        rw [hnode]
        have harm : (armAll P.arm s.now ((s.node q).timer, (s.node q).firsts)
            (step P.d {} (s.node q).st .timeout).2).1 = some (s.now + timeout X.ρ) := by
          rw [hst, hy.arm]
          simp [armAll, armStep, relTimer]
        have hl0 : RoundTimer.lookup X.ρ (s.node q).firsts = none := a8 X.ρ (Nat.le_refl _)
        have harm2 : (armAll P.arm s.now ((s.node q).timer, (s.node q).firsts)
            (step P.d {} (s.node q).st .timeout).2).2 = (X.ρ, s.now + timeout X.ρ) :: (s.node q).firsts := by
          rw [hst, hy.arm]
          simp [armAll, armStep, relTimer, hl0]
        refine .act (s.now + timeout X.ρ) ?_ ?_ ?_ a4 ?_ (by omega) (by omega) (by omega) ?_ ?_ ?_
        · simp only [updNode]; rw [hst, a2]
          refine ⟨⟨a1.mid.dead, a1.mid.started, rfl, a1.mid.qc, a1.mid.cfr, a1.mid.proc⟩,
            by simpa using a1.buf, by simp, by simp, by simp, rfl, a1.aux.iv,
            ⟨rfl, rfl, rfl⟩, ?_⟩
          simp only [List.not_mem_nil, List.length_nil, false_iff, not_and]
          intro _; omega
        · simp only [updNode]; rw [hst]
        · simp only [updNode]; rw [hst]
          exact Quiet.append a7 ⟨rfl, rfl⟩
        · simp only [updNode]; exact harm
        · intro _; rw [a2]; simp; omega
        · simp only [updNode]; rw [harm2]
          refine ⟨⟨s.now + timeout X.ρ, by simp [RoundTimer.lookup], by omega⟩, ?_⟩
          intro r hr
          simp only [RoundTimer.lookup]
          rw [if_neg (by omega)]
          exact a8 r (by omega)
        · simp only [updNode]; rw [hst]; simp
      · rw [hother q hqp]
        exact h.mem q hq

/-- the delivery at which the leader reaches its quorum of ROUND-CHANGEs: what it broadcasts. -/
def Fires (P : TParams) (X : PRd) (C : Nat → NodeState) (s : TState) (k : Nat) (o : Oracle) : Prop :=
  ∃ pk Q, s.net[k]? = some pk ∧ pk.dst = X.l ∧ pk.sent + P.lo < s.now ∧
    Q.Nodup ∧ Q.length = P.d.quorum ∧ (∀ a ∈ Q, a ∈ P.R) ∧
    FireR' P.d X.ρ (C X.l).inputValue (rcsOf X.ρ C) Q
      (step P.d o (s.node X.l).st (.recv pk.msg .ok)).2

/-- **a ROUND-CHANGE is delivered**: it is buffered — or the receiver is the leader, this is its
quorum-th ROUND-CHANGE and it proposes. -/
theorem s1_deliver {s : TState} {T : Nat → List Nat} (hy : PHyp P timeout X C old)
    (h : S1 P timeout X C old s T) (o : Oracle) {k : Nat} {pk : Packet} (hk : s.net[k]? = some pk)
    (hlo : pk.sent + P.lo < s.now) :
    (S1 P timeout X C old
      (actNode P s pk.dst o [.recv pk.msg .ok] (s.net.eraseIdx k) [pk.msg])
      (fun q => if q = pk.dst then T pk.dst ++ [pk.msg.core.src] else T q) ∧
     (step P.d o (s.node pk.dst).st (.recv pk.msg .ok)).2 = []) ∨
    Fires P X C s k o := by
  have hρ := hy.rho
  obtain ⟨A, B, hA, hB⟩ := eraseIdx_split hk
  have hmem : pk ∈ s.net := by rw [hA]; simp
  obtain ⟨hdst, _, hE, hsent, hmsg⟩ := h.net_ok pk hmem
  generalize ha : pk.msg.core.src = a at hmsg ⊢
  have hlo' := hy.lo
  cases h.mem pk.dst hdst with
  | pend e a1 a2 a3 a4 a5 a6 a7 => omega
  | act dl a1 a2 a3 a4 a5 a6 a7 a8 a9 a10 a11 =>
    obtain ⟨hnd, hsub⟩ := h.srcs hy hdst
    have hin : a ∈ (inflight pk.dst s.net).map (·.core.src) := by
      rw [List.mem_map]
      exact ⟨pk.msg, mem_inflight.mpr ⟨pk, hmem, rfl, rfl⟩, ha⟩
    have hperm0 : ((inflight pk.dst s.net).map (·.core.src)).Perm
        (a :: (inflight pk.dst (s.net.eraseIdx k)).map (·.core.src)) := by
      rw [hB, hA]
      have := (inflight_split_same pk.dst A B pk rfl).map (·.core.src)
      rw [List.map_cons, ha] at this
      exact this
    -- `T ++ [a]` is duplicate-free and consists of members
    have hnd2 : (a :: (inflight pk.dst (s.net.eraseIdx k)).map (·.core.src) ++ T pk.dst).Nodup :=
      ((hperm0.append_right (T pk.dst)).nodup_iff).mp hnd
    have haT : a ∉ T pk.dst := by
      intro hc
      rw [List.cons_append, List.nodup_cons] at hnd2
      exact hnd2.1 (List.mem_append_right _ hc)
    have hTnd : (T pk.dst ++ [a]).Nodup := by
      rw [List.cons_append, List.nodup_cons] at hnd2
      have := (List.nodup_append.mp hnd2.2).2.1
      rw [List.nodup_append]
      refine ⟨this, by simp, ?_⟩
      intro x hx y hy'
      simp only [List.mem_singleton] at hy'
      subst hy'
      intro he; subst he; exact haT hx
    have hTsub : ∀ x ∈ T pk.dst ++ [a], x ∈ P.R := by
      intro x hx
      rcases List.mem_append.mp hx with hx | hx
      · exact (hsub x (List.mem_append_right _ hx)).1
      · simp only [List.mem_singleton] at hx; subst hx
        exact (hsub _ (List.mem_append_left _ hin)).1
    have hctx := hy.rctx hdst hTnd hTsub
    have hstep := rc_step' hctx (C pk.dst).inputValue pk.dst (C pk.dst)
      (fun hl => Or.inl (by rw [hy.lead] at hl; rw [← hl]; exact hy.inp (hl ▸ hdst)))
      (T pk.dst) a (s.node pk.dst).st o ⟨[], by simp⟩ a1
    rw [← hmsg] at hstep
    obtain ⟨hinv', hout⟩ := hstep
    by_cases hfire : P.d.leader X.ρ = pk.dst ∧ (T pk.dst).length + 1 = P.d.quorum
    · right
      rw [if_pos (by rw [if_pos hfire.1]; exact hfire.2)] at hout
      have hld : pk.dst = X.l := by rw [← hy.lead]; exact hfire.1.symm
      refine ⟨pk, T pk.dst ++ [a], hk, hld, hlo, hTnd, by simp [hfire.2], hTsub, ?_⟩
      rw [← hld]
      have : (T pk.dst ++ [a]).take P.d.quorum = T pk.dst ++ [a] := by
        apply List.take_of_length_le; simp; omega
      rw [this] at hout
      exact hout
    · left
      rw [if_neg (by
        intro hc
        split at hc
        · rename_i hl; exact hfire ⟨hl, hc⟩
        · omega)] at hout
      refine ⟨?_, hout⟩
      have hnode : (actNode P s pk.dst o [.recv pk.msg .ok] (s.net.eraseIdx k) [pk.msg]).node pk.dst =
          updNode P s.now (s.node pk.dst) (step P.d o (s.node pk.dst).st (.recv pk.msg .ok)) [pk.msg] := by
        rw [actNode_one]; simp
      have hother : ∀ q, q ≠ pk.dst →
          (actNode P s pk.dst o [.recv pk.msg .ok] (s.net.eraseIdx k) [pk.msg]).node q = s.node q := by
        intro q hq; rw [actNode_one]; simp [hq]
      have hnet : (actNode P s pk.dst o [.recv pk.msg .ok] (s.net.eraseIdx k) [pk.msg]).net =
          s.net.eraseIdx k := by
        rw [actNode_one]; simp only; rw [hout]; simp [twires, sendAll]
      have hnow : (actNode P s pk.dst o [.recv pk.msg .ok] (s.net.eraseIdx k) [pk.msg]).now = s.now := by
        rw [actNode_one]
      have hent : ∀ q, enteredB X.ρ
          ((actNode P s pk.dst o [.recv pk.msg .ok] (s.net.eraseIdx k) [pk.msg]).node q) =
          enteredB X.ρ (s.node q) := by
        intro q
        by_cases hq : q = pk.dst
        · subst hq
          rw [hnode]
          simp only [enteredB, updNode]
          rw [hinv'.1.round, a1.1.round]
        · rw [hother q hq]
      refine ⟨?_, ?_, ?_⟩
      · intro pk' hpk'
        rw [hnet, hB] at hpk'
        rw [hnow]
        apply h.net_ok
        rw [hA]
        rcases List.mem_append.mp hpk' with hh | hh
        · exact List.mem_append_left _ hh
        · exact List.mem_append_right _ (List.mem_cons_of_mem _ hh)
      · intro q hq
        rw [hnet, filter_same (fun a _ => hent a)]
        by_cases hqd : q = pk.dst
        · subst hqd
          rw [if_pos rfl]
          have h2 := h.acct pk.dst hq
          have h3 : ((inflight pk.dst (s.net.eraseIdx k)).map (·.core.src) ++ (T pk.dst ++ [a])).Perm
              (a :: (inflight pk.dst (s.net.eraseIdx k)).map (·.core.src) ++ T pk.dst) := by
            rw [← List.append_assoc]
            refine List.perm_append_comm.trans ?_
            simp
          exact h3.trans ((hperm0.append_right (T pk.dst)).symm.trans h2)
        · rw [if_neg hqd, hB]
          have : inflight q (A ++ B) = inflight q s.net := by
            rw [hA, inflight_split_other q A B pk (fun hc => hqd hc.symm)]
          rw [this]
          exact h.acct q hq
      · intro q hq
        rw [hnow]
        by_cases hqd : q = pk.dst
        · subst hqd
          rw [if_pos rfl, hnode]
          have hupd : updNode P s.now (s.node pk.dst) (step P.d o (s.node pk.dst).st (.recv pk.msg .ok)) [pk.msg] =
              { st := (step P.d o (s.node pk.dst).st (.recv pk.msg .ok)).1, outs := (s.node pk.dst).outs,
                timer := (s.node pk.dst).timer, firsts := (s.node pk.dst).firsts,
                rcvd := (s.node pk.dst).rcvd ++ [pk.msg] } := by
            simp only [updNode]; rw [hout]; simp [armAll]
          rw [hupd]
          have hstf := rc_timerOn (T := T pk.dst) (a := a) (o := o) hctx ⟨[], by simp⟩ a1 hfire
          refine .act dl hinv' ?_ a3 a4 a5 a6 a7 a8 ?_ a10 (by rw [hmsg, hstf]; exact a11)
          · rw [hmsg, hstf]; exact a2
          · intro hl
            simp only [List.length_append, List.length_singleton]
            have := a9 hl
            have : (T pk.dst).length + 1 ≠ P.d.quorum := fun hc => hfire ⟨by rw [hy.lead]; exact hl, hc⟩
            omega
        · rw [if_neg hqd, hother q hqd]
          exact h.mem q hq

/-- **one action**: the invariant is kept, or the leader proposes. -/
theorem s1_step {s s' : TState} {T : Nat → List Nat} (hy : PHyp P timeout X C old)
    (h : S1 P timeout X C old s T) (a : TAct) (hs : tstep P s a = some s')
    (hnf : ∀ p, a = .fire p → (s.node p).st.round ≠ X.ρ) :
    (∃ T', S1 P timeout X C old s' T') ∨ ∃ k o, a = .deliver k o ∧ Fires P X C s k o := by
  cases a with
  | tick dt =>
    simp only [tstep] at hs
    split at hs
    · rename_i hc
      cases hs
      exact Or.inl ⟨T, s1_tick h dt hc⟩
    · cases hs
  | deliver k o =>
    simp only [tstep] at hs
    split at hs
    · cases hs
    · rename_i pk hk
      split at hs
      · rename_i hlo
        cases hs
        rcases s1_deliver hy h o hk hlo with h' | h'
        · exact Or.inl ⟨_, h'.1⟩
        · exact Or.inr ⟨k, o, rfl, h'⟩
      · cases hs
  | fire p =>
    simp only [tstep] at hs
    split at hs
    · rename_i hc
      cases hs
      exact Or.inl ⟨T, (s1_fire hy h hc.1 hc.2 (hnf p rfl)).1⟩
    · cases hs
  | start p =>
    simp only [tstep] at hs
    split at hs
    · rename_i hc
      have := (h.mem p hc.1).started
      rw [hc.2] at this
      cases this
    · cases hs

/-- **the stage lasts at most `σ + hi`**: while the leader runs and has not proposed, one of the
ROUND-CHANGEs of the quorum it waits for is still to be sent or in flight to it. -/
theorem s1_now_le {s : TState} {T : Nat → List Nat} (hy : PHyp P timeout X C old)
    (h : S1 P timeout X C old s T) (hl : X.l ∈ P.R) (hq : P.d.quorum ≤ P.R.length) :
    s.now ≤ X.E + X.σ + P.hi := by
  have hρ := hy.rho
  by_cases hall : ∀ a ∈ P.R, (s.node a).st.round = X.ρ
  · cases h.mem X.l hl with
    | pend e a1 =>
      have := a1.mid.round; have := hall X.l hl; omega
    | act dl a1 a2 a3 a4 a5 a6 a7 a8 a9 =>
      have hlen := (h.acct X.l hl).length_eq
      have hfil : P.R.filter (fun a => enteredB X.ρ (s.node a)) = P.R := by
        rw [List.filter_eq_self]
        intro a ha; simpa [enteredB] using hall a ha
      rw [hfil, List.length_append, List.length_map] at hlen
      have := a9 rfl
      have hne : inflight X.l s.net ≠ [] := by
        intro hc; rw [hc] at hlen; simp at hlen; omega
      obtain ⟨m, hm⟩ := List.exists_mem_of_ne_nil _ hne
      obtain ⟨pk, hpk, _, _⟩ := mem_inflight.mp hm
      obtain ⟨_, b2, _, b4, _⟩ := h.net_ok pk hpk
      omega
  · have : ∃ a ∈ P.R, (s.node a).st.round ≠ X.ρ := by
      apply Classical.byContradiction
      intro hc; apply hall
      intro a ha
      apply Classical.byContradiction
      intro hr; exact hc ⟨a, ha, hr⟩
    obtain ⟨a, ha, hr⟩ := this
    cases h.mem a ha with
    | pend e a1 a2 a3 a4 a5 a6 a7 => omega
    | act dl a1 => exact absurd a1.1.round hr

/-- **Every execution** from a state of the stage stays in the stage or passes through the delivery
at which the leader proposes; the clock cannot pass `E + σ + hi` before that. -/
theorem s1_exec (hy : PHyp P timeout X C old) (hl : X.l ∈ P.R) (hq : P.d.quorum ≤ P.R.length)
    (hfit : X.σ + P.hi < timeout X.ρ) :
    ∀ (acts : List TAct) (s : TState) (T : Nat → List Nat), S1 P timeout X C old s T →
    ∀ s', texec P s acts = some s' →
      (∃ T', S1 P timeout X C old s' T') ∨
      ∃ a1 k o a2 s1 T1, acts = a1 ++ TAct.deliver k o :: a2 ∧ texec P s a1 = some s1 ∧
        S1 P timeout X C old s1 T1 ∧ Fires P X C s1 k o := by
  intro acts
  induction acts with
  | nil =>
    intro s T h s' hs
    simp only [texec] at hs; cases hs
    exact Or.inl ⟨T, h⟩
  | cons a as ih =>
    intro s T h s' hs
    simp only [texec] at hs
    split at hs
    · cases hs
    · rename_i s1 hs1
      have hnf : ∀ p, a = .fire p → (s.node p).st.round ≠ X.ρ := by
        intro p ha hr
        subst ha
        simp only [tstep] at hs1
        split at hs1
        · rename_i hc
          have hnow := s1_now_le hy h hl hq
          cases h.mem p hc.1 with
          | pend e a1 => have := a1.mid.round; have := hy.rho; omega
          | act dl a1 a2 a3 a4 a5 a6 a7 a8 a9 =>
            rw [a5] at hc
            have : dl = s.now := by injection hc.2
            omega
        · cases hs1
      rcases s1_step hy h a hs1 hnf with ⟨T', h'⟩ | ⟨k, o, ha, hf⟩
      · rcases ih s1 T' h' s' hs with h2 | ⟨a1, k, o, a2, s2, T2, e1, e2, e3, e4⟩
        · exact Or.inl h2
        · refine Or.inr ⟨a :: a1, k, o, a2, s2, T2, by rw [e1]; rfl, ?_, e3, e4⟩
          simp only [texec, hs1]; exact e2
      · exact Or.inr ⟨[], k, o, as, s, T, by rw [ha]; rfl, rfl, h, hf⟩

/-! ### Start of the stage -/

/-- The timed analogue of `Stuck`: all running members sit in round `ρ - 1`, undecided, their round
timers due at instants in `[E, E + σ]`, nothing in flight; member `p` received `old p` so far and
holds the prepared state and input of `C p`. -/
structure PoisedP (P : TParams) (X : PRd) (C : Nat → NodeState) (old : Nat → List Msg)
    (s : TState) : Prop where
  net : s.net = []
  mem : ∀ p ∈ P.R, ∃ e, Wait (X.ρ - 1) p (old p) (C p) (s.node p).st ∧ (s.node p).timer = some e ∧
    X.E ≤ e ∧ e ≤ X.E + X.σ ∧ s.now ≤ e ∧ Quiet (s.node p).outs ∧
    ∀ r, X.ρ ≤ r → RoundTimer.lookup r (s.node p).firsts = none

theorem poisedP_s1 {s : TState} (hy : PHyp P timeout X C old) (h : PoisedP P X C old s) :
    S1 P timeout X C old s (fun _ => []) := by
  have hρ := hy.rho
  refine ⟨?_, ?_, ?_⟩
  · intro pk hpk; rw [h.net] at hpk; cases hpk
  · intro p _
    rw [h.net]
    have : P.R.filter (fun a => enteredB X.ρ (s.node a)) = [] := by
      rw [List.filter_eq_nil_iff]
      intro a ha
      obtain ⟨e, a1, _⟩ := h.mem a ha
      simp only [enteredB, beq_iff_eq]
      have := a1.mid.round; omega
    rw [this]
    simp [inflight]
  · intro p hp
    obtain ⟨e, a1, a2, a3, a4, a5, a6, a7⟩ := h.mem p hp
    exact .pend e a1 rfl a2 a3 a4 a5 a6 a7

/-! ### A round whose leader is down -/

/-- Leader not running: the execution keeps the invariant, or it has a prefix that keeps it and
ends at an instant `≥ E + timeout ρ` (the first round-`ρ` timer is about to fire). -/
theorem s1_silent_split (hy : PHyp P timeout X C old) (hsil : X.l ∉ P.R) :
    ∀ (acts : List TAct) (s : TState) (T : Nat → List Nat), S1 P timeout X C old s T →
    ∀ s', texec P s acts = some s' →
      (∃ T', S1 P timeout X C old s' T') ∨
      ∃ a1 a2 s1 T1, acts = a1 ++ a2 ∧ texec P s a1 = some s1 ∧ texec P s1 a2 = some s' ∧
        S1 P timeout X C old s1 T1 ∧ X.E + timeout X.ρ ≤ s1.now := by
  intro acts
  induction acts with
  | nil =>
    intro s T h s' hs
    simp only [texec] at hs; cases hs
    exact Or.inl ⟨T, h⟩
  | cons a as ih =>
    intro s T h s' hs
    by_cases hfa : ∃ p, a = .fire p ∧ p ∈ P.R ∧ (s.node p).st.round = X.ρ ∧ (s.node p).timer = some s.now
    · obtain ⟨p, _, hp, hr, ht⟩ := hfa
      refine Or.inr ⟨[], a :: as, s, T, rfl, rfl, hs, h, ?_⟩
      cases h.mem p hp with
      | pend e a1 => have := a1.mid.round; have := hy.rho; omega
      | act dl a1 a2 a3 a4 a5 a6 a7 a8 a9 =>
        rw [a5] at ht
        have : dl = s.now := by injection ht
        omega
    · simp only [texec] at hs
      split at hs
      · cases hs
      · rename_i s1 hs1
        have hnf : ∀ p, a = .fire p → (s.node p).st.round ≠ X.ρ := by
          intro p ha hr
          subst ha
          simp only [tstep] at hs1
          split at hs1
          · rename_i hc
            exact hfa ⟨p, rfl, hc.1, hr, hc.2⟩
          · cases hs1
        rcases s1_step hy h a hs1 hnf with ⟨T', h'⟩ | ⟨k, o, _, pk, Q, hk, hd, _⟩
        · rcases ih s1 T' h' s' hs with h2 | ⟨a1, a2, s2, T2, e1, e2, e3, e4, e5⟩
          · exact Or.inl h2
          · refine Or.inr ⟨a :: a1, a2, s2, T2, by rw [e1]; rfl, ?_, e3, e4, e5⟩
            simp only [texec, hs1]; exact e2
        · exfalso
          have : pk ∈ s.net := List.mem_of_getElem? hk
          exact hsil (hd ▸ (h.net_ok pk this).1)

/-- the next round. -/
def PRd.next (X : PRd) (timeout : Nat → Nat) (l' : Nat) : PRd :=
  ⟨X.ρ + 1, l', X.E + timeout X.ρ, X.σ, X.B + 1⟩

/-- what member `p` holds after the stage: the earlier messages and the ROUND-CHANGEs delivered. -/
def oldNext (X : PRd) (C : Nat → NodeState) (old : Nat → List Msg) (T : Nat → List Nat) :
    Nat → List Msg := fun p => old p ++ (T p).map (rcsOf X.ρ C)

theorem phyp_next {s : TState} {T : Nat → List Nat} (hy : PHyp P timeout X C old)
    (h : S1 P timeout X C old s T) {l' : Nat} (hlead : P.d.leader (X.ρ + 1) = l')
    (hinp : l' ∈ P.R → (C l').inputValue ≠ 0) (hfifo : X.B + 2 ≤ P.d.fifo) :
    PHyp P timeout (X.next timeout l') C (oldNext X C old T) := by
  have hρ := hy.rho
  refine ⟨hy.nodup, hy.n1, by show 2 ≤ X.ρ + 1; omega, hlead, hy.arm, ?_, ?_, ?_,
    by show X.B + 1 + 1 ≤ P.d.fifo; omega, hinp, hy.lo⟩
  · intro a ha
    show CertState P.d (X.ρ + 1 - 1) (C a)
    rcases hy.cert a ha with h1 | ⟨h1, h2, h3, h4⟩
    · exact Or.inl h1
    · exact Or.inr ⟨h1, by omega, h3, h4⟩
  · intro p hp c hc
    show c.round ≤ X.ρ + 1 - 1 ∧ PrepGood c
    obtain ⟨hnd, hsub⟩ := h.srcs hy hp
    have hctx := hy.rctx hp (R0 := T p) (List.nodup_append.mp hnd).2.1
      (fun a ha => (hsub a (List.mem_append_right _ ha)).1)
    have := hctx.cores (T := T p) (fun a ha => ha) c hc
    exact ⟨by omega, this.2.1⟩
  · intro p hp a
    obtain ⟨hnd, _⟩ := h.srcs hy hp
    exact filter_src_append_le (hy.oldLen p hp) (rcsOf_src X.ρ C) (List.nodup_append.mp hnd).2.1 a

/-- **End of a silent round = start of the next one**: once the clock has passed `E + σ + hi` (and
no round-`ρ` timer has fired) every running member sits in round `ρ` with all ROUND-CHANGEs
delivered, its prepared state untouched, its timer due in `[E + timeout ρ, E + timeout ρ + σ]`. -/
theorem poisedP_next {s : TState} {T : Nat → List Nat}
    (h : S1 P timeout X C old s T) (hlate : X.E + X.σ + P.hi < s.now) (l' : Nat) :
    PoisedP P (X.next timeout l') C (oldNext X C old T) s := by
  constructor
  · cases hnet : s.net with
    | nil => rfl
    | cons pk rest =>
      have := h.net_ok pk (by rw [hnet]; exact List.mem_cons_self)
      omega
  · intro p hp
    cases h.mem p hp with
    | pend e a1 a2 a3 a4 a5 a6 a7 => omega
    | act dl a1 a2 a3 a4 a5 a6 a7 a8 a9 a10 =>
      obtain ⟨b1, b2, _, _, _, _, b7, b8, _⟩ := a1
      refine ⟨dl, ⟨?_, b2, ⟨b8.1, b8.2.1, b8.2.2, b7, a2⟩⟩, a5, a6, ?_, a8, a3,
        fun r hr => a10.2 r (by have : X.ρ + 1 ≤ r := hr; omega)⟩
      · show Mid (X.ρ + 1 - 1) p (s.node p).st
        rw [Nat.add_sub_cancel]; exact b1
      · show dl ≤ X.E + timeout X.ρ + X.σ
        omega

/-- while the leader is down nobody leaves the stage before a round-`ρ` timer is due. -/
theorem s1_silent_now_le {s : TState} {T : Nat → List Nat} (h : S1 P timeout X C old s T)
    {p : Nat} (hp : p ∈ P.R) : s.now ≤ X.E + X.σ + timeout X.ρ := by
  cases h.mem p hp with
  | pend e a1 a2 a3 a4 a5 a6 a7 => omega
  | act dl a1 a2 a3 a4 a5 a6 a7 a8 a9 => omega

end Stage

/-! ### Several rounds: silent ones — whatever prepared state the earlier rounds left — then one
whose leader runs -/

theorem texec_append {P : TParams} : ∀ (a : List TAct) (s s1 : TState) (b : List TAct),
    texec P s a = some s1 → texec P s (a ++ b) = texec P s1 b := by
  intro a
  induction a with
  | nil => intro s s1 b h; simp only [texec] at h; cases h; rfl
  | cons x xs ih =>
    intro s s1 b h
    simp only [List.cons_append, texec] at h ⊢
    split at h
    · cases h
    · rename_i s2 hs2
      exact ih s2 s1 b h

theorem sumTimeouts_shift (timeout : Nat → Nat) (ρ : Nat) :
    ∀ m, timeout ρ + sumTimeouts timeout (ρ + 1) m = sumTimeouts timeout ρ (m + 1) := by
  intro m
  induction m with
  | zero => simp [sumTimeouts]
  | succ m ih =>
    rw [show sumTimeouts timeout (ρ + 1) (m + 1) =
      sumTimeouts timeout (ρ + 1) m + timeout (ρ + 1 + m) from rfl, ← Nat.add_assoc, ih,
      show ρ + 1 + m = ρ + (m + 1) by omega]
    rfl

/-- **`m` rounds whose leaders are down, then a round whose leader runs**, from a cluster whose
members may hold prepared certificates: in every execution that has passed

  `E + (timeout ρ + … + timeout (ρ + m - 1)) + σ + hi`

the leader of round `ρ + m` has reached its quorum of ROUND-CHANGEs and proposed (`Fires`), the
cluster being in the ROUND-CHANGE stage of round `ρ + m` (`S1`) until then. -/
theorem rot_prepared {P : TParams} {timeout : Nat → Nat} {C : Nat → NodeState}
    (hq : P.d.quorum ≤ P.R.length) (hinp : ∀ p ∈ P.R, (C p).inputValue ≠ 0) :
    ∀ (m : Nat) (X : PRd) (old : Nat → List Msg), PHyp P timeout X C old →
    (∀ k, k < m → P.d.leader (X.ρ + k) ∉ P.R) → P.d.leader (X.ρ + m) ∈ P.R →
    (∀ k, k ≤ m → X.σ + P.hi < timeout (X.ρ + k)) → X.B + m + 1 ≤ P.d.fifo →
    ∀ (s : TState), PoisedP P X C old s →
    ∀ (acts : List TAct) (s' : TState), texec P s acts = some s' →
      X.E + sumTimeouts timeout X.ρ m + X.σ + P.hi < s'.now →
      ∃ (X' : PRd) (old' : Nat → List Msg) (a1 : List TAct) (k : Nat) (o : Oracle) (a2 : List TAct)
        (s1 : TState) (T1 : Nat → List Nat),
        X'.ρ = X.ρ + m ∧ X'.l = P.d.leader (X.ρ + m) ∧ X'.E = X.E + sumTimeouts timeout X.ρ m ∧
        X'.σ = X.σ ∧ PHyp P timeout X' C old' ∧
        acts = a1 ++ TAct.deliver k o :: a2 ∧ texec P s a1 = some s1 ∧
        S1 P timeout X' C old' s1 T1 ∧ Fires P X' C s1 k o ∧ s1.now ≤ X'.E + X'.σ + P.hi := by
  intro m
  induction m with
  | zero =>
    intro X old hy _ hl hfit _ s hp acts s' hs hlate
    have hl' : X.l ∈ P.R := by rw [← hy.lead]; exact hl
    rcases s1_exec hy hl' hq (hfit 0 (Nat.le_refl _)) acts s _ (poisedP_s1 hy hp) s' hs with
      ⟨T', h'⟩ | ⟨a1, k, o, a2, s1, T1, e1, e2, e3, e4⟩
    · have := s1_now_le hy h' hl' hq
      simp only [sumTimeouts] at hlate
      omega
    · exact ⟨X, old, a1, k, o, a2, s1, T1, rfl, hy.lead.symm, rfl, rfl, hy, e1, e2, e3, e4,
        s1_now_le hy e3 hl' hq⟩
  | succ m ih =>
    intro X old hy hsil hl hfit hfifo s hp acts s' hs hlate
    have hsil0 : X.l ∉ P.R := by rw [← hy.lead]; exact hsil 0 (by omega)
    have hne : ∃ p, p ∈ P.R := by
      have := quorum_pos P.d hy.n1
      cases hR : P.R with
      | nil => rw [hR] at hq; simp at hq; omega
      | cons x xs => exact ⟨x, List.mem_cons_self⟩
    obtain ⟨p0, hp0⟩ := hne
    have hshift := sumTimeouts_shift timeout X.ρ m
    have hfit0 := hfit 0 (by omega)
    rcases s1_silent_split hy hsil0 acts s _ (poisedP_s1 hy hp) s' hs with
      ⟨T', h'⟩ | ⟨a1, a2, s1, T1, e1, e2, e3, e4, e5⟩
    · have := s1_silent_now_le h' hp0
      simp only [Nat.add_zero] at hfit0
      omega
    · have hy' := phyp_next hy e4 (l' := P.d.leader (X.ρ + 1)) rfl (fun h => hinp _ h) (by omega)
      have hp' := poisedP_next e4 (by simp only [Nat.add_zero] at hfit0; omega) (P.d.leader (X.ρ + 1))
      obtain ⟨X', old', b1, k, o, b2, s2, T2, r1, r2, r3, r4, r5, r6, r7, r8, r9, r10⟩ :=
        ih (X.next timeout (P.d.leader (X.ρ + 1))) _ hy'
          (fun k hk => by
            show P.d.leader (X.ρ + 1 + k) ∉ P.R
            rw [show X.ρ + 1 + k = X.ρ + (k + 1) by omega]; exact hsil (k + 1) (by omega))
          (by show P.d.leader (X.ρ + 1 + m) ∈ P.R
              rw [show X.ρ + 1 + m = X.ρ + (m + 1) by omega]; exact hl)
          (fun k hk => by
            show X.σ + P.hi < timeout (X.ρ + 1 + k)
            rw [show X.ρ + 1 + k = X.ρ + (k + 1) by omega]; exact hfit (k + 1) (by omega))
          (by show X.B + 1 + m + 1 ≤ P.d.fifo; omega) s1 hp' a2 s' e3
          (by show X.E + timeout X.ρ + sumTimeouts timeout (X.ρ + 1) m + X.σ + P.hi < s'.now
              omega)
      refine ⟨X', old', a1 ++ b1, k, o, b2, s2, T2, ?_, ?_, ?_, r4, r5, ?_, ?_, r8, r9, r10⟩
      · rw [r1]; show X.ρ + 1 + m = X.ρ + (m + 1); omega
      · rw [r2]; show P.d.leader (X.ρ + 1 + m) = _
        rw [show X.ρ + 1 + m = X.ρ + (m + 1) by omega]
      · rw [r3]; show X.E + timeout X.ρ + sumTimeouts timeout (X.ρ + 1) m = _; omega
      · rw [e1, r6, List.append_assoc]
      · rw [texec_append a1 s s1 b1 e2]; exact r7

/-! ### Reading the invariant and the proposal -/

/-- during the stage nobody has decided, faulted, returned, left the round or changed its prepared
state. -/
theorem S1.safe {P : TParams} {timeout : Nat → Nat} {X : PRd} {C : Nat → NodeState}
    {old : Nat → List Msg} {s : TState} {T : Nat → List Nat} (h : S1 P timeout X C old s T)
    {p : Nat} (hp : p ∈ P.R) :
    Quiet (s.node p).outs ∧ (s.node p).st.dead = false ∧ (s.node p).st.qCommit = [] ∧
    (s.node p).st.round ≤ X.ρ ∧
    Prep3 (C p).preparedRound (C p).preparedValue (C p).preparedJust (s.node p).st := by
  cases h.mem p hp with
  | pend e a1 a2 a3 a4 a5 a6 a7 =>
    exact ⟨a7, a1.mid.dead, a1.mid.qc, by rw [a1.mid.round]; omega, a1.aux.pr, a1.aux.pv, a1.aux.pj⟩
  | act dl a1 a2 a3 =>
    obtain ⟨b1, _, _, _, _, _, _, b8, _⟩ := a1
    exact ⟨a3, b1.dead, b1.qc, by rw [b1.round]; exact Nat.le_refl _, b8⟩

/-- **what the firing delivery does**: the leader's PRE-PREPARE — value `w ≠ 0`, justification `J`,
accepted by `isJustified` at every receiver, `w` = the value prepared in the highest prepared round
among the quorum `Q` of ROUND-CHANGEs the leader holds, or its own input if they are all null — is in
the log and in flight to every running member. -/
theorem fires_sends {P : TParams} {timeout : Nat → Nat} {X : PRd} {C : Nat → NodeState}
    {old : Nat → List Msg} (hy : PHyp P timeout X C old) {s s' : TState} {k : Nat} {o : Oracle}
    (hf : Fires P X C s k o) (hs : tstep P s (.deliver k o) = some s') :
    ∃ Q J w, Q.Nodup ∧ Q.length = P.d.quorum ∧ (∀ a ∈ Q, a ∈ P.R) ∧ w ≠ 0 ∧
      isJustified P.d (ppMsg X.ρ w J X.l) 0 = some true ∧
      ValueSpec (rcsOf X.ρ C) Q (C X.l).inputValue w ∧
      (∀ q ∈ P.R, ppMsg X.ρ w J X.l ∈ inflight q s'.net) ∧ ppMsg X.ρ w J X.l ∈ s'.log ∧
      s'.now = s.now := by
  obtain ⟨pk, Q, hk, hd, hlo, hQ1, hQ2, hQ3, J, w, hout, _, hw, hj, hv⟩ := hf
  simp only [tstep, hk, if_pos hlo] at hs
  cases hs
  rw [hy.lead] at hj
  refine ⟨Q, J, w, hQ1, hQ2, hQ3, hw, hj, hv, ?_, ?_, ?_⟩
  · intro q hq
    rw [actNode_one]
    simp only
    rw [hd, hout, inflight_append, inflight_sendAll hy.nodup hq]
    exact List.mem_append_right _ (by simp [twires, twire, ppMsg])
  · rw [actNode_one]
    simp only
    rw [hd, hout]
    exact List.mem_append_right _ (by simp [twires, twire, ppMsg])
  · rw [actNode_one]

/-- the phased predicate `Stuck` of `Proofs/QbftPrepared.lean` at every running member, timers due
in `[E, E + σ]` and an empty network give the start state of the timed stage. -/
theorem stuck_poised {P : TParams} {timeout : Nat → Nat} {X : PRd} {old : Nat → List Msg}
    {s : TState} (hR : P.R.Nodup) (hn : 1 ≤ P.d.nodes) (hρ : 2 ≤ X.ρ) (hlead : P.d.leader X.ρ = X.l)
    (harm : P.arm = relTimer timeout) (hfifo : X.B + 1 ≤ P.d.fifo) (hlo : X.σ ≤ P.lo)
    (hst : ∀ p ∈ P.R, Stuck P.d (X.ρ - 1) X.B p (old p) ((s.node p).st, (s.node p).outs))
    (hinp : X.l ∈ P.R → (s.node X.l).st.inputValue ≠ 0) (hnet : s.net = [])
    (htm : ∀ p ∈ P.R, ∃ e, (s.node p).timer = some e ∧ X.E ≤ e ∧ e ≤ X.E + X.σ ∧ s.now ≤ e)
    (hfd : ∀ p ∈ P.R, ∀ r, X.ρ ≤ r → RoundTimer.lookup r (s.node p).firsts = none) :
    PHyp P timeout X (fun p => (s.node p).st) old ∧ PoisedP P X (fun p => (s.node p).st) old s := by
  refine ⟨⟨hR, hn, hρ, hlead, harm, fun a ha => (hst a ha).cert, fun p hp => (hst p hp).oldRound,
    fun p hp => (hst p hp).oldLen, hfifo, hinp, hlo⟩, hnet, ?_⟩
  intro p hp
  obtain ⟨e, h1, h2, h3, h4⟩ := htm p hp
  exact ⟨e, ⟨(hst p hp).mid, (hst p hp).buf, ⟨rfl, rfl, rfl, rfl, (hst p hp).timer⟩⟩, h1, h2, h3, h4,
    (hst p hp).quiet, hfd p hp⟩

/-! ### Members of a good round holding earlier rounds' messages: the PRE-PREPARE / PREPARE / COMMIT /
DECIDED deliveries, in any order (product form, as `Act` of `Proofs/QbftTimed.lean`) -/

/-- exact count, attachments of the counted type allowed if they are of another round. -/
theorem count_kind' {ord : List Nat} {buf : List (Nat × List Msg)} {L : List Msg} {K ρ : Nat}
    {value pr pv : Option Nat} (hb : BufIs buf L) (hnd : (srcsOf K ρ L).Nodup)
    (hatt : ∀ x ∈ L, ∀ c ∈ x.just, ¬ (c.typ = K ∧ c.round = ρ))
    (hval : ∀ x ∈ L, x.core.typ = K → x.core.round = ρ → Matches K ρ value pr pv x.core) :
    (filterMsgs (flatten ord buf) K ρ value pr pv).length = (srcsOf K ρ L).length := by
  apply filterMsgs_length_eq _ hnd
  · intro s hs
    obtain ⟨m, hm, h1, h2, h3⟩ := mem_srcsOf.mp hs
    refine ⟨m.core, ?_, hval m hm h1 h2, h3⟩
    rw [mem_flatten_bufIs hb]
    unfold coresOf
    exact List.mem_flatMap.mpr ⟨m, hm, List.mem_cons_self⟩
  · intro c hc hm
    rw [mem_flatten_bufIs hb] at hc
    unfold coresOf at hc
    obtain ⟨x, hx, hcx⟩ := List.mem_flatMap.mp hc
    rcases List.mem_cons.mp hcx with h | h
    · subst h
      exact mem_srcsOf.mpr ⟨x, hx, hm.1, hm.2.1, rfl⟩
    · exact absurd ⟨hm.1, hm.2.1⟩ (hatt x hx c h)

namespace TP

/-- the round under way: number, value proposed by its leader, leader, the members' ROUND-CHANGEs,
what each member held before the round (messages of earlier rounds). -/
structure Rd where
  ρ : Nat
  v : Nat
  l : Nat
  rc : Nat → Msg
  pre : Nat → List Msg

/-- what a justification `J` picked by `getJustifiedQrc` at the leader looks like: its ROUND-CHANGE
cores of the round are cores of members' ROUND-CHANGEs; either they are all null (J1) or `J` contains
PREPAREs of a quorum of distinct sources for `(ρ', w)`, the highest prepared round among its
ROUND-CHANGEs, one of which is prepared on `(ρ', w)` (J2). -/
def JOk (d : Def) (R : List Nat) (G : Rd) (J : List Core) : Prop :=
  (∀ c ∈ J, c.typ = tRoundChange → c.round = G.ρ → ∃ a ∈ R, RcOk d G.ρ (G.rc a) a ∧ c = (G.rc a).core) ∧
  ((∀ c ∈ J, c.typ = tRoundChange → c.round = G.ρ → c.pr = 0 ∧ c.pv = 0) ∨
   ∃ (ρ' w : Nat) (S : List Nat), (∀ c ∈ J, c.typ = tRoundChange → c.round = G.ρ → c.pr ≤ ρ') ∧
     (∃ c0 ∈ J, c0.typ = tRoundChange ∧ c0.round = G.ρ ∧ c0.pr = ρ' ∧ c0.pv = w) ∧
     S.Nodup ∧ d.quorum ≤ S.length ∧
     ∀ s ∈ S, ∃ x ∈ J, x.typ = tPrepare ∧ x.round = ρ' ∧ x.value = w ∧ x.src = s)

/-- a PRE-PREPARE of the leader for `G.v` with a justification of ROUND-CHANGEs of the round and
cores of earlier rounds (rule J1 or J2) that `isJustified` accepts. -/
def IsPPm (d : Def) (R : List Nat) (G : Rd) (m : Msg) : Prop :=
  m.core = ⟨tPrePrepare, G.l, G.ρ, G.v, 0, 0⟩ ∧ ((∀ c ∈ m.just, BG G.ρ c) ∧ JOk d R G m.just) ∧
  isJustified d m 0 = some true

def IsDecm (d : Def) (G : Rd) (m : Msg) : Prop :=
  m.core.typ = tDecided ∧ m.core.round = G.ρ ∧ m.core.value = G.v ∧ isJustified d m 0 = some true

/-- a message of an earlier round (any type but DECIDED, any attachments of earlier rounds). -/
def OldMsg (ρ : Nat) (m : Msg) : Prop :=
  (∀ c ∈ m.core :: m.just, c.round < ρ) ∧ m.core.typ ≠ tDecided

/-- everything a member may hold while round `G.ρ` is under way: messages of earlier rounds, the
ROUND-CHANGEs of the round with their certificates, and the messages of the round for `G.v`. -/
inductive Shape (d : Def) (R : List Nat) (G : Rd) : Msg → Prop where
  | old (m : Msg) : OldMsg G.ρ m → Shape d R G m
  | rc (a : Nat) : a ∈ R → RcOk d G.ρ (G.rc a) a → Shape d R G (G.rc a)
  | pp (m : Msg) : IsPPm d R G m → G.l ∈ R → Shape d R G m
  | prep (a : Nat) : a ∈ R → Shape d R G (prepMsg G.ρ G.v a)
  | commit (a : Nat) : a ∈ R → Shape d R G (commitMsg G.ρ G.v a)
  | dec (m : Msg) : IsDecm d G m → m.core.src ∈ R → Shape d R G m

/-- attachments are ROUND-CHANGE cores or cores of earlier rounds, unless the message is a DECIDED:
never a PREPARE / COMMIT of the round. -/
theorem Shape.att_ne {d : Def} {R : List Nat} {G : Rd} {m : Msg} (h : Shape d R G m)
    (hd : m.core.typ ≠ tDecided) (c : Core) (hc : c ∈ m.just) {K : Nat} (hK : K ≠ tRoundChange) :
    ¬ (c.typ = K ∧ c.round = G.ρ) := by
  have hbg : BG G.ρ c := by
    cases h with
    | old m hm => exact Or.inr (hm.1 c (List.mem_cons_of_mem _ hc))
    | rc a ha hok => exact (hok.cores c (List.mem_cons_of_mem _ hc)).1
    | pp m hm hl => exact hm.2.1.1 c hc
    | prep a ha => simp [prepMsg] at hc
    | commit a ha => simp [commitMsg] at hc
    | dec m hm hs => exact absurd hm.1 hd
  rintro ⟨h1, h2⟩
  rcases hbg with h | h
  · exact hK (h1 ▸ h)
  · omega

/-- the core of a PRE-PREPARE / PREPARE / COMMIT of the round is determined by type and sender. -/
theorem Shape.core_eq {d : Def} {R : List Nat} {G : Rd} {m : Msg} (h : Shape d R G m)
    (hr : m.core.round = G.ρ) (hd : m.core.typ ≠ tDecided) (hrc : m.core.typ ≠ tRoundChange) :
    m.core = ⟨m.core.typ, m.core.src, G.ρ, G.v, 0, 0⟩ := by
  cases h with
  | old m hm => have := hm.1 m.core List.mem_cons_self; omega
  | rc a ha hok => exact absurd hok.typ hrc
  | pp m hm hl => rw [hm.1]
  | prep a ha => rfl
  | commit a ha => rfl
  | dec m hm hs => exact absurd hm.1 hd

theorem Shape.pp_src {d : Def} {R : List Nat} {G : Rd} {m : Msg} (h : Shape d R G m)
    (ht : m.core.typ = tPrePrepare) (hr : m.core.round = G.ρ) : m.core.src = G.l := by
  cases h with
  | old m hm => have := hm.1 m.core List.mem_cons_self; omega
  | rc a ha hok => rw [hok.typ] at ht; exact absurd ht (by decide)
  | pp m hm hl => rw [hm.1]
  | prep a ha => simp [prepMsg, tPrepare, tPrePrepare] at ht
  | commit a ha => simp [commitMsg, tCommit, tPrePrepare] at ht
  | dec m hm hs => rw [hm.1] at ht; exact absurd ht (by decide)

/-- a running, undecided member `p` in round `G.ρ` to which exactly the messages `L` were delivered
(earlier rounds included): its bookkeeping (`dedup`) says which thresholds of the round were reached.
Nothing is said about its prepared state. -/
structure Act (d : Def) (G : Rd) (I : Nat → Nat) (p : Nat) (s : NodeState) (L : List Msg) : Prop where
  mid : Mid G.ρ p s
  buf : BufIs s.buffer L
  noDec : ∀ x ∈ L, x.core.typ ≠ tDecided
  jpp : (uJustifiedPrePrepare, G.ρ) ∈ s.dedup ↔ srcsOf tPrePrepare G.ρ L ≠ []
  qp : (uQuorumPrepares, G.ρ) ∈ s.dedup ↔ d.quorum ≤ (srcsOf tPrepare G.ρ L).length
  qc : (uQuorumCommits, G.ρ) ∉ s.dedup
  qcl : (srcsOf tCommit G.ρ L).length < d.quorum
  jd : (uJustifiedDecided, G.ρ) ∉ s.dedup
  qrc : (uQuorumRoundChanges, G.ρ) ∈ s.dedup ↔ (G.l = p ∧ d.quorum ≤ (srcsOf tRoundChange G.ρ L).length)
  cache : G.ρ ≠ 1 → s.ppjCache = none
  inp : s.inputValue = I p
  ton : s.timerOn = true

structure LocHyp (d : Def) (R : List Nat) (G : Rd) (L : List Msg) (m : Msg) : Prop where
  shape : ∀ x ∈ L ++ [m], Shape d R G x
  nodup : ∀ K, (K = tPrePrepare ∨ K = tPrepare ∨ K = tCommit ∨ K = tRoundChange) →
    (srcsOf K G.ρ (L ++ [m])).Nodup
  fifo : ((L ++ [m]).filter (fun x => x.core.src == m.core.src)).length ≤ d.fifo

/-- **PRE-PREPARE of the round** (delivered once): recorded, timer restarted, PREPARE broadcast. -/
theorem act_recv_pp {d : Def} {R : List Nat} {G : Rd} {I : Nat → Nat} {p : Nat} {s : NodeState} {L : List Msg} {m : Msg}
    (o : Oracle) (h : Act d G I p s L) (hh : LocHyp d R G L m) (hm : IsPPm d R G m) :
    Act d G I p (step d o s (.recv m .ok)).1 (L ++ [m]) ∧
    step d o s (.recv m .ok) =
      ({ s with buffer := bufferMsg d.fifo s.buffer m,
                dedup := (uJustifiedPrePrepare, G.ρ) :: s.dedup, timerOn := true },
       [.rule uJustifiedPrePrepare G.ρ, .stopTimer, .newTimer G.ρ, .bcast tPrepare G.ρ G.v 0 0 []]) ∧
    (uJustifiedPrePrepare, G.ρ) ∉ s.dedup := by
  have hmid := h.mid
  have hbuf : BufIs (bufferMsg d.fifo s.buffer m) (L ++ [m]) := bufIs_bufferMsg h.buf hh.fifo
  have ht : m.core.typ = tPrePrepare := by rw [hm.1]
  have hr : m.core.round = G.ρ := by rw [hm.1]
  have hvl : m.core.value = G.v := by rw [hm.1]
  have hsr : m.core.src = G.l := by rw [hm.1]
  have hnoDec : ∀ x ∈ L ++ [m], x.core.typ ≠ tDecided := by
    intro x hx
    rcases List.mem_append.mp hx with hx | hx
    · exact h.noDec x hx
    · simp only [List.mem_singleton] at hx; subst hx; rw [ht]; decide
  have hsn1 : srcsOf tPrePrepare G.ρ (L ++ [m]) = srcsOf tPrePrepare G.ρ L ++ [G.l] := by
    rw [srcsOf_snoc, if_pos ⟨ht, hr⟩, hsr]
  have hsn0 : srcsOf tRoundChange G.ρ (L ++ [m]) = srcsOf tRoundChange G.ρ L := by
    rw [srcsOf_snoc, if_neg (by rw [ht]; simp [tPrePrepare, tRoundChange])]; simp
  have hsn2 : srcsOf tPrepare G.ρ (L ++ [m]) = srcsOf tPrepare G.ρ L := by
    rw [srcsOf_snoc, if_neg (by rw [ht]; simp [tPrePrepare, tPrepare])]; simp
  have hsn3 : srcsOf tCommit G.ρ (L ++ [m]) = srcsOf tCommit G.ρ L := by
    rw [srcsOf_snoc, if_neg (by rw [ht]; simp [tPrePrepare, tCommit])]; simp
  -- delivered once: no PRE-PREPARE of the round before
  have hfirst : srcsOf tPrePrepare G.ρ L = [] := by
    have hnd := hh.nodup tPrePrepare (Or.inl rfl)
    rw [hsn1] at hnd
    cases hL : srcsOf tPrePrepare G.ρ L with
    | nil => rfl
    | cons b bs =>
      exfalso
      have hb : b ∈ srcsOf tPrePrepare G.ρ L := by rw [hL]; exact List.mem_cons_self
      obtain ⟨x, hx, h1, h2, h3⟩ := mem_srcsOf.mp hb
      have hbl : b = G.l := by
        have hce := (hh.shape x (List.mem_append_left _ hx)).core_eq h2 (h.noDec x hx) (by rw [h1]; decide)
        rw [← h3, hce, h1]
        have hsx := hh.shape x (List.mem_append_left _ hx)
        exact hsx.pp_src h1 h2
      rw [hL, hbl] at hnd
      simp at hnd
  have hdd : (uJustifiedPrePrepare, m.core.round) ∉ s.dedup := by
    rw [hr]; intro hc; exact (h.jpp.mp hc) hfirst
  have hj : isJustified d m s.compareFailureRound = some true := by rw [hmid.cfr]; exact hm.2.2
  have hst := step_prePrepare (d := d) (o := o) (m := m) hmid.dead hmid.started hmid.qc hj ht
    (by rw [hr, hmid.round]) hdd
  rw [hr, hvl] at hst
  have hst2 : step d o s (.recv m .ok) =
      ({ s with buffer := bufferMsg d.fifo s.buffer m,
                dedup := (uJustifiedPrePrepare, G.ρ) :: s.dedup, timerOn := true },
       [.rule uJustifiedPrePrepare G.ρ, .stopTimer, .newTimer G.ρ, .bcast tPrepare G.ρ G.v 0 0 []]) := by
    rw [hst]
    refine Prod.ext rfl ?_
    simp only [hmid.round]
  refine ⟨?_, hst2, by rw [← hr]; exact hdd⟩
  rw [hst2]
  refine ⟨mid_of_eq hmid rfl rfl rfl rfl rfl rfl, hbuf, hnoDec, ?_, ?_, ?_, by rw [hsn3]; exact h.qcl,
    ?_, ?_, h.cache, h.inp, (by first | exact h.ton | rfl)⟩
  · rw [hsn1]; simp
  · rw [hsn2]
    simp only [List.mem_cons, Prod.mk.injEq]
    constructor
    · rintro (⟨h1, _⟩ | h1)
      · simp [uQuorumPrepares, uJustifiedPrePrepare] at h1
      · exact h.qp.mp h1
    · intro h1; exact Or.inr (h.qp.mpr h1)
  · simp only [List.mem_cons, Prod.mk.injEq, not_or]
    exact ⟨by simp [uQuorumCommits, uJustifiedPrePrepare], h.qc⟩
  · simp only [List.mem_cons, Prod.mk.injEq, not_or]
    exact ⟨by simp [uJustifiedDecided, uJustifiedPrePrepare], h.jd⟩
  · rw [hsn0]
    simp only [List.mem_cons, Prod.mk.injEq]
    constructor
    · rintro (⟨h1, _⟩ | h1)
      · simp [uQuorumRoundChanges, uJustifiedPrePrepare] at h1
      · exact h.qrc.mp h1
    · intro h1; exact Or.inr (h.qrc.mpr h1)


/-- the member reaches the quorum of PREPAREs and broadcasts its COMMIT. -/
def Prepared (d : Def) (G : Rd) (s : NodeState) (m : Msg) (r : NodeState × List Out) : Prop :=
  (uQuorumPrepares, G.ρ) ∉ s.dedup ∧
    ∃ J, r = ({ s with buffer := bufferMsg d.fifo s.buffer m,
                       dedup := (uQuorumPrepares, G.ρ) :: s.dedup,
                       preparedRound := G.ρ, preparedValue := G.v, preparedJust := J },
              [.rule uQuorumPrepares G.ρ, .bcast tCommit G.ρ G.v 0 0 []])

/-- **PREPARE of the round.** -/
theorem act_recv_prepare {d : Def} {R : List Nat} {G : Rd} {I : Nat → Nat} {p : Nat} {s : NodeState} {L : List Msg} {a : Nat}
    (o : Oracle) (h : Act d G I p s L) (hh : LocHyp d R G L (prepMsg G.ρ G.v a)) :
    Act d G I p (step d o s (.recv (prepMsg G.ρ G.v a) .ok)).1 (L ++ [prepMsg G.ρ G.v a]) ∧
    (Buffered d s (prepMsg G.ρ G.v a) (step d o s (.recv (prepMsg G.ρ G.v a) .ok)) ∨
     Prepared d G s (prepMsg G.ρ G.v a) (step d o s (.recv (prepMsg G.ρ G.v a) .ok))) := by
  have hm := h.mid
  have hbuf : BufIs (bufferMsg d.fifo s.buffer (prepMsg G.ρ G.v a)) (L ++ [prepMsg G.ρ G.v a]) :=
    bufIs_bufferMsg h.buf hh.fifo
  have hnoDec : ∀ x ∈ L ++ [prepMsg G.ρ G.v a], x.core.typ ≠ tDecided := by
    intro x hx
    rcases List.mem_append.mp hx with hx | hx
    · exact h.noDec x hx
    · simp only [List.mem_singleton] at hx; subst hx; simp [prepMsg, tPrepare, tDecided]
  have hsn0 : srcsOf tRoundChange G.ρ (L ++ [prepMsg G.ρ G.v a]) = srcsOf tRoundChange G.ρ L := by
    rw [srcsOf_snoc]; simp [prepMsg, tRoundChange, tPrepare]
  have hsn1 : srcsOf tPrePrepare G.ρ (L ++ [prepMsg G.ρ G.v a]) = srcsOf tPrePrepare G.ρ L := by
    rw [srcsOf_snoc]; simp [prepMsg, tPrepare, tPrePrepare]
  have hsn2 : srcsOf tPrepare G.ρ (L ++ [prepMsg G.ρ G.v a]) = srcsOf tPrepare G.ρ L ++ [a] := by
    rw [srcsOf_snoc]; simp [prepMsg]
  have hsn3 : srcsOf tCommit G.ρ (L ++ [prepMsg G.ρ G.v a]) = srcsOf tCommit G.ρ L := by
    rw [srcsOf_snoc]; simp [prepMsg, tPrepare, tCommit]
  have hcount : (filterByRoundAndValue (flatten o.srcOrd (bufferMsg d.fifo s.buffer (prepMsg G.ρ G.v a)))
      tPrepare G.ρ G.v).length = (srcsOf tPrepare G.ρ L).length + 1 := by
    unfold filterByRoundAndValue
    rw [count_kind' hbuf (hh.nodup _ (by simp)), hsn2]
    · simp
    · intro x hx c hc
      exact (hh.shape x hx).att_ne (hnoDec x hx) c hc (by decide)
    · intro x hx h1 h2
      have := (hh.shape x hx).core_eq h2 (hnoDec x hx) (by rw [h1]; decide)
      rw [this, h1]
      exact ⟨rfl, rfl, by simp [tPrepare, tRoundChange], by simp, by simp⟩
  have hst := step_prepare (d := d) (o := o) (m := prepMsg G.ρ G.v a) hm.dead hm.started hm.qc rfl
    hm.round.symm
  have hcount' : (filterByRoundAndValue (flatten o.srcOrd (bufferMsg d.fifo s.buffer (prepMsg G.ρ G.v a)))
      tPrepare (prepMsg G.ρ G.v a).core.round (prepMsg G.ρ G.v a).core.value).length =
      (srcsOf tPrepare G.ρ L).length + 1 := hcount
  rw [hcount'] at hst
  by_cases hfire : d.quorum ≤ (srcsOf tPrepare G.ρ L).length + 1 ∧
      (uQuorumPrepares, (prepMsg G.ρ G.v a).core.round) ∉ s.dedup
  · rw [if_pos hfire] at hst
    have hdd : (uQuorumPrepares, G.ρ) ∉ s.dedup := hfire.2
    refine ⟨?_, Or.inr ⟨hdd, filterByRoundAndValue (flatten o.srcOrd
      (bufferMsg d.fifo s.buffer (prepMsg G.ρ G.v a))) tPrepare G.ρ G.v, ?_⟩⟩
    · rw [hst]
      refine ⟨mid_of_eq hm rfl rfl rfl rfl rfl rfl, hbuf, hnoDec, ?_, ?_, ?_, by rw [hsn3]; exact h.qcl,
        ?_, ?_, h.cache, h.inp, (by first | exact h.ton | rfl)⟩
      · rw [hsn1]
        simp only [prepMsg, List.mem_cons, Prod.mk.injEq]
        constructor
        · rintro (⟨h1, _⟩ | h1)
          · simp [uQuorumPrepares, uJustifiedPrePrepare] at h1
          · exact h.jpp.mp h1
        · intro h1; exact Or.inr (h.jpp.mpr h1)
      · rw [hsn2]
        simp only [prepMsg, List.mem_cons, true_or, true_iff, List.length_append, List.length_singleton]
        exact hfire.1
      · simp only [prepMsg, List.mem_cons, Prod.mk.injEq, not_or]
        exact ⟨by simp [uQuorumCommits, uQuorumPrepares], h.qc⟩
      · simp only [prepMsg, List.mem_cons, Prod.mk.injEq, not_or]
        exact ⟨by simp [uJustifiedDecided, uQuorumPrepares], h.jd⟩
      · rw [hsn0]
        simp only [prepMsg, List.mem_cons, Prod.mk.injEq]
        constructor
        · rintro (⟨h1, _⟩ | h1)
          · simp [uQuorumRoundChanges, uQuorumPrepares] at h1
          · exact h.qrc.mp h1
        · intro h1; exact Or.inr (h.qrc.mpr h1)
    · rw [hst]
      simp only [hm.round, prepMsg]
  · rw [if_neg hfire] at hst
    refine ⟨?_, Or.inl hst⟩
    rw [hst]
    refine ⟨mid_of_eq hm rfl rfl rfl rfl rfl rfl, hbuf, hnoDec, by rw [hsn1]; exact h.jpp, ?_, h.qc,
      by rw [hsn3]; exact h.qcl, h.jd, by rw [hsn0]; exact h.qrc, h.cache, h.inp, (by first | exact h.ton | rfl)⟩
    rw [hsn2]
    simp only [List.length_append, List.length_singleton]
    constructor
    · intro hd; have := h.qp.mp hd; omega
    · intro hq
      apply Classical.byContradiction
      intro hnd
      exact hfire ⟨hq, hnd⟩


structure Dcd (d : Def) (G : Rd) (p : Nat) (s : NodeState) : Prop where
  done : Done G.v s
  proc : s.proc = p
  round : s.round = G.ρ
  cok : d.quorum ≤ (filterMsgs s.qCommit tCommit G.ρ (some G.v) none none).length

/-- the member decides: on the quorum of COMMITs or on a justified DECIDED. -/
def Decides (d : Def) (G : Rd) (s : NodeState) (m : Msg) (r : NodeState × List Out) : Prop :=
  ∃ rule J, (rule = uQuorumCommits ∨ rule = uJustifiedDecided) ∧
    r = ({ s with buffer := bufferMsg d.fifo s.buffer m, dedup := (rule, G.ρ) :: s.dedup,
                  qCommit := J, qCommitValue := G.v, timerOn := false },
         [.rule rule G.ρ, .stopTimer, .decide G.v G.ρ J])

/-- **COMMIT of the round.** -/
theorem act_recv_commit {d : Def} {R : List Nat} {G : Rd} {I : Nat → Nat} {p : Nat} {s : NodeState} {L : List Msg} {a : Nat}
    (o : Oracle) (h : Act d G I p s L) (hh : LocHyp d R G L (commitMsg G.ρ G.v a)) :
    (Buffered d s (commitMsg G.ρ G.v a) (step d o s (.recv (commitMsg G.ρ G.v a) .ok)) ∧
      Act d G I p (step d o s (.recv (commitMsg G.ρ G.v a) .ok)).1 (L ++ [commitMsg G.ρ G.v a])) ∨
    (Decides d G s (commitMsg G.ρ G.v a) (step d o s (.recv (commitMsg G.ρ G.v a) .ok)) ∧
      Dcd d G p (step d o s (.recv (commitMsg G.ρ G.v a) .ok)).1 ∧
      d.quorum ≤ (srcsOf tCommit G.ρ (L ++ [commitMsg G.ρ G.v a])).length) := by
  have hm := h.mid
  have hbuf : BufIs (bufferMsg d.fifo s.buffer (commitMsg G.ρ G.v a)) (L ++ [commitMsg G.ρ G.v a]) :=
    bufIs_bufferMsg h.buf hh.fifo
  have hnoDec : ∀ x ∈ L ++ [commitMsg G.ρ G.v a], x.core.typ ≠ tDecided := by
    intro x hx
    rcases List.mem_append.mp hx with hx | hx
    · exact h.noDec x hx
    · simp only [List.mem_singleton] at hx; subst hx; simp [commitMsg, tCommit, tDecided]
  have hsn0 : srcsOf tRoundChange G.ρ (L ++ [commitMsg G.ρ G.v a]) = srcsOf tRoundChange G.ρ L := by
    rw [srcsOf_snoc]; simp [commitMsg, tRoundChange, tCommit]
  have hsn1 : srcsOf tPrePrepare G.ρ (L ++ [commitMsg G.ρ G.v a]) = srcsOf tPrePrepare G.ρ L := by
    rw [srcsOf_snoc]; simp [commitMsg, tCommit, tPrePrepare]
  have hsn2 : srcsOf tPrepare G.ρ (L ++ [commitMsg G.ρ G.v a]) = srcsOf tPrepare G.ρ L := by
    rw [srcsOf_snoc]; simp [commitMsg, tPrepare, tCommit]
  have hsn3 : srcsOf tCommit G.ρ (L ++ [commitMsg G.ρ G.v a]) = srcsOf tCommit G.ρ L ++ [a] := by
    rw [srcsOf_snoc]; simp [commitMsg]
  have hcount : (filterByRoundAndValue (flatten o.srcOrd (bufferMsg d.fifo s.buffer (commitMsg G.ρ G.v a)))
      tCommit G.ρ G.v).length = (srcsOf tCommit G.ρ L).length + 1 := by
    unfold filterByRoundAndValue
    rw [count_kind' hbuf (hh.nodup _ (by simp)), hsn3]
    · simp
    · intro x hx c hc
      exact (hh.shape x hx).att_ne (hnoDec x hx) c hc (by decide)
    · intro x hx h1 h2
      have := (hh.shape x hx).core_eq h2 (hnoDec x hx) (by rw [h1]; decide)
      rw [this, h1]
      exact ⟨rfl, rfl, by simp [tCommit, tRoundChange], by simp, by simp⟩
  have hst := step_commit (d := d) (o := o) (m := commitMsg G.ρ G.v a) hm.dead hm.started hm.qc rfl
    hm.round.symm
  have hcount' : (filterByRoundAndValue (flatten o.srcOrd (bufferMsg d.fifo s.buffer (commitMsg G.ρ G.v a)))
      tCommit (commitMsg G.ρ G.v a).core.round (commitMsg G.ρ G.v a).core.value).length =
      (srcsOf tCommit G.ρ L).length + 1 := hcount
  rw [hcount'] at hst
  by_cases hfire : d.quorum ≤ (srcsOf tCommit G.ρ L).length + 1
  · rw [if_pos ⟨hfire, h.qc⟩] at hst
    right
    refine ⟨⟨uQuorumCommits, filterByRoundAndValue (flatten o.srcOrd
      (bufferMsg d.fifo s.buffer (commitMsg G.ρ G.v a))) tCommit G.ρ G.v, Or.inl rfl, ?_⟩, ?_, ?_⟩
    · rw [hst]
      simp only [hm.round, commitMsg]
    · rw [hst]
      refine ⟨⟨hm.dead, hm.started, ?_, rfl⟩, hm.proc, hm.round, ?_⟩
      · intro hnil
        have h0 : (filterByRoundAndValue (flatten o.srcOrd
          (bufferMsg d.fifo s.buffer (commitMsg G.ρ G.v a))) tCommit G.ρ G.v).length = 0 := by
          simp only at hnil
          have : (filterByRoundAndValue (flatten o.srcOrd
            (bufferMsg d.fifo s.buffer (commitMsg G.ρ G.v a))) tCommit (commitMsg G.ρ G.v a).core.round
            (commitMsg G.ρ G.v a).core.value) = [] := hnil
          rw [show (commitMsg G.ρ G.v a).core.round = G.ρ from rfl,
            show (commitMsg G.ρ G.v a).core.value = G.v from rfl] at this
          rw [this]; rfl
        omega
      · show d.quorum ≤ (filterMsgs (filterByRoundAndValue (flatten o.srcOrd
          (bufferMsg d.fifo s.buffer (commitMsg G.ρ G.v a))) tCommit G.ρ G.v) tCommit G.ρ (some G.v) none none).length
        unfold filterByRoundAndValue
        rw [filterMsgs_idem]
        have := hcount
        unfold filterByRoundAndValue at this
        omega
    · rw [hsn3]; simp; exact hfire
  · rw [if_neg (fun hc => hfire hc.1)] at hst
    left
    refine ⟨hst, ?_⟩
    rw [hst]
    refine ⟨mid_of_eq hm rfl rfl rfl rfl rfl rfl, hbuf, hnoDec, by rw [hsn1]; exact h.jpp,
      by rw [hsn2]; exact h.qp, h.qc, ?_, h.jd, by rw [hsn0]; exact h.qrc, h.cache, h.inp, (by first | exact h.ton | rfl)⟩
    rw [hsn3]; simp; omega

/-- **DECIDED for the round** reaching an undecided member: it decides. -/

theorem act_recv_decided {d : Def} {G : Rd} {I : Nat → Nat} {p : Nat} {s : NodeState} {L : List Msg} {m : Msg}
    (o : Oracle) (hq1 : 1 ≤ d.quorum) (h : Act d G I p s L) (hm : IsDecm d G m) :
    Decides d G s m (step d o s (.recv m .ok)) ∧ Dcd d G p (step d o s (.recv m .ok)).1 := by
  have hmid := h.mid
  obtain ⟨ht, hr, hvl, hj⟩ := hm
  have hj' : isJustified d m s.compareFailureRound = some true := by rw [hmid.cfr]; exact hj
  have hlen := isJustified_decided ht hj
  have hcl : classify d o s.round s.proc (bufferMsg d.fifo s.buffer m) m = some (uJustifiedDecided, m.just) := by
    unfold classify
    simp only [ht, if_true]
  have hdd : (uJustifiedDecided, m.core.round) ∉ s.dedup := by rw [hr]; exact h.jd
  have hrj := onRecvJustified_of_classify (cmp := .ok) hcl (by decide) hdd
  rw [onRule_jd] at hrj
  have hd' : onDecide { s with buffer := bufferMsg d.fifo s.buffer m, dedup := (uJustifiedDecided, m.core.round) :: s.dedup } m uJustifiedDecided m.just =
      ({ s with buffer := bufferMsg d.fifo s.buffer m, dedup := (uJustifiedDecided, m.core.round) :: s.dedup, qCommit := m.just, qCommitValue := m.core.value, timerOn := false },
       [.stopTimer, .decide m.core.value m.core.round m.just]) := by
    unfold onDecide changeRound
    simp [hr, hmid.round]
  rw [hd'] at hrj
  have hst := step_recv_undecided (c := .ok) hmid.dead hmid.started hmid.qc hj' (by rw [hrj]; simp [Out.isBug])
  rw [hrj] at hst
  refine ⟨⟨uJustifiedDecided, m.just, Or.inr rfl, ?_⟩, ?_⟩
  · rw [hst]
    simp only [hmid.round, hr, hvl]
  · rw [hst]
    refine ⟨⟨hmid.dead, hmid.started, ?_, hvl⟩, hmid.proc, hmid.round, ?_⟩
    · intro hnil
      simp only at hnil
      rw [hnil] at hlen
      simp [filterMsgs, filterMsgs.go] at hlen
      omega
    · simp only
      rw [← hr, ← hvl]; exact hlen


/-- **Any message reaching a decided member**: the decision stands, the bookkeeping of the round is
untouched, and the only possible output is a DECIDED carrying the quorum. -/
theorem dcd_recv {d : Def} {G : Rd} {p : Nat} {s : NodeState} (o : Oracle) (m : Msg) (h : Dcd d G p s) :
    Dcd d G p (step d o s (.recv m .ok)).1 ∧
    (step d o s (.recv m .ok)).1.dedup = s.dedup ∧
    (step d o s (.recv m .ok)).1.inputValue = s.inputValue ∧
    ((step d o s (.recv m .ok)).2 = [] ∨
     (m.core.typ = tRoundChange ∧
      (step d o s (.recv m .ok)).2 = [.bcast tDecided G.ρ G.v 0 0 s.qCommit])) := by
  have hne : (!s.qCommit.isEmpty) = true := by
    cases hqq : s.qCommit with
    | nil => exact absurd hqq h.done.qc
    | cons a as => rfl
  have hcore : stepCore d o s (.recv m .ok) = onRecvDecided s m := by
    unfold stepCore
    simp only [hne, if_true]
  have hmin := minor_onRecvDecided s m
  have hdd : (onRecvDecided s m).1.dedup = s.dedup := by
    unfold onRecvDecided
    split
    · simp only
      unfold allowDecidedResend
      simp only
      split <;> split <;> rfl
    · rfl
  have hinp : (onRecvDecided s m).1.inputValue = s.inputValue := by
    unfold onRecvDecided
    split
    · simp only
      unfold allowDecidedResend
      simp only
      split <;> split <;> rfl
    · rfl
  have hdead : (onRecvDecided s m).1.dead = s.dead := by
    unfold onRecvDecided
    split
    · simp only
      unfold allowDecidedResend
      simp only
      split <;> split <;> rfl
    · rfl
  have hround := (hmin.decided h.done.qc).1
  have houts : (onRecvDecided s m).2 = [] ∨
      (m.core.typ = tRoundChange ∧ (onRecvDecided s m).2 = [.bcast tDecided G.ρ G.v 0 0 s.qCommit]) := by
    unfold onRecvDecided
    split
    · rename_i hc
      simp only
      have hf := allowDecidedResend_fields s m.core.src m.core.round
      split
      · right
        refine ⟨hc.2, ?_⟩
        simp only [bcastMsg, hf.1, hf.2.1, hf.2.2, h.round, h.done.qcv]
      · left; rfl
    · left; rfl
  have hbug : (onRecvDecided s m).2.any Out.isBug = false := by
    rcases houts with ho | ⟨_, ho⟩ <;> rw [ho] <;> rfl
  have hstep : step d o s (.recv m .ok) = onRecvDecided s m := by
    unfold step
    rw [started_eta s h.done.started, hcore]
    rcases hx : onRecvDecided s m with ⟨s', outs⟩
    rw [hx] at hbug
    simp only at hbug
    simp [h.done.dead, h.done.started, Event.isStart, hbug]
  rw [hstep]
  exact ⟨⟨⟨by rw [hdead]; exact h.done.dead, by rw [hmin.started]; exact h.done.started,
      by rw [hmin.qc]; exact h.done.qc, by rw [hmin.qcv]; exact h.done.qcv⟩,
      by rw [hmin.proc]; exact h.proc, by rw [hround]; exact h.round, by rw [hmin.qc]; exact h.cok⟩,
    hdd, hinp, houts⟩

/-! #### Any order of arrival -/

/-- deliveries to one member, each with its own oracle; result: final state and all outputs. -/
def runRecv (d : Def) (s : NodeState) : List (Oracle × Msg) → NodeState × List Out
  | [] => (s, [])
  | e :: es => ((runRecv d (step d e.1 s (.recv e.2 .ok)).1 es).1,
      (step d e.1 s (.recv e.2 .ok)).2 ++ (runRecv d (step d e.1 s (.recv e.2 .ok)).1 es).2)

theorem decidedOnce_quiet_append {v r : Nat} {a b : List Out} (ha : Quiet a)
    (hb : decidedOnce v r b = true) : decidedOnce v r (a ++ b) = true := by
  unfold decidedOnce at *
  rw [List.filter_append, ha.2, List.nil_append]
  exact hb

/-- a decided member stays decided and quiet, whatever non-ROUND-CHANGE messages follow. -/
theorem dcd_run {d : Def} {G : Rd} {p : Nat} :
    ∀ (es : List (Oracle × Msg)) (s : NodeState), Dcd d G p s →
      (∀ e ∈ es, e.2.core.typ ≠ tRoundChange) →
      Dcd d G p (runRecv d s es).1 ∧ Quiet (runRecv d s es).2 := by
  intro es
  induction es with
  | nil => intro s h _; exact ⟨h, Quiet.nil⟩
  | cons e es ih =>
    intro s h hne
    obtain ⟨h1, _, _, h4⟩ := dcd_recv e.1 e.2 h
    have hq : Quiet (step d e.1 s (.recv e.2 .ok)).2 := by
      rcases h4 with h4 | ⟨h4, _⟩
      · rw [h4]; exact Quiet.nil
      · exact absurd h4 (hne e List.mem_cons_self)
    obtain ⟨i1, i2⟩ := ih _ h1 (fun e' he' => hne e' (List.mem_cons_of_mem _ he'))
    exact ⟨i1, Quiet.append hq i2⟩

/-- **The PRE-PREPARE, the PREPAREs, the COMMITs and DECIDEDs of the round reaching a member that
holds earlier rounds' messages, in ANY order and with any oracles** (phases overlapping: PREPAREs
before the PRE-PREPARE, COMMITs before the last PREPARE, …): the member stays in the product form
`Act` — quietly — or it has decided `G.v` in round `G.ρ` exactly once without a fault. What it holds
from earlier rounds (`OldMsg`: any types, any attachments) and the certificates attached to the
ROUND-CHANGEs and to the PRE-PREPARE are never read by the rules of the round. -/
theorem tail_any_order {d : Def} {R : List Nat} {G : Rd} {I : Nat → Nat} {p : Nat} (hq1 : 1 ≤ d.quorum) :
    ∀ (es : List (Oracle × Msg)) (s : NodeState) (L : List Msg), Act d G I p s L →
      (∀ x ∈ L ++ es.map (·.2), Shape d R G x) →
      (∀ K, (K = tPrePrepare ∨ K = tPrepare ∨ K = tCommit ∨ K = tRoundChange) →
        (srcsOf K G.ρ (L ++ es.map (·.2))).Nodup) →
      (∀ a, ((L ++ es.map (·.2)).filter (fun x => x.core.src == a)).length ≤ d.fifo) →
      (∀ e ∈ es, e.2.core.round = G.ρ ∧ e.2.core.typ ≠ tRoundChange) →
      (Act d G I p (runRecv d s es).1 (L ++ es.map (·.2)) ∧ Quiet (runRecv d s es).2) ∨
      (Dcd d G p (runRecv d s es).1 ∧ decidedOnce G.v G.ρ (runRecv d s es).2 = true ∧
        noFault (runRecv d s es).2 = true) := by
  intro es
  induction es with
  | nil =>
    intro s L h _ _ _ _
    left
    simpa [runRecv] using And.intro h Quiet.nil
  | cons e es ih =>
    intro s L h hsh hnd hfifo hrd
    have hassoc : L ++ (e :: es).map (·.2) = (L ++ [e.2]) ++ es.map (·.2) := by simp
    rw [hassoc] at hsh hnd hfifo ⊢
    have hloc : LocHyp d R G L e.2 := by
      refine ⟨fun x hx => hsh x (List.mem_append_left _ hx), ?_, ?_⟩
      · intro K hK
        have := hnd K hK
        rw [srcsOf_append] at this
        exact (List.nodup_append.mp this).1
      · have := hfifo e.2.core.src
        rw [List.filter_append, List.length_append] at this
        omega
    have hrest : ∀ e' ∈ es, e'.2.core.round = G.ρ ∧ e'.2.core.typ ≠ tRoundChange :=
      fun e' he' => hrd e' (List.mem_cons_of_mem _ he')
    obtain ⟨hr, hnrc⟩ := hrd e List.mem_cons_self
    -- what the first delivery does
    have hfirst : (Act d G I p (step d e.1 s (.recv e.2 .ok)).1 (L ++ [e.2]) ∧
          Quiet (step d e.1 s (.recv e.2 .ok)).2) ∨
        (Dcd d G p (step d e.1 s (.recv e.2 .ok)).1 ∧
          ∃ rule J, (step d e.1 s (.recv e.2 .ok)).2 = [.rule rule G.ρ, .stopTimer, .decide G.v G.ρ J]) := by
      have hshape := hsh e.2 (List.mem_append_left _ (List.mem_append_right _ List.mem_cons_self))
      generalize hm : e.2 = m at *
      cases hshape with
      | old m hm' => have := hm'.1 m.core List.mem_cons_self; omega
      | rc a ha hok => exact absurd hok.typ hnrc
      | pp m hm' hl =>
        obtain ⟨a1, a2, _⟩ := act_recv_pp e.1 h hloc hm'
        left; refine ⟨a1, ?_⟩; rw [a2]; exact ⟨rfl, rfl⟩
      | prep a ha =>
        obtain ⟨a1, a2⟩ := act_recv_prepare e.1 h hloc
        left; refine ⟨a1, ?_⟩
        rcases a2 with a2 | ⟨_, J, a2⟩
        · rw [a2]; exact Quiet.nil
        · rw [a2]; exact ⟨rfl, rfl⟩
      | commit a ha =>
        rcases act_recv_commit e.1 h hloc with ⟨a1, a2⟩ | ⟨⟨rule, J, _, a1⟩, a2, _⟩
        · left; refine ⟨a2, ?_⟩; rw [a1]; exact Quiet.nil
        · right; exact ⟨a2, rule, J, by rw [a1]⟩
      | dec m hm' hs =>
        obtain ⟨⟨rule, J, _, a1⟩, a2⟩ := act_recv_decided e.1 hq1 h hm'
        right; exact ⟨a2, rule, J, by rw [a1]⟩
    rcases hfirst with ⟨a1, a2⟩ | ⟨a1, rule, J, a2⟩
    · rcases ih _ _ a1 hsh hnd hfifo hrest with ⟨b1, b2⟩ | ⟨b1, b2, b3⟩
      · left; exact ⟨b1, Quiet.append a2 b2⟩
      · right
        exact ⟨b1, decidedOnce_quiet_append a2 b2, noFault_append a2.1 b3⟩
    · right
      obtain ⟨b1, b2⟩ := dcd_run es _ a1 (fun e' he' => (hrest e' he').2)
      have := decidedOnce_of_quiet (v := G.v) (r := G.ρ) Quiet.nil rule J
      simp only [List.nil_append] at this
      refine ⟨b1, ?_, ?_⟩
      · show decidedOnce G.v G.ρ (_ ++ _) = true
        rw [a2]; exact decidedOnce_append_quiet this.1 b2
      · show noFault (_ ++ _) = true
        rw [a2]; exact noFault_append this.2 b2.1

/-- … and it HAS decided as soon as COMMITs of a quorum of distinct members, or a DECIDED, are among
the deliveries. -/
theorem tail_decides {d : Def} {R : List Nat} {G : Rd} {I : Nat → Nat} {p : Nat} (hq1 : 1 ≤ d.quorum)
    (es : List (Oracle × Msg)) (s : NodeState) (L : List Msg) (h : Act d G I p s L)
    (hsh : ∀ x ∈ L ++ es.map (·.2), Shape d R G x)
    (hnd : ∀ K, (K = tPrePrepare ∨ K = tPrepare ∨ K = tCommit ∨ K = tRoundChange) →
      (srcsOf K G.ρ (L ++ es.map (·.2))).Nodup)
    (hfifo : ∀ a, ((L ++ es.map (·.2)).filter (fun x => x.core.src == a)).length ≤ d.fifo)
    (hrd : ∀ e ∈ es, e.2.core.round = G.ρ ∧ e.2.core.typ ≠ tRoundChange)
    (hfin : d.quorum ≤ (srcsOf tCommit G.ρ (L ++ es.map (·.2))).length ∨
      ∃ e ∈ es, e.2.core.typ = tDecided) :
    Dcd d G p (runRecv d s es).1 ∧ decidedOnce G.v G.ρ (runRecv d s es).2 = true ∧
      noFault (runRecv d s es).2 = true := by
  rcases tail_any_order hq1 es s L h hsh hnd hfifo hrd with ⟨a1, _⟩ | h2
  · exfalso
    rcases hfin with hf | ⟨e, he, ht⟩
    · have := a1.qcl; omega
    · exact a1.noDec e.2 (List.mem_append_right _ (List.mem_map.mpr ⟨e, he, rfl⟩)) ht
  · exact h2

end TP

/-! ### The cluster invariant after the proposal (generalisation of `RInv` of `Proofs/QbftTimed.lean`:
members hold earlier rounds' messages `G.pre p`, ROUND-CHANGEs carry certificates, the PRE-PREPARE a
J1/J2 justification; the value `G.v` is the one the leader proposed) -/

open RoundTimer (lookup)
namespace TP

/-! ### Local view of an undecided member in the round -/

/-- `p` has broadcast its message of type `K` for the round — read off its state. (Round 1 is entered
by `start`: no ROUND-CHANGE is sent for it, and its leader proposes at once if it has an input.) -/
def sentB (G : Rd) (K : Nat) (s : NodeState) : Bool :=
  s.round == G.ρ &&
    (if K = tRoundChange then G.ρ != 1
     else if K = tPrePrepare then s.proc == G.l &&
       (if G.ρ = 1 then s.inputValue != 0 else s.dedup.contains (uQuorumRoundChanges, G.ρ))
     else if K = tPrepare then s.dedup.contains (uJustifiedPrePrepare, G.ρ)
     else if K = tCommit then s.dedup.contains (uQuorumPrepares, G.ρ)
     else false)


theorem Shape.src_mem {d : Def} {R : List Nat} {G : Rd} {m : Msg} (h : Shape d R G m)
    (hr : m.core.round = G.ρ) : m.core.src ∈ R := by
  cases h with
  | old m hm => have := hm.1 m.core List.mem_cons_self; omega
  | rc a ha hok => rw [hok.src]; exact ha
  | pp m hm hl => rw [hm.1]; exact hl
  | prep a ha => exact ha
  | commit a ha => exact ha
  | dec m hm hs => exact hs


theorem Shape.typ_cases {d : Def} {R : List Nat} {G : Rd} {m : Msg} (h : Shape d R G m) :
    m.core.round < G.ρ ∨
    (m.core.round = G.ρ ∧ (m.core.typ = tRoundChange ∨ m.core.typ = tPrePrepare ∨ m.core.typ = tPrepare ∨
      m.core.typ = tCommit ∨ m.core.typ = tDecided)) := by
  cases h with
  | old m hm => left; exact hm.1 m.core List.mem_cons_self
  | rc a ha hok => right; exact ⟨hok.round, Or.inl hok.typ⟩
  | pp m hm hl => right; rw [hm.1]; exact ⟨rfl, Or.inr (Or.inl rfl)⟩
  | prep a ha => right; exact ⟨rfl, Or.inr (Or.inr (Or.inl rfl))⟩
  | commit a ha => right; exact ⟨rfl, Or.inr (Or.inr (Or.inr (Or.inl rfl)))⟩
  | dec m hm hs => right; exact ⟨hm.2.1, Or.inr (Or.inr (Or.inr (Or.inr hm.1)))⟩


/-! ### A member about to enter the round -/

/-- a running member in round `G.ρ - 1` holding messages of earlier rounds only, with its round timer
running; `G.rc p` is the ROUND-CHANGE it will announce (its prepared state and certificate). -/
structure Pend (G : Rd) (I : Nat → Nat) (p : Nat) (s : NodeState) (L : List Msg) : Prop where
  rho : 2 ≤ G.ρ
  mid : Mid (G.ρ - 1) p s
  ton : s.timerOn = true
  buf : BufIs s.buffer L
  old : ∀ x ∈ L, OldMsg G.ρ x
  rc : G.rc p = rcOfState G.ρ p s
  inp : s.inputValue = I p

theorem srcsOf_old {G : Rd} {L : List Msg} (h : ∀ x ∈ L, OldMsg G.ρ x) (K : Nat) :
    srcsOf K G.ρ L = [] := by
  unfold srcsOf
  rw [List.map_eq_nil_iff, List.filter_eq_nil_iff]
  intro x hx
  have := (h x hx).1 x.core List.mem_cons_self
  simp only [Bool.and_eq_true, beq_iff_eq, not_and]
  intro _; omega

/-- the round timer of a pending member fires: it enters the round and announces it. -/
theorem pend_enter {d : Def} {G : Rd} {I : Nat → Nat} {p : Nat} {s : NodeState} {L : List Msg} (o : Oracle)
    (hq1 : 1 ≤ d.quorum) (h : Pend G I p s L) :
    step d o s .timeout =
      ({ s with round := G.ρ, dedup := [], ppjCache := none, timerOn := true },
       [.roundChange (G.ρ - 1) G.ρ uRoundTimeout, .stopTimer, .newTimer G.ρ,
        .bcast tRoundChange G.ρ 0 s.preparedRound s.preparedValue s.preparedJust]) ∧
    Act d G I p (step d o s .timeout).1 L := by
  have hρ := h.rho
  have hst := step_timeout (d := d) (o := o) h.mid.dead h.mid.started h.ton
  have hr : s.round + 1 = G.ρ := by rw [h.mid.round]; omega
  have hst2 : step d o s .timeout =
      ({ s with round := G.ρ, dedup := [], ppjCache := none, timerOn := true },
       [.roundChange (G.ρ - 1) G.ρ uRoundTimeout, .stopTimer, .newTimer G.ρ,
        .bcast tRoundChange G.ρ 0 s.preparedRound s.preparedValue s.preparedJust]) := by
    rw [hst, hr, h.mid.round]
  refine ⟨hst2, ?_⟩
  rw [hst2]
  refine ⟨⟨h.mid.dead, h.mid.started, rfl, h.mid.qc, h.mid.cfr, h.mid.proc⟩, h.buf, ?_, ?_, ?_, by simp, ?_,
    by simp, ?_, fun _ => rfl, h.inp, rfl⟩
  · intro x hx; exact (h.old x hx).2
  · rw [srcsOf_old h.old]; simp
  · rw [srcsOf_old h.old]; simp; omega
  · rw [srcsOf_old h.old]; simp; omega
  · rw [srcsOf_old h.old]; simp; omega

/-! ### What a step contributes to the cluster's bookkeeping -/

/-- number of messages of the round `p` has broadcast (DECIDEDs not counted). -/
def nsent (G : Rd) (s : NodeState) : Nat :=
  (if sentB G tRoundChange s then 1 else 0) + (if sentB G tPrePrepare s then 1 else 0) +
  (if sentB G tPrepare s then 1 else 0) + (if sentB G tCommit s then 1 else 0)

/-- the four message types a member sends at most once per round. -/
def Once (K : Nat) : Prop := K = tPrePrepare ∨ K = tPrepare ∨ K = tCommit ∨ K = tRoundChange

/-- Effect of a step of member `p` (state `s` → `s'`, outputs `outs`): each of the four once-only
messages is sent exactly when the corresponding flag flips; every message sent has the shape of
the round and type `nxt`. -/
structure Fx (d : Def) (R : List Nat) (G : Rd) (p : Nat) (s s' : NodeState) (outs : List Out)
    (nxt : Nat) : Prop where
  eff : ∀ K, Once K → (if sentB G K s' then 1 else 0) =
    (if sentB G K s then 1 else 0) + (twires p outs).countP (isKind K G.ρ p)
  shp : ∀ m' ∈ twires p outs, Shape d R G m' ∧ m'.core.src = p ∧ m'.core.round = G.ρ ∧ m'.core.typ = nxt

theorem fx_buffered {d : Def} {R : List Nat} {G : Rd} {p : Nat} {s : NodeState} {m : Msg}
    {r : NodeState × List Out} (h : Buffered d s m r) (nxt : Nat) : Fx d R G p s r.1 r.2 nxt := by
  rw [h]
  exact ⟨fun K _ => by simp [sentB, twires], fun m' hm' => by simp [twires] at hm'⟩

theorem fx_pp {d : Def} {R : List Nat} {G : Rd} {p : Nat} {s : NodeState} {m : Msg}
    (hm : Mid G.ρ p s) (hp : p ∈ R) (hdd : (uJustifiedPrePrepare, G.ρ) ∉ s.dedup) :
    Fx d R G p s { s with buffer := bufferMsg d.fifo s.buffer m,
                          dedup := (uJustifiedPrePrepare, G.ρ) :: s.dedup, timerOn := true }
      [.rule uJustifiedPrePrepare G.ρ, .stopTimer, .newTimer G.ρ, .bcast tPrepare G.ρ G.v 0 0 []]
      tPrepare := by
  constructor
  · intro K hK
    have hw : twires p [Out.rule uJustifiedPrePrepare G.ρ, Out.stopTimer, Out.newTimer G.ρ,
        Out.bcast tPrepare G.ρ G.v 0 0 []] = [prepMsg G.ρ G.v p] := rfl
    simp only [hw]
    simp only [uJustifiedPrePrepare] at hdd
    rcases hK with rfl | rfl | rfl | rfl <;>
      simp [sentB, isKind, prepMsg, hm.round, hm.proc, hdd, tPrePrepare, tPrepare, tCommit,
        tRoundChange, uQuorumRoundChanges, uJustifiedPrePrepare, uQuorumPrepares]
  · intro m' hm'
    simp only [twires, twire, List.filterMap_cons, List.filterMap_nil, List.mem_singleton] at hm'
    subst hm'
    exact ⟨Shape.prep p hp, rfl, rfl, rfl⟩

theorem fx_prepared {d : Def} {R : List Nat} {G : Rd} {p : Nat} {s : NodeState} {m : Msg}
    {r : NodeState × List Out} (hm : Mid G.ρ p s) (hp : p ∈ R) (h : Prepared d G s m r) :
    Fx d R G p s r.1 r.2 tCommit := by
  obtain ⟨hdd, J, hr⟩ := h
  rw [hr]
  constructor
  · intro K hK
    have hw : twires p [Out.rule uQuorumPrepares G.ρ, Out.bcast tCommit G.ρ G.v 0 0 []] =
        [commitMsg G.ρ G.v p] := rfl
    simp only [hw]
    simp only [uQuorumPrepares] at hdd
    rcases hK with rfl | rfl | rfl | rfl <;>
      simp [sentB, isKind, commitMsg, hm.round, hm.proc, hdd, tPrePrepare, tPrepare, tCommit,
        tRoundChange, uQuorumRoundChanges, uJustifiedPrePrepare, uQuorumPrepares]
  · intro m' hm'
    simp only [twires, twire, List.filterMap_cons, List.filterMap_nil, List.mem_singleton] at hm'
    subst hm'
    exact ⟨Shape.commit p hp, rfl, rfl, rfl⟩

theorem fx_decides {d : Def} {R : List Nat} {G : Rd} {p : Nat} {s : NodeState} {m : Msg}
    {r : NodeState × List Out} (h : Decides d G s m r) (nxt : Nat) : Fx d R G p s r.1 r.2 nxt := by
  obtain ⟨rule, J, hrule, hr⟩ := h
  rw [hr]
  constructor
  · intro K hK
    have hw : twires p [Out.rule rule G.ρ, Out.stopTimer, Out.decide G.v G.ρ J] = [] := rfl
    simp only [hw]
    rcases hrule with rfl | rfl <;> rcases hK with rfl | rfl | rfl | rfl <;>
      simp [sentB, tPrePrepare, tPrepare, tCommit,
        tRoundChange, uQuorumRoundChanges, uJustifiedPrePrepare, uQuorumPrepares, uQuorumCommits,
        uJustifiedDecided]
  · intro m' hm'
    have hw : twires p [Out.rule rule G.ρ, Out.stopTimer, Out.decide G.v G.ρ J] = [] := rfl
    rw [hw] at hm'
    cases hm'

theorem fx_enter {d : Def} {R : List Nat} {G : Rd} {p : Nat} {s : NodeState} (hρ : 2 ≤ G.ρ)
    (hm : Mid (G.ρ - 1) p s) (hp : p ∈ R) (hok : RcOk d G.ρ (G.rc p) p) (hrc : G.rc p = rcOfState G.ρ p s) :
    Fx d R G p s { s with round := G.ρ, dedup := [], ppjCache := none, timerOn := true }
      [.roundChange (G.ρ - 1) G.ρ uRoundTimeout, .stopTimer, .newTimer G.ρ,
        .bcast tRoundChange G.ρ 0 s.preparedRound s.preparedValue s.preparedJust]
      tRoundChange := by
  have hne1 : ¬ G.ρ = 1 := by omega
  have hne : (s.round == G.ρ) = false := by
    rw [hm.round]; simp; omega
  have hw : twires p [Out.roundChange (G.ρ - 1) G.ρ uRoundTimeout, Out.stopTimer, Out.newTimer G.ρ,
      Out.bcast tRoundChange G.ρ 0 s.preparedRound s.preparedValue s.preparedJust] = [G.rc p] := by
    rw [hrc]; rfl
  constructor
  · intro K hK
    simp only [hw]
    rcases hK with rfl | rfl | rfl | rfl <;>
      simp [sentB, isKind, hok.typ, hok.src, hok.round, hne, hne1, tPrePrepare, tPrepare, tCommit, tRoundChange]
  · intro m' hm'
    rw [hw] at hm'
    simp only [List.mem_singleton] at hm'
    subst hm'
    exact ⟨Shape.rc p hp hok, hok.src, hok.round, hok.typ⟩

/-- a decided member: flags frozen, at most a DECIDED goes out. -/
theorem fx_dcd {d : Def} {R : List Nat} {G : Rd} {p : Nat} {s : NodeState} (o : Oracle) (m : Msg)
    (hp : p ∈ R) (h : Dcd d G p s) :
    Fx d R G p s (step d o s (.recv m .ok)).1 (step d o s (.recv m .ok)).2 tDecided := by
  obtain ⟨h1, h2, h2i, h3⟩ := dcd_recv o m h
  have hsame : ∀ K, sentB G K (step d o s (.recv m .ok)).1 = sentB G K s := by
    intro K
    unfold sentB
    rw [h2, h2i, h1.round, h1.proc, h.round, h.proc]
  constructor
  · intro K hK
    rw [hsame]
    rcases h3 with h3 | ⟨_, h3⟩ <;> rw [h3]
    · simp [twires]
    · have hw : twires p [Out.bcast tDecided G.ρ G.v 0 0 s.qCommit] =
          [{ core := ⟨tDecided, p, G.ρ, G.v, 0, 0⟩, just := s.qCommit }] := rfl
      simp only [hw]
      rcases hK with rfl | rfl | rfl | rfl <;>
        simp [isKind, tPrePrepare, tPrepare, tCommit, tRoundChange, tDecided]
  · intro m' hm'
    rcases h3 with h3 | ⟨_, h3⟩ <;> rw [h3] at hm'
    · simp [twires] at hm'
    · simp only [twires, twire, List.filterMap_cons, List.filterMap_nil, List.mem_singleton] at hm'
      subst hm'
      refine ⟨Shape.dec _ ⟨rfl, rfl, rfl, ?_⟩ hp, rfl, rfl, rfl⟩
      have hco : CommitOk d s := Or.inr (by rw [h.round, h.done.qcv]; exact h.cok)
      have := justified_decided hco h.done.qc 0
      rw [h.proc, h.round, h.done.qcv] at this
      exact this


/-- every ROUND-CHANGE core of the round a member holds is the core of a member's ROUND-CHANGE. -/
theorem rc_core_of {d : Def} {R : List Nat} {G : Rd} {L : List Msg} (hs : ∀ x ∈ L, Shape d R G x)
    (hd : ∀ x ∈ L, x.core.typ ≠ tDecided) {c : Core} (hc : c ∈ coresOf L) (ht : c.typ = tRoundChange)
    (hr : c.round = G.ρ) : ∃ b ∈ R, RcOk d G.ρ (G.rc b) b ∧ c = (G.rc b).core := by
  obtain ⟨x, hx, hcx⟩ := mem_coresOf.mp hc
  have hsx := hs x hx
  cases hsx with
  | old m hm =>
    have : c ∈ x.core :: x.just := by
      rcases hcx with h | h
      · rw [h]; exact List.mem_cons_self
      · exact List.mem_cons_of_mem _ h
    have := hm.1 c this; omega
  | rc b hb hok =>
    rcases hcx with h | h
    · exact ⟨b, hb, hok, h⟩
    · have := (hok.just_prepare c h).1
      rw [ht] at this; exact absurd this (by decide)
  | pp m hm hl =>
    rcases hcx with h | h
    · rw [h, hm.1] at ht; simp [tPrePrepare, tRoundChange] at ht
    · exact hm.2.1.2.1 c h ht hr
  | prep b hb =>
    rcases hcx with h | h
    · rw [h] at ht; simp [prepMsg, tPrepare, tRoundChange] at ht
    · simp [prepMsg] at h
  | commit b hb =>
    rcases hcx with h | h
    · rw [h] at ht; simp [commitMsg, tCommit, tRoundChange] at ht
    · simp [commitMsg] at h
  | dec m hm hs' => exact absurd hm.1 (hd _ hx)

/-- **The leader-side selection succeeds on every buffer of the round**: ROUND-CHANGEs with
certificates, the leader's PRE-PREPARE with its J1/J2 justification, PREPAREs and COMMITs of the
round and messages of earlier rounds, in any mix — as soon as it holds ROUND-CHANGE cores of a quorum
of sources. -/
theorem qrc_some_any {d : Def} {R : List Nat} {G : Rd} {L : List Msg} {buf : List (Nat × List Msg)}
    (hq1 : 1 ≤ d.quorum) (hb : BufIs buf L) (hs : ∀ x ∈ L, Shape d R G x)
    (hd : ∀ x ∈ L, x.core.typ ≠ tDecided) (ord : List Nat) (k : Nat)
    (hq : d.quorum ≤ (filterRoundChange (flatten ord buf) G.ρ).length) :
    ∃ j, getJustifiedQrc d k (flatten ord buf) G.ρ = some j := by
  have hmemf : ∀ c, c ∈ flatten ord buf ↔ c ∈ coresOf L := mem_flatten_bufIs hb
  -- completeness of the de-duplicated list
  have hcompl : ∀ c ∈ flatten ord buf, c.typ = tRoundChange → c.round = G.ρ →
      c ∈ filterRoundChange (flatten ord buf) G.ρ := by
    intro c hc ht hr
    unfold filterRoundChange
    apply filterMsgs_mem (value := none) (pr := none) (pv := none) hc
      ⟨ht, hr, by refine ⟨?_, ?_, ?_⟩ <;> (intro v hv; cases hv)⟩
    intro c' hc' hm' hsrc
    obtain ⟨b, _, hok, e⟩ := rc_core_of hs hd ((hmemf c).mp hc) ht hr
    obtain ⟨b', _, hok', e'⟩ := rc_core_of hs hd ((hmemf c').mp hc') hm'.1 hm'.2.1
    have hbb : b' = b := by
      have h1 : c'.src = b' := by rw [e']; exact hok'.src
      have h2 : c.src = b := by rw [e]; exact hok.src
      omega
    rw [e', e, hbb]
  have hne : filterRoundChange (flatten ord buf) G.ρ ≠ [] := by
    intro h0; rw [h0] at hq; change d.quorum ≤ 0 at hq; omega
  obtain ⟨cm, hcm, hmax⟩ := exists_max_of_ne_nil (fun c : Core => c.pr) _ hne
  have hcmS := filterMsgs_sound hcm
  obtain ⟨bm, hbm, hokm, ecm⟩ := rc_core_of hs hd ((hmemf cm).mp hcmS.1) hcmS.2.1 hcmS.2.2.1
  by_cases hz : cm.pr = 0
  · -- all null: J1
    refine ⟨_, getJustifiedQrc_null (Nat.le_trans hq ?_)⟩
    unfold filterRoundChange
    apply filterMsgs_length_opt
    intro c hc ht hr
    have hcf := hcompl c hc ht hr
    have hle := hmax c hcf
    obtain ⟨b, _, hok, e⟩ := rc_core_of hs hd ((hmemf c).mp hc) ht hr
    have hpr : c.pr = 0 := by omega
    have hpv : c.pv = 0 := by
      rcases hok.cert with ⟨_, h2, _⟩ | ⟨h1, _⟩
      · rw [e]; exact h2
      · rw [e] at hpr; omega
    exact ⟨ht, hr, by simp, by simpa using hpr, by simpa using hpv⟩
  · -- J2 with the highest prepared round
    obtain ⟨x, hx, hcx⟩ := mem_coresOf.mp ((hmemf cm).mp hcmS.1)
    have hall : ∀ c ∈ filterRoundChange (flatten ord buf) G.ρ, c.pr ≤ cm.pr := hmax
    have hsx := hs x hx
    cases hsx with
    | old m hm =>
      have : cm ∈ x.core :: x.just := by
        rcases hcx with h | h
        · rw [h]; exact List.mem_cons_self
        · exact List.mem_cons_of_mem _ h
      have := hm.1 cm this
      have := hcmS.2.2.1
      omega
    | rc b hb' hok =>
      rcases hcx with h | h
      · -- the ROUND-CHANGE itself is held: its certificate is in the buffer
        have hcert : Cert d (G.rc b).core.pr (G.rc b).core.pv (G.rc b).just := by
          rcases hok.cert with ⟨h1, _⟩ | ⟨_, _, _, h4⟩
          · rw [h] at hz; exact absurd h1 hz
          · exact h4
        apply getJustifiedQrc_complete d hq1 k _ G.ρ cm.pr cm.pv hq hall ⟨cm, hcm, rfl, rfl⟩
          ((G.rc b).just.map (·.src)) hcert.1 (by simpa using hcert.2.1)
        intro s' hs'
        obtain ⟨y, hy, rfl⟩ := List.mem_map.mp hs'
        have := hcert.2.2 y hy
        refine ⟨y, ?_, this.1, by rw [this.2.1, h], by rw [this.2.2, h], rfl⟩
        rw [hmemf]; exact mem_coresOf.mpr ⟨_, hx, Or.inr hy⟩
      · have := (hok.just_prepare cm h).1
        rw [hcmS.2.1] at this; exact absurd this (by decide)
    | pp m hm hl =>
      rcases hcx with h | h
      · have := hcmS.2.1; rw [h, hm.1] at this; simp [tPrePrepare, tRoundChange] at this
      · rcases hm.2.1.2.2 with hnull | ⟨ρ', w, S, h1, ⟨c0, hc0, t0, r0, p0, v0⟩, hS, hSl, hprep⟩
        · exact absurd (hnull cm h hcmS.2.1 hcmS.2.2.1).1 hz
        · have hc0all : c0 ∈ flatten ord buf := by
            rw [hmemf]; exact mem_coresOf.mpr ⟨_, hx, Or.inr hc0⟩
          have hc0f := hcompl c0 hc0all t0 r0
          have hle1 := h1 cm h hcmS.2.1 hcmS.2.2.1
          have hle2 := hall c0 hc0f
          have heq : cm.pr = ρ' := by omega
          apply getJustifiedQrc_complete d hq1 k _ G.ρ ρ' w hq (by rw [← heq]; exact hall)
            ⟨c0, hc0f, p0, v0⟩ S hS hSl
          intro s' hs'
          obtain ⟨y, hy, e1, e2, e3, e4⟩ := hprep s' hs'
          exact ⟨y, by rw [hmemf]; exact mem_coresOf.mpr ⟨_, hx, Or.inr hy⟩, e1, e2, e3, e4⟩
    | prep b hb' =>
      rcases hcx with h | h
      · have := hcmS.2.1; rw [h] at this; simp [prepMsg, tPrepare, tRoundChange] at this
      · simp [prepMsg] at h
    | commit b hb' =>
      rcases hcx with h | h
      · have := hcmS.2.1; rw [h] at this; simp [commitMsg, tCommit, tRoundChange] at this
      · simp [commitMsg] at h
    | dec m hm hs' => exact absurd hm.1 (hd _ hx)

/-- **A ROUND-CHANGE of the round reaching a member after the leader proposed** is only buffered. -/
theorem act_recv_rc {d : Def} {R : List Nat} {G : Rd} {I : Nat → Nat} {p : Nat} {s : NodeState} {L : List Msg} {a : Nat}
    (o : Oracle) (hq1 : 1 ≤ d.quorum) (hlead : d.leader G.ρ = G.l) (h : Act d G I p s L)
    (hh : LocHyp d R G L (G.rc a)) (ha : a ∈ R)
    (hok : RcOk d G.ρ (G.rc a) a) (hfl : G.l = p → (uQuorumRoundChanges, G.ρ) ∈ s.dedup) :
    Act d G I p (step d o s (.recv (G.rc a) .ok)).1 (L ++ [G.rc a]) ∧
    Buffered d s (G.rc a) (step d o s (.recv (G.rc a) .ok)) := by
  have hm := h.mid
  have hbuf : BufIs (bufferMsg d.fifo s.buffer (G.rc a)) (L ++ [G.rc a]) := bufIs_bufferMsg h.buf hh.fifo
  have hnoDec : ∀ x ∈ L ++ [G.rc a], x.core.typ ≠ tDecided := by
    intro x hx
    rcases List.mem_append.mp hx with hx | hx
    · exact h.noDec x hx
    · simp only [List.mem_singleton] at hx; subst hx; rw [hok.typ]; decide
  have hj := hok.justified hq1 s.compareFailureRound
  have hrr : (G.rc a).core.round = s.round := by rw [hok.round, hm.round]
  have hst : step d o s (.recv (G.rc a) .ok) =
      ({ s with buffer := bufferMsg d.fifo s.buffer (G.rc a) }, []) := by
    by_cases hlt : (filterRoundChange (flatten o.srcOrd (bufferMsg d.fifo s.buffer (G.rc a))) s.round).length
        < d.quorum
    · exact step_rc_below hm.dead hm.started hm.qc hj hok.typ hrr hlt
    · have hge : d.quorum ≤ (filterRoundChange (flatten o.srcOrd
          (bufferMsg d.fifo s.buffer (G.rc a))) s.round).length := by omega
      obtain ⟨J, hJ⟩ := qrc_some_any (G := G) hq1 hbuf hh.shape hnoDec o.srcOrd o.pqPerm
        (by rw [hm.round] at hge; exact hge)
      have hJ' : getJustifiedQrc d o.pqPerm (flatten o.srcOrd (bufferMsg d.fifo s.buffer (G.rc a)))
          s.round = some J := by rw [hm.round]; exact hJ
      by_cases hl : d.leader s.round = s.proc
      · have : G.l = p := by rw [hm.round, hm.proc, hlead] at hl; exact hl
        exact step_rc_dup' hm.dead hm.started hm.qc hj hok.typ hrr hge hJ'
          (by rw [hok.round]; exact hfl this)
      · exact step_rc_nonleader' hm.dead hm.started hm.qc hj hok.typ hrr hge hJ' hl
  have hsn : ∀ K, K ≠ tRoundChange → srcsOf K G.ρ (L ++ [G.rc a]) = srcsOf K G.ρ L := by
    intro K hK
    rw [srcsOf_snoc, if_neg (by rw [hok.typ]; intro hc; exact hK hc.1.symm)]; simp
  have hsn0 : srcsOf tRoundChange G.ρ (L ++ [G.rc a]) = srcsOf tRoundChange G.ρ L ++ [a] := by
    rw [srcsOf_snoc, if_pos ⟨hok.typ, hok.round⟩, hok.src]
  refine ⟨?_, hst⟩
  rw [hst]
  refine ⟨mid_of_eq hm rfl rfl rfl rfl rfl rfl, hbuf, hnoDec, by rw [hsn _ (by decide)]; exact h.jpp,
    by rw [hsn _ (by decide)]; exact h.qp, h.qc, by rw [hsn _ (by decide)]; exact h.qcl, h.jd, ?_,
    h.cache, h.inp, h.ton⟩
  rw [hsn0]
  constructor
  · intro hd'
    have := h.qrc.mp hd'
    exact ⟨this.1, by simp; omega⟩
  · intro hc; exact hfl hc.1
/-! ### The cluster invariant of a round under way -/

/-- timing of the round: the members enter it at instants in `[E, E + σ]`; the round timers armed at
entry have their deadlines in `[E', E' + σ']`; `B` bounds the number of earlier-round messages per
source. -/
structure Tm where
  E : Nat
  σ : Nat
  E' : Nat
  σ' : Nat
  B : Nat

/-- number of network delays after the last entry by which a message of type `K` has been sent:
ROUND-CHANGE 0, PRE-PREPARE 1, PREPARE 2, COMMIT 3. -/
def kindIdx (K : Nat) : Nat := if K = tRoundChange then 0 else K

/-- member `nd` after a step with result `r`, `rc` = what was delivered. -/
def updNode (P : TParams) (now : Nat) (nd : TNode) (r : NodeState × List Out) (rc : List Msg) : TNode :=
  { st := r.1, outs := nd.outs ++ r.2,
    timer := (armAll P.arm now (nd.timer, nd.firsts) r.2).1,
    firsts := (armAll P.arm now (nd.timer, nd.firsts) r.2).2,
    rcvd := nd.rcvd ++ rc }

theorem actNode_one (P : TParams) (s : TState) (p : Nat) (o : Oracle) (e : Event) (net : List Packet)
    (rc : List Msg) :
    actNode P s p o [e] net rc =
      { now := s.now
        node := fun q => if q = p then updNode P s.now (s.node p) (step P.d o (s.node p).st e) rc
                         else s.node q
        net := net ++ sendAll P.R s.now (twires p (step P.d o (s.node p).st e).2)
        log := s.log ++ twires p (step P.d o (s.node p).st e).2 } := by
  simp [actNode, updNode]

/-- the state of one running member while round `G.ρ` is under way: about to enter it, in it and
undecided, or decided. -/
inductive MemInv (P : TParams) (G : Rd) (T : Tm) (now p : Nat) (nd : TNode) : Prop where
  | pend (e : Nat) : Pend G P.inp p nd.st (G.pre p ++ nd.rcvd) → nd.timer = some e → T.E ≤ e → e ≤ T.E + T.σ →
      now ≤ e → (∀ r, G.ρ ≤ r → lookup r nd.firsts = none) → Quiet nd.outs → MemInv P G T now p nd
  | act (dl fd : Nat) : Act P.d G P.inp p nd.st (G.pre p ++ nd.rcvd) → Quiet nd.outs → T.E ≤ now →
      nd.timer = some dl → T.E' ≤ dl → (srcsOf tPrePrepare G.ρ nd.rcvd = [] → dl ≤ T.E' + T.σ') →
      lookup G.ρ nd.firsts = some fd → T.E' ≤ fd → (∀ r, G.ρ < r → lookup r nd.firsts = none) →
      MemInv P G T now p nd
  | dcd : Dcd P.d G p nd.st → nd.timer = none → decidedOnce G.v G.ρ nd.outs = true →
      noFault nd.outs = true → T.E ≤ now → MemInv P G T now p nd

structure RInv (P : TParams) (G : Rd) (T : Tm) (s : TState) : Prop where
  net_ok : ∀ pk ∈ s.net, pk.dst ∈ P.R ∧ s.now ≤ pk.sent + P.hi ∧ T.E ≤ pk.sent ∧
    pk.msg.core.round = G.ρ ∧
    (pk.msg.core.typ ≠ tDecided → pk.sent ≤ T.E + T.σ + kindIdx pk.msg.core.typ * P.hi)
  perm : ∀ p ∈ P.R, (inflight p s.net ++ (s.node p).rcvd).Perm s.log
  shape : ∀ m ∈ s.log, Shape P.d P.R G m
  counts : ∀ a ∈ P.R, ∀ K, Once K →
    s.log.countP (isKind K G.ρ a) = if sentB G K (s.node a).st then 1 else 0
  fb : ∀ a, (s.log.filter (fun m => m.core.src == a && m.core.typ != tDecided)).length ≤
    (if a ∈ P.R then nsent G (s.node a).st else 0)
  decs : ∀ m ∈ s.log, m.core.typ = tDecided → (s.node m.core.src).st.qCommit ≠ []
  j1 : (∃ p ∈ P.R, (s.node p).st.qCommit ≠ []) →
    P.d.quorum ≤ (P.R.filter (fun a => sentB G tCommit (s.node a).st)).length
  j2 : (∃ a ∈ P.R, sentB G tCommit (s.node a).st = true) →
    P.d.quorum ≤ (P.R.filter (fun a => sentB G tPrepare (s.node a).st)).length
  j3 : (∃ a ∈ P.R, sentB G tPrepare (s.node a).st = true) →
    G.l ∈ P.R ∧ sentB G tPrePrepare (s.node G.l).st = true
  mem : ∀ p ∈ P.R, MemInv P G T s.now p (s.node p)
  timers : ∀ p ∈ P.R, ∀ dl, (s.node p).timer = some dl → s.now ≤ dl

theorem armStep_ge (arm : Option Nat → Nat → Nat → Nat) (now : Nat) (acc : Option Nat × List (Nat × Nat))
    (o : Out) (h : ∀ x, acc.1 = some x → now ≤ x) : ∀ y, (armStep arm now acc o).1 = some y → now ≤ y := by
  intro y hy
  cases o <;> simp only [armStep] at hy <;> try exact h y hy
  · simp only [Option.some.injEq] at hy; omega
  · cases hy

theorem armAll_ge (arm : Option Nat → Nat → Nat → Nat) (now : Nat) (outs : List Out) :
    ∀ (acc : Option Nat × List (Nat × Nat)), (∀ x, acc.1 = some x → now ≤ x) →
      ∀ y, (armAll arm now acc outs).1 = some y → now ≤ y := by
  induction outs with
  | nil => intro acc h y hy; exact h y hy
  | cons o os ih =>
    intro acc h y hy
    unfold armAll at hy
    simp only [List.foldl_cons] at hy
    exact ih _ (armStep_ge arm now acc o h) y hy

theorem countP_eq_zero_of_src {ms : List Msg} {p a K ρ : Nat} (h : ∀ m' ∈ ms, m'.core.src = p) (hne : a ≠ p) :
    ms.countP (isKind K ρ a) = 0 := by
  rw [List.countP_eq_zero]
  intro m hm
  simp only [isKind, Bool.and_eq_true, beq_iff_eq, not_and]
  intro _ hc
  exact hne (by rw [← hc, h m hm])

/-- the non-DECIDED messages among what a step sends are counted by the four once-only kinds. -/
theorem lenND_le {ms : List Msg} {p ρ : Nat}
    (h : ∀ m' ∈ ms, m'.core.src = p ∧ m'.core.round = ρ ∧
      (m'.core.typ = tRoundChange ∨ m'.core.typ = tPrePrepare ∨ m'.core.typ = tPrepare ∨
        m'.core.typ = tCommit ∨ m'.core.typ = tDecided)) :
    (ms.filter (fun m => m.core.src == p && m.core.typ != tDecided)).length ≤
      ms.countP (isKind tRoundChange ρ p) + ms.countP (isKind tPrePrepare ρ p) +
      ms.countP (isKind tPrepare ρ p) + ms.countP (isKind tCommit ρ p) := by
  induction ms with
  | nil => simp
  | cons m ms ih =>
    have ih' := ih (fun m' hm' => h m' (List.mem_cons_of_mem _ hm'))
    obtain ⟨h1, h2, h3⟩ := h m List.mem_cons_self
    simp only [List.filter_cons, List.countP_cons]
    rcases h3 with h3 | h3 | h3 | h3 | h3 <;>
      simp [isKind, h1, h2, h3, tRoundChange, tPrePrepare, tPrepare, tCommit, tDecided] <;>
      simp [tRoundChange, tPrePrepare, tPrepare, tCommit, tDecided] at ih' <;> omega

theorem lenND_zero {ms : List Msg} {p a : Nat} (h : ∀ m' ∈ ms, m'.core.src = p) (hne : a ≠ p) :
    (ms.filter (fun m => m.core.src == a && m.core.typ != tDecided)) = [] := by
  rw [List.filter_eq_nil_iff]
  intro m hm
  simp only [Bool.and_eq_true, beq_iff_eq, not_and]
  intro hc
  exact absurd (by rw [← hc, h m hm]) hne

theorem filter_length_mono {R : List Nat} {f g : Nat → Bool} (h : ∀ a ∈ R, f a = true → g a = true) :
    (R.filter f).length ≤ (R.filter g).length := by
  induction R with
  | nil => simp
  | cons a as ih =>
    have ih' := ih (fun x hx => h x (List.mem_cons_of_mem _ hx))
    simp only [List.filter_cons]
    cases hf : f a with
    | false => simp only [Bool.false_eq_true, if_false]; split <;> simp <;> omega
    | true => rw [h a List.mem_cons_self hf]; simp; omega

/-- flags only flip from false to true. -/
theorem Fx.mono {d : Def} {R : List Nat} {G : Rd} {p : Nat} {s s' : NodeState} {outs : List Out} {nxt : Nat}
    (h : Fx d R G p s s' outs nxt) {K : Nat} (hK : Once K) (hs : sentB G K s = true) : sentB G K s' = true := by
  have := h.eff K hK
  rw [hs] at this
  cases hs' : sentB G K s' with
  | true => rfl
  | false => rw [hs'] at this; simp at this; omega

theorem Fx.nsent_eq {d : Def} {R : List Nat} {G : Rd} {p : Nat} {s s' : NodeState} {outs : List Out} {nxt : Nat}
    (h : Fx d R G p s s' outs nxt) :
    nsent G s' = nsent G s + ((twires p outs).countP (isKind tRoundChange G.ρ p) +
      (twires p outs).countP (isKind tPrePrepare G.ρ p) + (twires p outs).countP (isKind tPrepare G.ρ p) +
      (twires p outs).countP (isKind tCommit G.ρ p)) := by
  unfold nsent
  have e1 := h.eff tRoundChange (Or.inr (Or.inr (Or.inr rfl)))
  have e2 := h.eff tPrePrepare (Or.inl rfl)
  have e3 := h.eff tPrepare (Or.inr (Or.inl rfl))
  have e4 := h.eff tCommit (Or.inr (Or.inr (Or.inl rfl)))
  omega

/-- **One step of a running member preserves the cluster invariant**, given what the step does
locally (`Fx`, the member's new state, when it happens) and — where a flag flips or the member
decides — the quorum facts read off the log. -/
theorem rinv_act {P : TParams} {G : Rd} {T : Tm} {s : TState} (hR : P.R.Nodup) (h : RInv P G T s)
    {p : Nat} (hp : p ∈ P.R) (o : Oracle) (e : Event) (net0 : List Packet) (rc : List Msg) (nxt : Nat)
    (hnet0 : ∀ pk ∈ net0, pk ∈ s.net)
    (hfl : ∀ q ∈ P.R, (inflight q net0 ++ ((s.node q).rcvd ++ if q = p then rc else [])).Perm
      (inflight q s.net ++ (s.node q).rcvd))
    (hfx : Fx P.d P.R G p (s.node p).st (step P.d o (s.node p).st e).1 (step P.d o (s.node p).st e).2 nxt)
    (hmem : MemInv P G T s.now p (updNode P s.now (s.node p) (step P.d o (s.node p).st e) rc))
    (htime : twires p (step P.d o (s.node p).st e).2 ≠ [] →
      T.E ≤ s.now ∧ (nxt ≠ tDecided → s.now ≤ T.E + T.σ + kindIdx nxt * P.hi))
    (hdec : nxt = tDecided → twires p (step P.d o (s.node p).st e).2 ≠ [] →
      (step P.d o (s.node p).st e).1.qCommit ≠ [])
    (hstay : (s.node p).st.qCommit ≠ [] → (step P.d o (s.node p).st e).1.qCommit ≠ [])
    (hj1 : (step P.d o (s.node p).st e).1.qCommit ≠ [] → (s.node p).st.qCommit = [] →
      P.d.quorum ≤ (P.R.filter (fun a => sentB G tCommit (s.node a).st)).length)
    (hj2 : sentB G tCommit (step P.d o (s.node p).st e).1 = true → sentB G tCommit (s.node p).st = false →
      P.d.quorum ≤ (P.R.filter (fun a => sentB G tPrepare (s.node a).st)).length)
    (hj3 : sentB G tPrepare (step P.d o (s.node p).st e).1 = true → sentB G tPrepare (s.node p).st = false →
      G.l ∈ P.R ∧ sentB G tPrePrepare (s.node G.l).st = true) :
    RInv P G T (actNode P s p o [e] net0 rc) := by
  rw [actNode_one]
  generalize hr : step P.d o (s.node p).st e = r at *
  have hsrc : ∀ m' ∈ twires p r.2, m'.core.src = p := fun m' hm' => (hfx.shp m' hm').2.1
  -- the new node function
  have hnode_p : (fun q => if q = p then updNode P s.now (s.node p) r rc else s.node q) p =
      updNode P s.now (s.node p) r rc := by simp
  have hnode_ne : ∀ q, q ≠ p →
      (fun q => if q = p then updNode P s.now (s.node p) r rc else s.node q) q = s.node q := by
    intro q hq; simp [hq]
  have hst_of : ∀ q, ((fun q => if q = p then updNode P s.now (s.node p) r rc else s.node q) q).st =
      if q = p then r.1 else (s.node q).st := by
    intro q; by_cases hq : q = p <;> simp [hq, updNode]
  -- flags are monotone at every member
  have hmono : ∀ K, Once K → ∀ a, sentB G K (s.node a).st = true →
      sentB G K ((fun q => if q = p then updNode P s.now (s.node p) r rc else s.node q) a).st = true := by
    intro K hK a ha
    rw [hst_of]
    by_cases hap : a = p
    · rw [if_pos hap]; subst hap; exact hfx.mono hK ha
    · rw [if_neg hap]; exact ha
  constructor
  · -- net_ok
    intro pk hpk
    simp only at hpk ⊢
    rcases List.mem_append.mp hpk with hpk | hpk
    · exact h.net_ok pk (hnet0 pk hpk)
    · obtain ⟨h1, h2, h3⟩ := mem_sendAll hpk
      have hne : twires p r.2 ≠ [] := fun hc => by rw [hc] at h2; cases h2
      obtain ⟨t1, t2⟩ := htime hne
      obtain ⟨_, _, s3, s4⟩ := hfx.shp pk.msg h2
      refine ⟨h1, by omega, by omega, s3, ?_⟩
      intro hnd
      rw [s4] at hnd ⊢
      have := t2 hnd
      omega
  · -- perm
    intro q hq
    simp only
    rw [inflight_append, inflight_sendAll hR hq]
    have hrc : ((fun q => if q = p then updNode P s.now (s.node p) r rc else s.node q) q).rcvd =
        (s.node q).rcvd ++ if q = p then rc else [] := by
      by_cases hqp : q = p
      · subst hqp; simp [updNode]
      · simp [hqp]
    rw [hrc]
    have h1 := (hfl q hq).trans (h.perm q hq)
    have h2 : (inflight q net0 ++ twires p r.2 ++ ((s.node q).rcvd ++ if q = p then rc else [])).Perm
        ((inflight q net0 ++ ((s.node q).rcvd ++ if q = p then rc else [])) ++ twires p r.2) := by
      rw [List.append_assoc, List.append_assoc]
      exact List.Perm.append_left _ List.perm_append_comm
    exact h2.trans (List.Perm.append_right _ h1)
  · -- shape
    intro m hm
    rcases List.mem_append.mp hm with hm | hm
    · exact h.shape m hm
    · exact (hfx.shp m hm).1
  · -- counts
    intro a ha K hK
    simp only
    rw [List.countP_append, h.counts a ha K hK, hst_of]
    by_cases hap : a = p
    · subst hap
      rw [if_pos rfl]
      exact (hfx.eff K hK).symm
    · rw [if_neg hap, countP_eq_zero_of_src hsrc hap]
      rfl
  · -- fb
    intro a
    simp only
    rw [List.filter_append, List.length_append, hst_of]
    have hb := h.fb a
    by_cases hap : a = p
    · subst hap
      rw [if_pos rfl, hfx.nsent_eq]
      rw [if_pos hp] at hb ⊢
      have := lenND_le (ms := twires a r.2) (p := a) (ρ := G.ρ) (by
        intro m' hm'
        obtain ⟨s1, s2, s3, _⟩ := hfx.shp m' hm'
        refine ⟨s2, s3, ?_⟩
        rcases s1.typ_cases with hlt | ⟨_, hc⟩
        · omega
        · exact hc)
      omega
    · rw [if_neg hap, lenND_zero hsrc hap]
      simpa using hb
  · -- decs
    intro m hm ht
    simp only
    rw [hst_of]
    rcases List.mem_append.mp hm with hm | hm
    · have := h.decs m hm ht
      by_cases hmp : m.core.src = p
      · rw [if_pos hmp]; rw [hmp] at this; exact hstay this
      · rw [if_neg hmp]; exact this
    · obtain ⟨_, s2, _, s4⟩ := hfx.shp m hm
      rw [if_pos s2]
      exact hdec (by rw [← s4, ht]) (fun hc => by rw [hc] at hm; cases hm)
  · -- j1
    rintro ⟨q, hq, hqd⟩
    simp only at hqd ⊢
    rw [hst_of] at hqd
    have hold : P.d.quorum ≤ (P.R.filter (fun a => sentB G tCommit (s.node a).st)).length := by
      by_cases hex : ∃ q' ∈ P.R, (s.node q').st.qCommit ≠ []
      · exact h.j1 hex
      · have hnone : ∀ q' ∈ P.R, (s.node q').st.qCommit = [] := by
          intro q' hq'
          apply Classical.byContradiction
          intro hc
          exact hex ⟨q', hq', hc⟩
        by_cases hqp : q = p
        · rw [if_pos hqp] at hqd
          exact hj1 hqd (hnone p hp)
        · rw [if_neg hqp] at hqd
          exact absurd (hnone q hq) hqd
    exact Nat.le_trans hold (filter_length_mono (fun a _ ha => hmono tCommit (Or.inr (Or.inr (Or.inl rfl))) a ha))
  · -- j2
    rintro ⟨q, hq, hqd⟩
    simp only at hqd ⊢
    rw [hst_of] at hqd
    have hold : P.d.quorum ≤ (P.R.filter (fun a => sentB G tPrepare (s.node a).st)).length := by
      by_cases hex : ∃ q' ∈ P.R, sentB G tCommit (s.node q').st = true
      · exact h.j2 hex
      · have hnone : ∀ q' ∈ P.R, sentB G tCommit (s.node q').st = false := by
          intro q' hq'
          cases hc : sentB G tCommit (s.node q').st with
          | false => rfl
          | true => exact absurd ⟨q', hq', hc⟩ hex
        by_cases hqp : q = p
        · rw [if_pos hqp] at hqd
          exact hj2 hqd (hnone p hp)
        · rw [if_neg hqp] at hqd
          rw [hnone q hq] at hqd
          cases hqd
    exact Nat.le_trans hold (filter_length_mono (fun a _ ha => hmono tPrepare (Or.inr (Or.inl rfl)) a ha))
  · -- j3
    rintro ⟨q, hq, hqd⟩
    simp only at hqd ⊢
    rw [hst_of] at hqd
    have hold : G.l ∈ P.R ∧ sentB G tPrePrepare (s.node G.l).st = true := by
      by_cases hex : ∃ q' ∈ P.R, sentB G tPrepare (s.node q').st = true
      · exact h.j3 hex
      · have hnone : ∀ q' ∈ P.R, sentB G tPrepare (s.node q').st = false := by
          intro q' hq'
          cases hc : sentB G tPrepare (s.node q').st with
          | false => rfl
          | true => exact absurd ⟨q', hq', hc⟩ hex
        by_cases hqp : q = p
        · rw [if_pos hqp] at hqd
          exact hj3 hqd (hnone p hp)
        · rw [if_neg hqp] at hqd
          rw [hnone q hq] at hqd
          cases hqd
    exact ⟨hold.1, hmono tPrePrepare (Or.inl rfl) G.l hold.2⟩
  · -- mem
    intro q hq
    simp only
    by_cases hqp : q = p
    · subst hqp; rw [if_pos rfl]; exact hmem
    · rw [if_neg hqp]; exact h.mem q hq
  · -- timers
    intro q hq dl hdl
    simp only at hdl ⊢
    by_cases hqp : q = p
    · subst hqp
      rw [if_pos rfl] at hdl
      exact armAll_ge P.arm s.now r.2 _ (fun x hx => h.timers q hq x hx) dl hdl
    · rw [if_neg hqp] at hdl
      exact h.timers q hq dl hdl

/-- the standing hypotheses of the stages after the proposal: cluster, timer object, latency, the
members' ROUND-CHANGEs and what they held before the round. -/
structure Hyp (P : TParams) (G : Rd) (T : Tm) : Prop where
  nodup : P.R.Nodup
  n1 : 1 ≤ P.d.nodes
  rho : 2 ≤ G.ρ
  lead : P.d.leader G.ρ = G.l
  rcok : ∀ a ∈ P.R, RcOk P.d G.ρ (G.rc a) a
  preOld : ∀ p ∈ P.R, ∀ x ∈ G.pre p, OldMsg G.ρ x
  preLen : ∀ p ∈ P.R, ∀ a, ((G.pre p).filter (fun x => x.core.src == a)).length ≤ T.B
  /-- a timer armed for the round at an entry instant has its deadline in `[E', E' + σ']` -/
  ta : ∀ now, T.E ≤ now → now ≤ T.E + T.σ →
    T.E' ≤ P.arm none now G.ρ ∧ P.arm none now G.ρ ≤ T.E' + T.σ'
  /-- re-arming the timer for the round never yields a deadline before `E'` -/
  tb : ∀ fd now, T.E' ≤ fd → T.E ≤ now → T.E' ≤ P.arm (some fd) now G.ρ
  win : T.E + T.σ ≤ T.E'
  /-- the skew of the entries does not exceed the minimal latency -/
  lo : T.σ ≤ P.lo
  fifo : T.B + 4 ≤ P.d.fifo

theorem srcsOf_pre {P : TParams} {G : Rd} {T : Tm} (hy : Hyp P G T) {p : Nat} (hp : p ∈ P.R)
    (K : Nat) (X : List Msg) : srcsOf K G.ρ (G.pre p ++ X) = srcsOf K G.ρ X := by
  rw [srcsOf_append, srcsOf_old (hy.preOld p hp)]; rfl
theorem mem_log_of_rcvd {P : TParams} {G : Rd} {T : Tm} {s : TState} (h : RInv P G T s) {p : Nat}
    (hp : p ∈ P.R) {x : Msg} (hx : x ∈ (s.node p).rcvd) : x ∈ s.log :=
  (h.perm p hp).mem_iff.mp (List.mem_append_right _ hx)

theorem mem_log_of_inflight {P : TParams} {G : Rd} {T : Tm} {s : TState} (h : RInv P G T s) {p : Nat}
    (hp : p ∈ P.R) {x : Msg} (hx : x ∈ inflight p s.net) : x ∈ s.log :=
  (h.perm p hp).mem_iff.mp (List.mem_append_left _ hx)

/-- a once-only message of the round in the log: its sender runs and its flag is set. -/
theorem sent_of_log {P : TParams} {G : Rd} {T : Tm} {s : TState} (h : RInv P G T s) {x : Msg}
    (hx : x ∈ s.log) (hK : Once x.core.typ) (hr : x.core.round = G.ρ) :
    x.core.src ∈ P.R ∧ sentB G x.core.typ (s.node x.core.src).st = true := by
  have hsrc := (h.shape x hx).src_mem hr
  refine ⟨hsrc, ?_⟩
  have hc := h.counts x.core.src hsrc x.core.typ hK
  have hpos : 0 < s.log.countP (isKind x.core.typ G.ρ x.core.src) :=
    List.countP_pos_iff.mpr ⟨x, hx, by simp [isKind, hr]⟩
  cases hb : sentB G x.core.typ (s.node x.core.src).st with
  | true => rfl
  | false => rw [hb] at hc; simp only [Bool.false_eq_true, if_false] at hc; omega

/-- what was delivered to `p` plus one message still in flight to it is a sub-multiset of the log. -/
theorem countP_sub {P : TParams} {G : Rd} {T : Tm} {s : TState} (h : RInv P G T s) {p : Nat}
    (hp : p ∈ P.R) {m : Msg} (hm : m ∈ inflight p s.net) (f : Msg → Bool) :
    ((s.node p).rcvd ++ [m]).countP f ≤ s.log.countP f := by
  have h1 : ((s.node p).rcvd ++ [m]).Perm ([m] ++ (s.node p).rcvd) := List.perm_append_comm
  have h2 : ([m] ++ (s.node p).rcvd).Sublist (inflight p s.net ++ (s.node p).rcvd) :=
    List.Sublist.append_right (List.singleton_sublist.mpr hm) _
  rw [h1.countP_eq, ← (h.perm p hp).countP_eq]
  exact h2.countP_le

/-- the cluster invariant provides `LocHyp` for a non-DECIDED message in flight to an undecided member. -/
theorem locHyp_of {P : TParams} {G : Rd} {T : Tm} {s : TState} (hy : Hyp P G T) (h : RInv P G T s)
    {p : Nat} (hp : p ∈ P.R) (hnd : ∀ x ∈ G.pre p ++ (s.node p).rcvd, x.core.typ ≠ tDecided)
    {m : Msg} (hm : m ∈ inflight p s.net) (hmt : m.core.typ ≠ tDecided) :
    LocHyp P.d P.R G (G.pre p ++ (s.node p).rcvd) m := by
  have hshape : ∀ x ∈ (G.pre p ++ (s.node p).rcvd) ++ [m], Shape P.d P.R G x := by
    intro x hx
    rcases List.mem_append.mp hx with hx | hx
    · rcases List.mem_append.mp hx with hx | hx
      · exact Shape.old x (hy.preOld p hp x hx)
      · exact h.shape x (mem_log_of_rcvd h hp hx)
    · simp only [List.mem_singleton] at hx; subst hx
      exact h.shape x (mem_log_of_inflight h hp hm)
  refine ⟨hshape, ?_, ?_⟩
  · intro K hK
    rw [List.append_assoc, srcsOf_pre hy hp]
    rw [List.nodup_iff_count]
    intro a
    rw [count_srcsOf]
    have h1 := countP_sub h hp hm (isKind K G.ρ a)
    by_cases ha : a ∈ P.R
    · have := h.counts a ha K hK
      split at this <;> omega
    · have : s.log.countP (isKind K G.ρ a) = 0 := by
        rw [List.countP_eq_zero]
        intro x hx
        simp only [isKind, Bool.and_eq_true, beq_iff_eq, not_and]
        intro hc hsrc
        exact ha (hsrc ▸ (h.shape x hx).src_mem hc.2)
      omega
  · have hall : ∀ x ∈ (s.node p).rcvd ++ [m], x.core.typ ≠ tDecided := by
      intro x hx
      rcases List.mem_append.mp hx with hx | hx
      · exact hnd x (List.mem_append_right _ hx)
      · simp only [List.mem_singleton] at hx; subst hx; exact hmt
    have heq : ((s.node p).rcvd ++ [m]).filter (fun x => x.core.src == m.core.src) =
        ((s.node p).rcvd ++ [m]).filter (fun x => x.core.src == m.core.src && x.core.typ != tDecided) := by
      apply List.filter_congr
      intro x hx
      have := hall x hx
      simp [this]
    have hpl := hy.preLen p hp m.core.src
    rw [List.append_assoc, List.filter_append, List.length_append, heq, ← List.countP_eq_length_filter,
      ← List.countP_eq_length_filter]
    rw [← List.countP_eq_length_filter] at hpl
    have h1 := countP_sub h hp hm (fun x => x.core.src == m.core.src && x.core.typ != tDecided)
    have h2 := h.fb m.core.src
    rw [← List.countP_eq_length_filter] at h2
    have h3 : (if m.core.src ∈ P.R then nsent G (s.node m.core.src).st else 0) ≤ 4 := by
      unfold nsent
      split
      · split <;> split <;> split <;> split <;> omega
      · omega
    have := hy.fifo
    omega

/-- a quorum of once-only messages of one type in the log: a quorum of members has the flag set. -/
theorem quorum_of_srcs {P : TParams} {G : Rd} {T : Tm} {s : TState} (h : RInv P G T s) {L : List Msg}
    (hL : ∀ x ∈ L, x ∈ s.log) {K : Nat} (hK : Once K) (hnd : (srcsOf K G.ρ L).Nodup)
    (hq : P.d.quorum ≤ (srcsOf K G.ρ L).length) :
    P.d.quorum ≤ (P.R.filter (fun a => sentB G K (s.node a).st)).length := by
  refine Nat.le_trans hq (nodup_subset_length _ _ hnd ?_)
  intro a ha
  obtain ⟨x, hx, h1, h2, h3⟩ := mem_srcsOf.mp ha
  have := sent_of_log h (hL x hx) (h1 ▸ hK) h2
  rw [h1, h3] at this
  exact List.mem_filter.mpr ⟨this.1, this.2⟩

/-- delivering the `k`-th packet: what remains in flight and what the members have received. -/
theorem deliver_ctx {s : TState} {k : Nat} {pk : Packet} (hk : s.net[k]? = some pk) :
    pk ∈ s.net ∧ (∀ pk' ∈ s.net.eraseIdx k, pk' ∈ s.net) ∧
    ∀ q, (inflight q (s.net.eraseIdx k) ++ ((s.node q).rcvd ++ if q = pk.dst then [pk.msg] else [])).Perm
      (inflight q s.net ++ (s.node q).rcvd) := by
  obtain ⟨A, B, h1, h2⟩ := eraseIdx_split hk
  refine ⟨by rw [h1]; simp, ?_, ?_⟩
  · intro pk' hpk'
    rw [h2] at hpk'
    rw [h1]
    rcases List.mem_append.mp hpk' with hh | hh
    · exact List.mem_append_left _ hh
    · exact List.mem_append_right _ (List.mem_cons_of_mem _ hh)
  · intro q
    rw [h2, h1]
    by_cases hq : q = pk.dst
    · rw [if_pos hq]
      have hp := inflight_split_same q A B pk hq.symm
      have : (inflight q (A ++ B) ++ ((s.node q).rcvd ++ [pk.msg])).Perm
          ((pk.msg :: inflight q (A ++ B)) ++ (s.node q).rcvd) := by
        rw [← List.append_assoc]
        refine List.perm_append_comm.trans ?_
        simp
      exact this.trans (List.Perm.append_right _ hp.symm)
    · rw [if_neg hq, inflight_split_other q A B pk (fun hc => hq hc.symm)]
      simp

/-- a flag of another type than the one sent does not change. -/
theorem Fx.same {d : Def} {R : List Nat} {G : Rd} {p : Nat} {s s' : NodeState} {outs : List Out} {nxt : Nat}
    (h : Fx d R G p s s' outs nxt) {K : Nat} (hK : Once K) (hne : nxt ≠ K) : sentB G K s' = sentB G K s := by
  have h0 : (twires p outs).countP (isKind K G.ρ p) = 0 := by
    rw [List.countP_eq_zero]
    intro m hm
    have := (h.shp m hm).2.2.2
    simp only [isKind, Bool.and_eq_true, beq_iff_eq, not_and]
    intro hc
    exact absurd (this.symm.trans hc.1) hne
  have := h.eff K hK
  rw [h0] at this
  cases h1 : sentB G K s' <;> cases h2 : sentB G K s <;> simp [h1, h2] at this ⊢

theorem quiet_append_of {a b : List Out} (ha : Quiet a) (hb : Quiet b) : Quiet (a ++ b) := Quiet.append ha hb

/-- **Time passes.** -/
theorem rinv_tick {P : TParams} {G : Rd} {T : Tm} {s : TState} (h : RInv P G T s) (dt : Nat)
    (hc : canTick P s dt = true) : RInv P G T { s with now := s.now + dt } := by
  unfold canTick at hc
  simp only [Bool.and_eq_true, List.all_eq_true, decide_eq_true_eq] at hc
  obtain ⟨hc1, hc2⟩ := hc
  have htm : ∀ p ∈ P.R, ∀ dl, (s.node p).timer = some dl → s.now + dt ≤ dl := by
    intro p hp dl hdl
    have := hc1 p hp
    rw [hdl] at this
    simpa using this
  refine ⟨?_, h.perm, h.shape, h.counts, h.fb, h.decs, h.j1, h.j2, h.j3, ?_, htm⟩
  · intro pk hpk
    obtain ⟨a1, _, a3, a4, a5⟩ := h.net_ok pk hpk
    exact ⟨a1, hc2 pk hpk, a3, a4, a5⟩
  · intro p hp
    cases h.mem p hp with
    | pend e a1 a2 a3 a4 a5 a6 a7 => exact .pend e a1 a2 a3 a4 (htm p hp e a2) a6 a7
    | act dl fd a1 a2 a3 a4 a5 a6 a7 a8 a9 =>
      exact .act dl fd a1 a2 (Nat.le_trans a3 (Nat.le_add_right _ _)) a4 a5 a6 a7 a8 a9
    | dcd a1 a2 a3 a4 a5 => exact .dcd a1 a2 a3 a4 (Nat.le_trans a5 (Nat.le_add_right _ _))

/-- every running member has been called. -/
theorem started_of_mem {P : TParams} {G : Rd} {T : Tm} {now p : Nat} {nd : TNode}
    (h : MemInv P G T now p nd) : nd.st.started = true := by
  cases h with
  | pend e a1 => exact a1.mid.started
  | act dl fd a1 => exact a1.mid.started
  | dcd a1 => exact a1.done.started

/-- **The round timer of a member that has not entered the round yet fires**: it enters. -/
theorem rinv_fire {P : TParams} {G : Rd} {T : Tm} {s : TState} (hy : Hyp P G T) (h : RInv P G T s)
    {p : Nat} (hp : p ∈ P.R) (htm : (s.node p).timer = some s.now)
    (hnr : (s.node p).st.round ≠ G.ρ) : RInv P G T (actNode P s p {} [.timeout] s.net []) := by
  have hq1 := quorum_pos P.d hy.n1
  cases h.mem p hp with
  | act dl fd a1 => exact absurd a1.mid.round hnr
  | dcd a1 a2 => rw [a2] at htm; cases htm
  | pend e a1 a2 a3 a4 a5 a6 a7 =>
    have he : e = s.now := by rw [a2] at htm; exact Option.some.inj htm
    subst he
    obtain ⟨hst, hact⟩ := pend_enter (d := P.d) ({} : Oracle) hq1 a1
    have hfx : Fx P.d P.R G p (s.node p).st (step P.d {} (s.node p).st .timeout).1
        (step P.d {} (s.node p).st .timeout).2 tRoundChange := by
      rw [hst]; exact fx_enter a1.rho a1.mid hp (hy.rcok p hp) a1.rc
    have hta := hy.ta s.now a3 a4
    apply rinv_act hy.nodup h hp {} .timeout s.net [] tRoundChange (fun _ hpk => hpk)
      (fun q _ => by simp) hfx
    · -- the member's new state
      have hl0 : lookup G.ρ (s.node p).firsts = none := a6 G.ρ (Nat.le_refl _)
      have harm : armAll P.arm s.now ((s.node p).timer, (s.node p).firsts)
          (step P.d {} (s.node p).st .timeout).2 =
          (some (max s.now (P.arm none s.now G.ρ)), (G.ρ, P.arm none s.now G.ρ) :: (s.node p).firsts) := by
        rw [hst]
        simp [armAll, armStep, hl0]
      refine .act (max s.now (P.arm none s.now G.ρ)) (P.arm none s.now G.ρ) ?_ ?_ a3 ?_ ?_ ?_ ?_ hta.1 ?_
      · simpa [updNode] using hact
      · show Quiet ((s.node p).outs ++ (step P.d {} (s.node p).st .timeout).2)
        rw [hst]; exact Quiet.append a7 ⟨rfl, rfl⟩
      · show (armAll P.arm s.now ((s.node p).timer, (s.node p).firsts) _).1 = _
        rw [harm]
      · have := hta.1; omega
      · intro _
        have := hta.2; have := hy.win; omega
      · show lookup G.ρ (armAll P.arm s.now ((s.node p).timer, (s.node p).firsts) _).2 = _
        rw [harm]; simp [lookup]
      · intro r hr
        show lookup r (armAll P.arm s.now ((s.node p).timer, (s.node p).firsts) _).2 = _
        rw [harm]
        simp only [lookup]
        rw [if_neg (by omega)]
        exact a6 r (by omega)
    · intro _
      exact ⟨a3, fun _ => by simp [kindIdx]; omega⟩
    · intro hc; simp [tRoundChange, tDecided] at hc
    · intro hc; exact absurd a1.mid.qc hc
    · intro hc; exact absurd hact.mid.qc hc
    · intro h1 h2; rw [hfx.same (Or.inr (Or.inr (Or.inl rfl))) (by decide)] at h1; rw [h1] at h2; cases h2
    · intro h1 h2; rw [hfx.same (Or.inr (Or.inl rfl)) (by decide)] at h1; rw [h1] at h2; cases h2

theorem decidedOnce_append_quiet {v r : Nat} {a b : List Out} (ha : decidedOnce v r a = true) (hb : Quiet b) :
    decidedOnce v r (a ++ b) = true := by
  unfold decidedOnce at *
  rw [List.filter_append, hb.2, List.append_nil]
  exact ha

theorem noFault_append {a b : List Out} (ha : noFault a = true) (hb : noFault b = true) :
    noFault (a ++ b) = true := by
  unfold noFault at *
  rw [List.all_append, ha, hb]; rfl

theorem decidedOnce_of_quiet {v r : Nat} {a : List Out} (ha : Quiet a) (rule : Nat) (J : List Core) :
    decidedOnce v r (a ++ [.rule rule r, .stopTimer, .decide v r J]) = true ∧
    noFault (a ++ [.rule rule r, .stopTimer, .decide v r J]) = true := by
  constructor
  · unfold decidedOnce
    rw [List.filter_append, ha.2]
    simp [List.filter, Out.isDecide]
  · exact noFault_append ha.1 rfl

theorem sentB_commit {G : Rd} {s : NodeState} (h : sentB G tCommit s = true) :
    (uQuorumPrepares, G.ρ) ∈ s.dedup := by
  simp [sentB, tCommit, tRoundChange, tPrePrepare, tPrepare] at h
  exact h.2

theorem sentB_pp_false {G : Rd} {s : NodeState} (hρ : 2 ≤ G.ρ) (hr : s.round = G.ρ) (hp : s.proc = G.l)
    (h : (uQuorumRoundChanges, G.ρ) ∉ s.dedup) : sentB G tPrePrepare s = false := by
  have hne1 : ¬ G.ρ = 1 := by omega
  simp [sentB, tRoundChange, tPrePrepare, hr, hp, h, hne1]

/-! ### Reading the flags -/

theorem sentB_rc_iff {G : Rd} {s : NodeState} :
    sentB G tRoundChange s = true ↔ s.round = G.ρ ∧ G.ρ ≠ 1 := by
  simp [sentB]

theorem sentB_pp_iff {G : Rd} {s : NodeState} (hρ : G.ρ ≠ 1) :
    sentB G tPrePrepare s = true ↔ s.round = G.ρ ∧ s.proc = G.l ∧ (uQuorumRoundChanges, G.ρ) ∈ s.dedup := by
  simp [sentB, tRoundChange, tPrePrepare, hρ]

theorem sentB_pp_iff1 {G : Rd} {s : NodeState} (hρ : G.ρ = 1) :
    sentB G tPrePrepare s = true ↔ s.round = G.ρ ∧ s.proc = G.l ∧ s.inputValue ≠ 0 := by
  simp [sentB, tRoundChange, tPrePrepare, hρ]

theorem sentB_pp_proc {G : Rd} {s : NodeState} (h : sentB G tPrePrepare s = true) : s.proc = G.l := by
  simp [sentB, tRoundChange, tPrePrepare] at h
  exact h.2.1

theorem sentB_prep_iff {G : Rd} {s : NodeState} :
    sentB G tPrepare s = true ↔ s.round = G.ρ ∧ (uJustifiedPrePrepare, G.ρ) ∈ s.dedup := by
  simp [sentB, tRoundChange, tPrePrepare, tPrepare]

theorem sentB_commit_iff {G : Rd} {s : NodeState} :
    sentB G tCommit s = true ↔ s.round = G.ρ ∧ (uQuorumPrepares, G.ρ) ∈ s.dedup := by
  simp [sentB, tRoundChange, tPrePrepare, tPrepare, tCommit]


/-- **A packet is delivered.** -/
theorem rinv_deliver {P : TParams} {G : Rd} {T : Tm} {s : TState} (hy : Hyp P G T) (h : RInv P G T s)
    (hfired : ∃ m ∈ s.log, IsPPm P.d P.R G m)
    {k : Nat} (o : Oracle) {pk : Packet} (hk : s.net[k]? = some pk) (hlo : pk.sent + P.lo < s.now) :
    RInv P G T (actNode P s pk.dst o [.recv pk.msg .ok] (s.net.eraseIdx k) [pk.msg]) := by
  have hq1 := quorum_pos P.d hy.n1
  obtain ⟨hpk, hnet0, hflq⟩ := deliver_ctx hk
  obtain ⟨dst, msg, sent⟩ := pk
  simp only at hlo hflq ⊢
  obtain ⟨hdst, hnow, hE, hround, hbound⟩ := h.net_ok _ hpk
  simp only at hdst hnow hE hround hbound
  have hinfl : msg ∈ inflight dst s.net := mem_inflight.mpr ⟨_, hpk, rfl, rfl⟩
  have hlog := mem_log_of_inflight h hdst hinfl
  have hshape := h.shape msg hlog
  have hEnow : T.E ≤ s.now := by omega
  have hwin := hy.win
  cases h.mem dst hdst with
  | pend e a1 a2 a3 a4 a5 a6 a7 =>
    have := hy.lo
    omega
  | dcd a1 a2 a3 a4 a5 =>
    obtain ⟨hd', hdd, _, houts⟩ := dcd_recv (d := P.d) o msg a1
    have hfx := fx_dcd (R := P.R) o msg hdst a1
    have harm : armAll P.arm s.now ((s.node dst).timer, (s.node dst).firsts)
        (step P.d o (s.node dst).st (.recv msg .ok)).2 = ((s.node dst).timer, (s.node dst).firsts) := by
      rcases houts with ho | ⟨_, ho⟩ <;> rw [ho] <;> rfl
    have hquiet : Quiet (step P.d o (s.node dst).st (.recv msg .ok)).2 := by
      rcases houts with ho | ⟨_, ho⟩ <;> rw [ho] <;> exact ⟨rfl, rfl⟩
    apply rinv_act hy.nodup h hdst o (.recv msg .ok) (s.net.eraseIdx k) [msg] tDecided hnet0
      (fun q _ => hflq q) hfx
    · refine .dcd hd' ?_ (decidedOnce_append_quiet a3 hquiet) (noFault_append a4 hquiet.1) a5
      show (armAll P.arm s.now ((s.node dst).timer, (s.node dst).firsts) _).1 = none
      rw [harm]; exact a2
    · intro _; exact ⟨a5, fun hc => absurd rfl hc⟩
    · intro _ _; exact hd'.done.qc
    · intro _; exact hd'.done.qc
    · intro _ hc; exact absurd hc a1.done.qc
    · intro h1 h2; rw [hfx.same (Or.inr (Or.inr (Or.inl rfl))) (by decide)] at h1; rw [h1] at h2; cases h2
    · intro h1 h2; rw [hfx.same (Or.inr (Or.inl rfl)) (by decide)] at h1; rw [h1] at h2; cases h2
  | act dl fd a1 a2 a3 a4 a5 a6 a7 a8 a9 =>
    -- the member decides (on the quorum of COMMITs or on a DECIDED)
    have hdecide : ∀ (hD : Decides P.d G (s.node dst).st msg (step P.d o (s.node dst).st (.recv msg .ok)))
        (_ : Dcd P.d G dst (step P.d o (s.node dst).st (.recv msg .ok)).1)
        (_ : P.d.quorum ≤ (P.R.filter (fun a => sentB G tCommit (s.node a).st)).length),
        RInv P G T (actNode P s dst o [.recv msg .ok] (s.net.eraseIdx k) [msg]) := by
      intro hD hdcd hquo
      have hfx := fx_decides (R := P.R) (p := dst) hD tDecided
      obtain ⟨rule, J, hrule, hr⟩ := hD
      have htw : twires dst (step P.d o (s.node dst).st (.recv msg .ok)).2 = [] := by rw [hr]; rfl
      apply rinv_act hy.nodup h hdst o (.recv msg .ok) (s.net.eraseIdx k) [msg] tDecided hnet0
        (fun q _ => hflq q) hfx
      · have hdo := decidedOnce_of_quiet (v := G.v) (r := G.ρ) a2 rule J
        refine .dcd hdcd ?_ ?_ ?_ a3
        · show (armAll P.arm s.now ((s.node dst).timer, (s.node dst).firsts) _).1 = none
          rw [hr]; rfl
        · show decidedOnce G.v G.ρ ((s.node dst).outs ++ _) = true
          rw [hr]; exact hdo.1
        · show noFault ((s.node dst).outs ++ _) = true
          rw [hr]; exact hdo.2
      · intro hc; exact absurd htw hc
      · intro _ hc; exact absurd htw hc
      · intro _; exact hdcd.done.qc
      · intro _ _; exact hquo
      · intro h1 h2; rw [hfx.same (Or.inr (Or.inr (Or.inl rfl))) (by decide)] at h1; rw [h1] at h2; cases h2
      · intro h1 h2; rw [hfx.same (Or.inr (Or.inl rfl)) (by decide)] at h1; rw [h1] at h2; cases h2
    -- the member stays undecided and does not touch its timer
    have hstay : ∀ (nxt : Nat)
        (_ : Act P.d G P.inp dst (step P.d o (s.node dst).st (.recv msg .ok)).1 (G.pre dst ++ ((s.node dst).rcvd ++ [msg])))
        (hfx : Fx P.d P.R G dst (s.node dst).st (step P.d o (s.node dst).st (.recv msg .ok)).1
          (step P.d o (s.node dst).st (.recv msg .ok)).2 nxt)
        (_ : armAll P.arm s.now ((s.node dst).timer, (s.node dst).firsts)
          (step P.d o (s.node dst).st (.recv msg .ok)).2 = ((s.node dst).timer, (s.node dst).firsts))
        (_ : Quiet (step P.d o (s.node dst).st (.recv msg .ok)).2)
        (_ : msg.core.typ ≠ tPrePrepare)
        (_ : nxt ≠ tDecided ∧ (twires dst (step P.d o (s.node dst).st (.recv msg .ok)).2 ≠ [] →
          s.now ≤ T.E + T.σ + kindIdx nxt * P.hi))
        (_ : sentB G tCommit (step P.d o (s.node dst).st (.recv msg .ok)).1 = true →
          sentB G tCommit (s.node dst).st = false →
          P.d.quorum ≤ (P.R.filter (fun a => sentB G tPrepare (s.node a).st)).length)
        (_ : sentB G tPrepare (step P.d o (s.node dst).st (.recv msg .ok)).1 = true →
          sentB G tPrepare (s.node dst).st = false → G.l ∈ P.R ∧ sentB G tPrePrepare (s.node G.l).st = true),
        RInv P G T (actNode P s dst o [.recv msg .ok] (s.net.eraseIdx k) [msg]) := by
      intro nxt hact' hfx harm hquiet hnpp hnx hj2 hj3
      apply rinv_act hy.nodup h hdst o (.recv msg .ok) (s.net.eraseIdx k) [msg] nxt hnet0
        (fun q _ => hflq q) hfx
      · refine .act dl fd hact' (Quiet.append a2 hquiet) a3 ?_ a5 ?_ ?_ a8 ?_
        · show (armAll P.arm s.now ((s.node dst).timer, (s.node dst).firsts) _).1 = _
          rw [harm]; exact a4
        · intro hnil
          apply a6
          have hnil' : srcsOf tPrePrepare G.ρ ((s.node dst).rcvd ++ [msg]) = [] := hnil
          rw [srcsOf_snoc, if_neg (fun hc => hnpp hc.1)] at hnil'
          simpa using hnil'
        · show lookup G.ρ (armAll P.arm s.now ((s.node dst).timer, (s.node dst).firsts) _).2 = _
          rw [harm]; exact a7
        · intro r hr
          show lookup r (armAll P.arm s.now ((s.node dst).timer, (s.node dst).firsts) _).2 = _
          rw [harm]; exact a9 r hr
      · intro hne; exact ⟨hEnow, fun _ => hnx.2 hne⟩
      · intro hc; exact absurd hc hnx.1
      · intro hc; exact absurd a1.mid.qc hc
      · intro hc; exact absurd hact'.mid.qc hc
      · exact hj2
      · exact hj3
    by_cases hdt : msg.core.typ = tDecided
    · -- a DECIDED
      have hm : IsDecm P.d G msg := by
        cases hshape with
        | old m' hm' => exact absurd hdt hm'.2
        | rc a ha hok => rw [hok.typ] at hdt; exact absurd hdt (by decide)
        | pp m' hm' _ => rw [hm'.1] at hdt; simp [tPrePrepare, tDecided] at hdt
        | prep a ha => simp [prepMsg, tPrepare, tDecided] at hdt
        | commit a ha => simp [commitMsg, tCommit, tDecided] at hdt
        | dec m' hm' _ => exact hm'
      obtain ⟨hD, hdcd⟩ := act_recv_decided (d := P.d) o hq1 a1 hm
      exact hdecide hD hdcd (h.j1 ⟨msg.core.src, hshape.src_mem hround, h.decs msg hlog hdt⟩)
    · have hloc := locHyp_of hy h hdst a1.noDec hinfl hdt
      have hLlog : ∀ x ∈ (s.node dst).rcvd ++ [msg], x ∈ s.log := by
        intro x hx
        rcases List.mem_append.mp hx with hx | hx
        · exact mem_log_of_rcvd h hdst hx
        · simp only [List.mem_singleton] at hx; subst hx; exact hlog
      have hb := hbound hdt
      cases hshape with
      | old m' hm' => have := hm'.1 _ List.mem_cons_self; omega
      | dec m' hm' _ => exact absurd hm'.1 hdt
      | rc a ha hok =>
        have hfl : G.l = dst → (uQuorumRoundChanges, G.ρ) ∈ (s.node dst).st.dedup := by
          intro hl
          have hc := h.counts G.l (hl ▸ hdst) tPrePrepare (Or.inl rfl)
          obtain ⟨mp, hmp, hpp⟩ := hfired
          have hpos : 0 < s.log.countP (isKind tPrePrepare G.ρ G.l) := by
            rw [List.countP_pos_iff]
            exact ⟨mp, hmp, by simp [isKind, hpp.1]⟩
          have hsb : sentB G tPrePrepare (s.node G.l).st = true := by
            cases hb : sentB G tPrePrepare (s.node G.l).st with
            | true => rfl
            | false => rw [hb, if_neg (by decide)] at hc; omega
          rw [hl] at hsb
          have hne1 : G.ρ ≠ 1 := by have := hy.rho; omega
          exact ((sentB_pp_iff hne1).mp hsb).2.2
        obtain ⟨hact', hb'⟩ := act_recv_rc (d := P.d) o hq1 hy.lead a1 hloc ha hok hfl
        rw [List.append_assoc] at hact'
        have hfx : Fx P.d P.R G dst (s.node dst).st (step P.d o (s.node dst).st (.recv (G.rc a) .ok)).1
            (step P.d o (s.node dst).st (.recv (G.rc a) .ok)).2 tPrePrepare := fx_buffered hb' _
        refine hstay tPrePrepare hact' hfx (by rw [hb']; rfl) (by rw [hb']; exact ⟨rfl, rfl⟩)
          (by rw [hok.typ]; decide) ⟨by decide, fun hne => ?_⟩ ?_ ?_
        · exfalso; apply hne; rw [hb']; rfl
        · intro h1 h2
          have : sentB G tCommit (step P.d o (s.node dst).st (.recv (G.rc a) .ok)).1 =
              sentB G tCommit (s.node dst).st := by rw [hb']; rfl
          rw [this, h2] at h1; cases h1
        · intro h1 h2
          have : sentB G tPrepare (step P.d o (s.node dst).st (.recv (G.rc a) .ok)).1 =
              sentB G tPrepare (s.node dst).st := by rw [hb']; rfl
          rw [this, h2] at h1; cases h1
      | pp m' hm' hlR =>
        obtain ⟨hact', hst, hdd⟩ := act_recv_pp (d := P.d) o a1 hloc hm'
        rw [List.append_assoc] at hact'
        have hfx : Fx P.d P.R G dst (s.node dst).st (step P.d o (s.node dst).st (.recv msg .ok)).1
            (step P.d o (s.node dst).st (.recv msg .ok)).2 tPrepare := by
          rw [hst]; exact fx_pp a1.mid hdst hdd
        have htyp : msg.core.typ = tPrePrepare := by rw [hm'.1]
        have hsrc : msg.core.src = G.l := by rw [hm'.1]
        have harm : armAll P.arm s.now ((s.node dst).timer, (s.node dst).firsts)
            (step P.d o (s.node dst).st (.recv msg .ok)).2 =
            (some (max s.now (P.arm (some fd) s.now G.ρ)), (s.node dst).firsts) := by
          rw [hst]
          simp [armAll, armStep, a7]
        have htb := hy.tb fd s.now a8 hEnow
        apply rinv_act hy.nodup h hdst o (.recv msg .ok) (s.net.eraseIdx k) [msg] tPrepare hnet0
          (fun q _ => hflq q) hfx
        · refine .act (max s.now (P.arm (some fd) s.now G.ρ)) fd hact' ?_ a3 ?_ (by omega) ?_ ?_ a8 ?_
          · show Quiet ((s.node dst).outs ++ _)
            rw [hst]; exact Quiet.append a2 ⟨rfl, rfl⟩
          · show (armAll P.arm s.now ((s.node dst).timer, (s.node dst).firsts) _).1 = _
            rw [harm]
          · intro hnil
            exfalso
            have hnil' : srcsOf tPrePrepare G.ρ ((s.node dst).rcvd ++ [msg]) = [] := hnil
            rw [srcsOf_snoc, if_pos ⟨htyp, hround⟩] at hnil'
            simp at hnil'
          · show lookup G.ρ (armAll P.arm s.now ((s.node dst).timer, (s.node dst).firsts) _).2 = _
            rw [harm]; exact a7
          · intro r hr
            show lookup r (armAll P.arm s.now ((s.node dst).timer, (s.node dst).firsts) _).2 = _
            rw [harm]; exact a9 r hr
        · intro _
          refine ⟨hEnow, fun _ => ?_⟩
          rw [htyp] at hb
          simp [kindIdx, tRoundChange, tPrePrepare, tPrepare] at hb ⊢; omega
        · intro hc; simp [tPrepare, tDecided] at hc
        · intro hc; exact absurd a1.mid.qc hc
        · intro hc; exact absurd hact'.mid.qc hc
        · intro h1 h2; rw [hfx.same (Or.inr (Or.inr (Or.inl rfl))) (by decide)] at h1; rw [h1] at h2; cases h2
        · intro _ _
          have := sent_of_log h hlog (by rw [htyp]; exact Or.inl rfl) hround
          rw [htyp, hsrc] at this
          exact this
      | prep a ha =>
        obtain ⟨hact', hout⟩ := act_recv_prepare (d := P.d) o a1 hloc
        rw [List.append_assoc] at hact'
        have hfx : Fx P.d P.R G dst (s.node dst).st (step P.d o (s.node dst).st (.recv (prepMsg G.ρ G.v a) .ok)).1
            (step P.d o (s.node dst).st (.recv (prepMsg G.ρ G.v a) .ok)).2 tCommit := by
          rcases hout with hb' | hpr
          · exact fx_buffered hb' _
          · exact fx_prepared a1.mid hdst hpr
        have harm : armAll P.arm s.now ((s.node dst).timer, (s.node dst).firsts)
            (step P.d o (s.node dst).st (.recv (prepMsg G.ρ G.v a) .ok)).2 =
            ((s.node dst).timer, (s.node dst).firsts) := by
          rcases hout with hb' | ⟨_, J, hr⟩
          · rw [hb']; rfl
          · rw [hr]; rfl
        have hquiet : Quiet (step P.d o (s.node dst).st (.recv (prepMsg G.ρ G.v a) .ok)).2 := by
          rcases hout with hb' | ⟨_, J, hr⟩
          · rw [hb']; exact ⟨rfl, rfl⟩
          · rw [hr]; exact ⟨rfl, rfl⟩
        refine hstay tCommit hact' hfx harm hquiet (by simp [prepMsg, tPrepare, tPrePrepare])
          ⟨by decide, fun _ => ?_⟩ ?_ ?_
        · simp [kindIdx, prepMsg, tRoundChange, tPrepare, tCommit] at hb ⊢; omega
        · intro h1 _
          have hq := hact'.qp.mp (sentB_commit h1)
          rw [srcsOf_pre hy hdst] at hq
          exact quorum_of_srcs h hLlog (Or.inr (Or.inl rfl)) (by have := hloc.nodup _ (Or.inr (Or.inl rfl)); rwa [List.append_assoc, srcsOf_pre hy hdst] at this) hq
        · intro h1 h2; rw [hfx.same (Or.inr (Or.inl rfl)) (by decide)] at h1; rw [h1] at h2; cases h2
      | commit a ha =>
        rcases act_recv_commit (d := P.d) o a1 hloc with ⟨hb', hact'⟩ | ⟨hD, hdcd, hquo⟩
        · rw [List.append_assoc] at hact'
          have hfx : Fx P.d P.R G dst (s.node dst).st
              (step P.d o (s.node dst).st (.recv (commitMsg G.ρ G.v a) .ok)).1
              (step P.d o (s.node dst).st (.recv (commitMsg G.ρ G.v a) .ok)).2 tCommit := fx_buffered hb' _
          refine hstay tCommit hact' hfx (by rw [hb']; rfl) (by rw [hb']; exact ⟨rfl, rfl⟩)
            (by simp [commitMsg, tCommit, tPrePrepare]) ⟨by decide, fun hne => ?_⟩ ?_ ?_
          · exfalso; apply hne; rw [hb']; rfl
          · intro h1 h2
            have : sentB G tCommit (step P.d o (s.node dst).st (.recv (commitMsg G.ρ G.v a) .ok)).1 =
                sentB G tCommit (s.node dst).st := by rw [hb']; rfl
            rw [this, h2] at h1; cases h1
          · intro h1 h2
            have : sentB G tPrepare (step P.d o (s.node dst).st (.recv (commitMsg G.ρ G.v a) .ok)).1 =
                sentB G tPrepare (s.node dst).st := by rw [hb']; rfl
            rw [this, h2] at h1; cases h1
        · exact hdecide hD hdcd
            (quorum_of_srcs h hLlog (Or.inr (Or.inr (Or.inl rfl))) (by have := hloc.nodup _ (Or.inr (Or.inr (Or.inl rfl))); rwa [List.append_assoc, srcsOf_pre hy hdst] at this) (by rwa [List.append_assoc, srcsOf_pre hy hdst] at hquo))

/-- **Every enabled action preserves the invariant of the round**, except a round timer firing at
a member that is already in the round (the round is over for that member: `rinv_next`). -/
theorem rinv_step {P : TParams} {G : Rd} {T : Tm} {s s' : TState} (hy : Hyp P G T) (h : RInv P G T s)
    (hfired : ∃ m ∈ s.log, IsPPm P.d P.R G m) (a : TAct) (hs : tstep P s a = some s')
    (hnf : ∀ p, a = .fire p → (s.node p).st.round ≠ G.ρ) : RInv P G T s' := by
  cases a with
  | tick dt =>
    simp only [tstep] at hs
    split at hs
    · rename_i hc
      cases hs
      exact rinv_tick h dt hc
    · cases hs
  | deliver k o =>
    simp only [tstep] at hs
    split at hs
    · cases hs
    · rename_i pk hk
      split at hs
      · rename_i hlo
        cases hs
        exact rinv_deliver hy h hfired o hk hlo
      · cases hs
  | fire p =>
    simp only [tstep] at hs
    split at hs
    · rename_i hc
      cases hs
      exact rinv_fire hy h hc.1 hc.2 (hnf p rfl)
    · cases hs
  | start p =>
    simp only [tstep] at hs
    split at hs
    · rename_i hc
      have := started_of_mem (h.mem p hc.1)
      rw [hc.2] at this
      cases this
    · cases hs


theorem filter_pos_exists {R : List Nat} {f : Nat → Bool} (h : 1 ≤ (R.filter f).length) :
    ∃ a ∈ R, f a = true := by
  cases hf : R.filter f with
  | nil => rw [hf] at h; simp at h
  | cons a as =>
    have : a ∈ R.filter f := by rw [hf]; exact List.mem_cons_self
    exact ⟨a, (List.mem_filter.mp this).1, (List.mem_filter.mp this).2⟩

/-- somebody decided ⇒ the whole causal chain: quorums of COMMITs and PREPAREs were sent, the
leader proposed. -/
theorem chain_of_decided {P : TParams} {G : Rd} {T : Tm} {s : TState} (hq1 : 1 ≤ P.d.quorum)
    (h : RInv P G T s) (hex : ∃ p ∈ P.R, (s.node p).st.qCommit ≠ []) :
    P.d.quorum ≤ (P.R.filter (fun a => sentB G tCommit (s.node a).st)).length ∧
    P.d.quorum ≤ (P.R.filter (fun a => sentB G tPrepare (s.node a).st)).length ∧
    G.l ∈ P.R ∧ sentB G tPrePrepare (s.node G.l).st = true := by
  have h1 := h.j1 hex
  have h2 := h.j2 (filter_pos_exists (Nat.le_trans hq1 h1))
  have h3 := h.j3 (filter_pos_exists (Nat.le_trans hq1 h2))
  exact ⟨h1, h2, h3⟩

/-- **Liveness of a round whose leader runs.** Once more than `σ + 4·hi` have passed since the first
entry into the round, every running member has decided: all packets of the four once-only kinds have
been delivered by then, and the thresholds follow one from the other. -/
theorem live {P : TParams} {G : Rd} {T : Tm} {s : TState} (hy : Hyp P G T) (hl : G.l ∈ P.R)
    (hquo : P.d.quorum ≤ P.R.length) (h : RInv P G T s) (hnow : T.E + T.σ + 4 * P.hi < s.now) :
    ∀ p ∈ P.R, (s.node p).st.qCommit ≠ [] := by
  have hq1 := quorum_pos P.d hy.n1
  -- nobody is pending any more
  have hnp : ∀ p ∈ P.R, (s.node p).st.round = G.ρ := by
    intro p hp
    cases h.mem p hp with
    | pend e a1 a2 a3 a4 a5 => omega
    | act dl fd a1 => exact a1.mid.round
    | dcd a1 => exact a1.round
  -- everything of the four kinds has been delivered
  have hnet : ∀ pk ∈ s.net, pk.msg.core.typ = tDecided := by
    intro pk hpk
    obtain ⟨hdst, h2, h3, h4, h5⟩ := h.net_ok pk hpk
    apply Classical.byContradiction
    intro hnd
    have hb := h5 hnd
    have hsh := h.shape pk.msg (mem_log_of_inflight h hdst (mem_inflight.mpr ⟨pk, hpk, rfl, rfl⟩))
    have hk : kindIdx pk.msg.core.typ ≤ 3 := by
      rcases hsh.typ_cases with hlt | ⟨_, hc | hc | hc | hc | hc⟩
      · omega
      all_goals (first | exact absurd hc hnd | (rw [hc]; decide))
    have : kindIdx pk.msg.core.typ * P.hi ≤ 3 * P.hi := Nat.mul_le_mul_right _ hk
    omega
  have hcnt : ∀ p ∈ P.R, ∀ K, Once K → ∀ a,
      (s.node p).rcvd.countP (isKind K G.ρ a) = s.log.countP (isKind K G.ρ a) := by
    intro p hp K hK a
    rw [← (h.perm p hp).countP_eq, List.countP_append]
    have : (inflight p s.net).countP (isKind K G.ρ a) = 0 := by
      rw [List.countP_eq_zero]
      intro m hm
      obtain ⟨pk, hpk, _, rfl⟩ := mem_inflight.mp hm
      have := hnet pk hpk
      simp only [isKind, Bool.and_eq_true, beq_iff_eq, not_and]
      intro hc
      rw [this] at hc
      rcases hK with rfl | rfl | rfl | rfl <;> simp [tDecided, tPrePrepare, tPrepare, tCommit, tRoundChange] at hc
    omega
  -- an undecided member has received the message of every member whose flag is set
  have hgot : ∀ p ∈ P.R, ∀ K, Once K →
      (P.R.filter (fun a => sentB G K (s.node a).st)).length ≤ (srcsOf K G.ρ (s.node p).rcvd).length := by
    intro p hp K hK
    apply nodup_subset_length _ _ (hy.nodup.filter _)
    intro a ha
    obtain ⟨haR, hfa⟩ := List.mem_filter.mp ha
    have h1 := h.counts a haR K hK
    rw [hfa] at h1
    have h2 := hcnt p hp K hK a
    have : 0 < (srcsOf K G.ρ (s.node p).rcvd).count a := by rw [count_srcsOf]; simp at h1; omega
    exact List.count_pos_iff.mp this
  -- if all flags of a kind are set at the undecided members, a quorum has them set
  have hflag : ∀ K, Once K →
      ((∃ p ∈ P.R, (s.node p).st.qCommit ≠ []) →
        P.d.quorum ≤ (P.R.filter (fun a => sentB G K (s.node a).st)).length) →
      (∀ p ∈ P.R, (s.node p).st.qCommit = [] → sentB G K (s.node p).st = true) →
      P.d.quorum ≤ (P.R.filter (fun a => sentB G K (s.node a).st)).length := by
    intro K _ hdec hall
    by_cases hex : ∃ p ∈ P.R, (s.node p).st.qCommit ≠ []
    · exact hdec hex
    · have : P.R.filter (fun a => sentB G K (s.node a).st) = P.R := by
        rw [List.filter_eq_self]
        intro a ha
        apply hall a ha
        apply Classical.byContradiction
        intro hc
        exact hex ⟨a, ha, hc⟩
      rw [this]; exact hquo
  apply Classical.byContradiction
  intro hneg
  have hex0 : ∃ p0 ∈ P.R, (s.node p0).st.qCommit = [] := by
    apply Classical.byContradiction
    intro hc
    apply hneg
    intro p hp hq
    exact hc ⟨p, hp, hq⟩
  obtain ⟨p0, hp0, hq0⟩ := hex0
  -- an undecided member is in the `act` state
  have hactOf : ∀ p ∈ P.R, (s.node p).st.qCommit = [] →
      Act P.d G P.inp p (s.node p).st (G.pre p ++ (s.node p).rcvd) := by
    intro p hp hq
    cases h.mem p hp with
    | pend e a1 a2 a3 a4 a5 => omega
    | act dl fd a1 => exact a1
    | dcd a1 => exact absurd hq a1.done.qc
  -- everybody has entered: a quorum of ROUND-CHANGEs reaches the leader (in round 1 it proposes at once)
  have hpp : sentB G tPrePrepare (s.node G.l).st = true := by
    by_cases hld : (s.node G.l).st.qCommit = []
    · have ha := hactOf G.l hl hld
      by_cases h1 : G.ρ = 1
      · refine (sentB_pp_iff1 h1).mpr ⟨ha.mid.round, ha.mid.proc, ?_⟩
        exfalso; have := hy.rho; omega
      · have hrcAll : P.R.filter (fun a => sentB G tRoundChange (s.node a).st) = P.R := by
          rw [List.filter_eq_self]
          intro a ha'
          exact sentB_rc_iff.mpr ⟨hnp a ha', h1⟩
        have := hgot G.l hl tRoundChange (Or.inr (Or.inr (Or.inr rfl)))
        rw [hrcAll] at this
        exact (sentB_pp_iff h1).mpr ⟨ha.mid.round, ha.mid.proc, ha.qrc.mpr ⟨rfl, by rw [srcsOf_pre hy hl]; omega⟩⟩
    · exact (chain_of_decided hq1 h ⟨G.l, hl, hld⟩).2.2.2
  -- hence every undecided member has received the PRE-PREPARE and sent its PREPARE
  have hprepAll : ∀ p ∈ P.R, (s.node p).st.qCommit = [] → sentB G tPrepare (s.node p).st = true := by
    intro p hp hq
    have ha := hactOf p hp hq
    have h1 := h.counts G.l hl tPrePrepare (Or.inl rfl)
    rw [hpp] at h1
    have h2 := hcnt p hp tPrePrepare (Or.inl rfl) G.l
    have : 0 < (srcsOf tPrePrepare G.ρ (s.node p).rcvd).count G.l := by rw [count_srcsOf]; simp at h1; omega
    have hne : srcsOf tPrePrepare G.ρ (s.node p).rcvd ≠ [] := by
      intro hc; rw [hc] at this; simp at this
    exact sentB_prep_iff.mpr ⟨ha.mid.round, ha.jpp.mpr (by rw [srcsOf_pre hy hp]; exact hne)⟩
  have hprepQ := hflag tPrepare (Or.inr (Or.inl rfl)) (fun hex => (chain_of_decided hq1 h hex).2.1) hprepAll
  -- hence every undecided member has a quorum of PREPAREs and sent its COMMIT
  have hcomAll : ∀ p ∈ P.R, (s.node p).st.qCommit = [] → sentB G tCommit (s.node p).st = true := by
    intro p hp hq
    have ha := hactOf p hp hq
    have := hgot p hp tPrepare (Or.inr (Or.inl rfl))
    exact sentB_commit_iff.mpr ⟨ha.mid.round, ha.qp.mpr (by rw [srcsOf_pre hy hp]; omega)⟩
  have hcomQ := hflag tCommit (Or.inr (Or.inr (Or.inl rfl))) (fun hex => (chain_of_decided hq1 h hex).1) hcomAll
  -- hence the undecided member `p0` has a quorum of COMMITs: contradiction
  have ha0 := hactOf p0 hp0 hq0
  have := hgot p0 hp0 tCommit (Or.inr (Or.inr (Or.inl rfl)))
  have := ha0.qcl
  rw [srcsOf_pre hy hp0] at this
  omega


/-! ### A round whose leader runs: nobody's round timer fires, everybody decides -/

theorem fire_not_act_good {P : TParams} {G : Rd} {T : Tm} {s : TState} (hy : Hyp P G T) (hl : G.l ∈ P.R)
    (hquo : P.d.quorum ≤ P.R.length) (hwin : T.E + T.σ + 4 * P.hi < T.E') (h : RInv P G T s)
    {p : Nat} (hp : p ∈ P.R) (htm : (s.node p).timer = some s.now) : (s.node p).st.round ≠ G.ρ := by
  cases h.mem p hp with
  | pend e a1 => rw [a1.mid.round]; have := a1.rho; omega
  | dcd a1 a2 => rw [a2] at htm; cases htm
  | act dl fd a1 a2 a3 a4 a5 =>
    exfalso
    rw [a4] at htm
    cases htm
    by_cases hlate : T.E + T.σ + 4 * P.hi < s.now
    · exact live hy hl hquo h hlate p hp a1.mid.qc
    · omega


theorem tstep_log_mono {P : TParams} {s s' : TState} {a : TAct} (h : tstep P s a = some s') :
    ∀ m ∈ s.log, m ∈ s'.log := by
  intro m hm
  cases a with
  | tick dt =>
    simp only [tstep] at h
    split at h
    · cases h; exact hm
    · cases h
  | deliver k o =>
    simp only [tstep] at h
    split at h
    · cases h
    · split at h
      · cases h; simp only [actNode]; exact List.mem_append_left _ hm
      · cases h
  | fire p =>
    simp only [tstep] at h
    split at h
    · cases h; simp only [actNode]; exact List.mem_append_left _ hm
    · cases h
  | start p =>
    simp only [tstep] at h
    split at h
    · cases h; simp only [actNode]; exact List.mem_append_left _ hm
    · cases h

/-- executions after the proposal stay inside the invariant. -/
theorem good_exec {P : TParams} {G : Rd} {T : Tm} (hy : Hyp P G T) (hl : G.l ∈ P.R)
    (hquo : P.d.quorum ≤ P.R.length) (hwin : T.E + T.σ + 4 * P.hi < T.E') (acts : List TAct) :
    ∀ {s s' : TState}, RInv P G T s → (∃ m ∈ s.log, IsPPm P.d P.R G m) → texec P s acts = some s' →
      RInv P G T s' := by
  induction acts with
  | nil => intro s s' h _ hs; simp only [texec] at hs; cases hs; exact h
  | cons a as ih =>
    intro s s' h hf hs
    simp only [texec] at hs
    split at hs
    · cases hs
    · rename_i s1 hs1
      obtain ⟨m, hm, hpp⟩ := hf
      apply ih _ ⟨m, tstep_log_mono hs1 m hm, hpp⟩ hs
      apply rinv_step hy h ⟨m, hm, hpp⟩ a hs1
      intro p hap
      subst hap
      simp only [tstep] at hs1
      split at hs1
      · rename_i hc
        exact fire_not_act_good hy hl hquo hwin h hc.1 hc.2
      · cases hs1

/-- what the invariant says about one member, as the property reads. -/
theorem outcome_of_rinv {P : TParams} {G : Rd} {T : Tm} {s : TState} (h : RInv P G T s) {p : Nat}
    (hp : p ∈ P.R) :
    noFault (s.node p).outs = true ∧ (s.node p).st.dead = false ∧
    ((s.node p).st.qCommit ≠ [] → GoodOutcome G.v G.ρ ((s.node p).st, (s.node p).outs)) ∧
    ((s.node p).st.qCommit = [] → (s.node p).outs.filter Out.isDecide = []) := by
  cases h.mem p hp with
  | pend e a1 a2 a3 a4 a5 a6 a7 =>
    exact ⟨a7.1, a1.mid.dead, fun hc => absurd a1.mid.qc hc, fun _ => a7.2⟩
  | act dl fd a1 a2 =>
    exact ⟨a2.1, a1.mid.dead, fun hc => absurd a1.mid.qc hc, fun _ => a2.2⟩
  | dcd a1 a2 a3 a4 =>
    exact ⟨a4, a1.done.dead, fun _ => ⟨a1.done.dead, a1.done.qc, a1.done.qcv, a3, a4⟩,
      fun hc => absurd hc a1.done.qc⟩


end TP
/-! ### The ROUND-CHANGE stage with the history variables tracked -/

section Hist
variable {P : TParams} {timeout : Nat → Nat} {X : PRd} {C : Nat → NodeState} {old : Nat → List Msg}

/-- `S1` plus the history variables: what was delivered to `p` during the stage are the
ROUND-CHANGEs of `T p`, what was broadcast are the ROUND-CHANGEs of the members that entered. -/
structure S1H (P : TParams) (timeout : Nat → Nat) (X : PRd) (C : Nat → NodeState)
    (old : Nat → List Msg) (s : TState) (T : Nat → List Nat) : Prop where
  base : S1 P timeout X C old s T
  rc : ∀ p ∈ P.R, (s.node p).rcvd = (T p).map (rcsOf X.ρ C)
  lg : s.log.Perm ((P.R.filter (fun a => enteredB X.ρ (s.node a))).map (rcsOf X.ρ C))

theorem s1h_step {s s' : TState} {T : Nat → List Nat} (hy : PHyp P timeout X C old)
    (h : S1H P timeout X C old s T) (a : TAct) (hs : tstep P s a = some s')
    (hnf : ∀ p, a = .fire p → (s.node p).st.round ≠ X.ρ) :
    (∃ T', S1H P timeout X C old s' T') ∨ ∃ k o, a = .deliver k o ∧ Fires P X C s k o := by
  cases a with
  | tick dt =>
    simp only [tstep] at hs
    split at hs
    · rename_i hc
      cases hs
      exact Or.inl ⟨T, s1_tick h.base dt hc, h.rc, h.lg⟩
    · cases hs
  | deliver k o =>
    simp only [tstep] at hs
    split at hs
    · cases hs
    · rename_i pk hk
      split at hs
      · rename_i hlo
        cases hs
        rcases s1_deliver hy h.base o hk hlo with ⟨h1, hout⟩ | h'
        · left
          refine ⟨_, h1, ?_, ?_⟩
          · intro p hp
            rw [actNode_one]
            simp only
            by_cases hpd : p = pk.dst
            · subst hpd
              rw [if_pos rfl, if_pos rfl]
              simp only [updNode, List.map_append, List.map_cons, List.map_nil]
              rw [h.rc _ hp]
              have hpk : pk ∈ s.net := List.mem_of_getElem? hk
              rw [← (h.base.net_ok pk hpk).2.2.2.2]
            · rw [if_neg hpd, if_neg hpd]; exact h.rc p hp
          · have hlog : (actNode P s pk.dst o [.recv pk.msg .ok] (s.net.eraseIdx k) [pk.msg]).log = s.log := by
              rw [actNode_one]; simp only; rw [hout]; simp [twires]
            rw [hlog]
            have hpk : pk ∈ s.net := List.mem_of_getElem? hk
            have hdst := (h.base.net_ok pk hpk).1
            have hent : ∀ q ∈ P.R, enteredB X.ρ
                ((actNode P s pk.dst o [.recv pk.msg .ok] (s.net.eraseIdx k) [pk.msg]).node q) =
                enteredB X.ρ (s.node q) := by
              intro q _
              by_cases hq : q = pk.dst
              · subst hq
                have e1 : (s.node pk.dst).st.round = X.ρ := by
                  cases h.base.mem pk.dst hdst with
                  | pend e a1 a2 a3 a4 a5 a6 =>
                    have := hy.lo
                    have := (h.base.net_ok pk hpk).2.2.1
                    omega
                  | act dl a1 => exact a1.1.round
                have e2 : ((actNode P s pk.dst o [.recv pk.msg .ok] (s.net.eraseIdx k) [pk.msg]).node
                    pk.dst).st.round = X.ρ := by
                  cases h1.mem pk.dst hdst with
                  | pend e a1 a2 =>
                    rw [if_pos rfl] at a2
                    simp at a2
                  | act dl a1 => exact a1.1.round
                simp only [enteredB, e1, e2]
              · rw [actNode_one]; simp [hq]
            rw [filter_same hent]
            exact h.lg
        · exact Or.inr ⟨k, o, rfl, h'⟩
      · cases hs
  | fire p =>
    simp only [tstep] at hs
    split at hs
    · rename_i hc
      cases hs
      obtain ⟨h1, hlog, hround, hother, hrcvd⟩ := s1_fire hy h.base hc.1 hc.2 (hnf p rfl)
      left
      refine ⟨T, h1, ?_, ?_⟩
      · intro q hq
        by_cases hqp : q = p
        · subst hqp; rw [hrcvd]; exact h.rc q hq
        · rw [hother q hqp]; exact h.rc q hq
      · rw [hlog]
        have hgain : (P.R.filter (fun a => enteredB X.ρ ((actNode P s p {} [.timeout] s.net []).node a))).Perm
            (p :: P.R.filter (fun a => enteredB X.ρ (s.node a))) := by
          apply filter_gain hy.nodup hc.1
          · simpa [enteredB] using hnf p rfl
          · simpa [enteredB] using hround
          · intro a ha; simp only [enteredB]; rw [hother a ha]
        refine (List.perm_append_comm.trans ?_).trans (hgain.map _).symm
        simp only [List.map_cons, List.singleton_append]
        exact List.Perm.cons _ h.lg
    · cases hs
  | start p =>
    simp only [tstep] at hs
    split at hs
    · rename_i hc
      have := (h.base.mem p hc.1).started
      rw [hc.2] at this
      cases this
    · cases hs

theorem s1h_exec (hy : PHyp P timeout X C old) (hl : X.l ∈ P.R) (hq : P.d.quorum ≤ P.R.length)
    (hfit : X.σ + P.hi < timeout X.ρ) :
    ∀ (acts : List TAct) (s : TState) (T : Nat → List Nat), S1H P timeout X C old s T →
    ∀ s', texec P s acts = some s' →
      (∃ T', S1H P timeout X C old s' T') ∨
      ∃ a1 k o a2 s1 T1, acts = a1 ++ TAct.deliver k o :: a2 ∧ texec P s a1 = some s1 ∧
        S1H P timeout X C old s1 T1 ∧ Fires P X C s1 k o := by
  intro acts
  induction acts with
  | nil =>
    intro s T h s' hs
    simp only [texec] at hs; cases hs
    exact Or.inl ⟨T, h⟩
  | cons a as ih =>
    intro s T h s' hs
    simp only [texec] at hs
    split at hs
    · cases hs
    · rename_i s1 hs1
      have hnf : ∀ p, a = .fire p → (s.node p).st.round ≠ X.ρ := by
        intro p ha hr
        subst ha
        simp only [tstep] at hs1
        split at hs1
        · rename_i hc
          have hnow := s1_now_le hy h.base hl hq
          cases h.base.mem p hc.1 with
          | pend e a1 => have := a1.mid.round; have := hy.rho; omega
          | act dl a1 a2 a3 a4 a5 a6 a7 a8 a9 =>
            rw [a5] at hc
            have : dl = s.now := by injection hc.2
            omega
        · cases hs1
      rcases s1h_step hy h a hs1 hnf with ⟨T', h'⟩ | ⟨k, o, ha, hf⟩
      · rcases ih s1 T' h' s' hs with h2 | ⟨a1, k, o, a2, s2, T2, e1, e2, e3, e4⟩
        · exact Or.inl h2
        · refine Or.inr ⟨a :: a1, k, o, a2, s2, T2, by rw [e1]; rfl, ?_, e3, e4⟩
          simp only [texec, hs1]; exact e2
      · exact Or.inr ⟨[], k, o, as, s, T, by rw [ha]; rfl, rfl, h, hf⟩

end Hist

/-! ### The firing step in detail -/

/-- the leader's quorum-th ROUND-CHANGE: state, outputs and where the justification comes from. -/
theorem rc_fire_detail {d : Def} {r : Nat} {rcOf : Nat → Msg} {R0 : List Nat} {old : List Msg} {B : Nat}
    (hc : RCtx d r rcOf R0 old B) {iv p : Nat} {s0 : NodeState} {T : List Nat} {a : Nat}
    {s : NodeState} (o : Oracle) (hpre : ∃ U, (T ++ [a]) ++ U = R0)
    (hinv : InvR' d r iv p rcOf old s0 T s)
    (hf : d.leader r = p ∧ T.length + 1 = d.quorum) (hiv : iv ≠ 0) :
    ∃ J w, getJustifiedQrc d o.pqPerm (flatten o.srcOrd (bufferMsg d.fifo s.buffer (rcOf a))) r = some J ∧
      BufIs (bufferMsg d.fifo s.buffer (rcOf a)) (old ++ (T ++ [a]).map rcOf) ∧
      step d o s (.recv (rcOf a) .ok) =
        ({ s with buffer := bufferMsg d.fifo s.buffer (rcOf a),
                  dedup := (uQuorumRoundChanges, r) :: s.dedup },
         [.rule uQuorumRoundChanges r, .bcast tPrePrepare r w 0 0 J]) := by
  obtain ⟨hm, hb, h1, h2, h3, hcache, hin, hp3, hdd⟩ := hinv
  have hnd := nodup_of_prefix hc.nodup hpre
  obtain ⟨U, hU⟩ := hpre
  have hT' : ∀ x ∈ T ++ [a], x ∈ R0 := by
    intro x hx; rw [← hU]; exact List.mem_append_left _ hx
  have haR : a ∈ R0 := hT' a (by simp)
  have hrca := hc.rc a haR
  have hq1 := hc.qpos
  have hbuf : BufIs (bufferMsg d.fifo s.buffer (rcOf a)) (old ++ (T ++ [a]).map rcOf) := by
    have := bufIs_bufferMsg (fifo := d.fifo) (m := rcOf a) hb (by
      have h := filter_src_map_le_one (mk := fun x => if x ∈ T ++ [a] then rcOf x else rcMsg r x)
        (by intro q; split
            · rename_i hq; exact (hc.rc q (hT' q hq)).src
            · rfl) hnd (rcOf a).core.src
      have hmap : (T ++ [a]).map (fun x => if x ∈ T ++ [a] then rcOf x else rcMsg r x) =
          (T ++ [a]).map rcOf := by
        apply List.map_congr_left
        intro x hx; rw [if_pos hx]
      rw [hmap] at h
      have h2 := hc.oldLen (rcOf a).core.src
      have hf := hc.fifo
      simp only [List.map_append, List.map_cons, List.map_nil, List.filter_append,
        List.length_append] at h ⊢
      omega)
    simpa using this
  have hcnt : (filterRoundChange (flatten o.srcOrd (bufferMsg d.fifo s.buffer (rcOf a))) s.round).length
      = T.length + 1 := by
    rw [hm.round, hc.frc_length hT' hnd hbuf]; simp
  have hj := hrca.justified hq1 s.compareFailureRound
  have hlen : (T ++ [a]).length = T.length + 1 := by simp
  obtain ⟨J, hJ⟩ := hc.qrc_some (ord := o.srcOrd) hT' hnd hbuf (by rw [hlen]; omega) o.pqPerm
  have hJ' : getJustifiedQrc d o.pqPerm (flatten o.srcOrd (bufferMsg d.fifo s.buffer (rcOf a)))
      s.round = some J := by rw [hm.round]; exact hJ
  have hrr : (rcOf a).core.round = s.round := by rw [hrca.round, hm.round]
  have hnot : (uQuorumRoundChanges, (rcOf a).core.round) ∉ s.dedup := by
    rw [hrca.round]; intro h; have := (hdd.mp h).2; omega
  by_cases hcond : (getSingleJustifiedPrPv d J).2.2 = true ∧
      s.compareFailureRound ≠ (getSingleJustifiedPrPv d J).1
  · refine ⟨J, (getSingleJustifiedPrPv d J).2.1, hJ, hbuf, ?_⟩
    have hst := step_rc_fire (d := d) (o := o) (m := rcOf a) (J := J)
      (w := (getSingleJustifiedPrPv d J).2.1) hm.dead hm.started hm.qc hj hrca.typ hrr (by omega) hJ'
      (by rw [hm.round, hm.proc]; exact hf.1) hnot hcache (Or.inl ⟨hcond.1, hcond.2, rfl⟩)
    rw [hst, hrca.round, hm.round]
  · refine ⟨J, s.inputValue, hJ, hbuf, ?_⟩
    have hst := step_rc_fire (d := d) (o := o) (m := rcOf a) (J := J) (w := s.inputValue) hm.dead
      hm.started hm.qc hj hrca.typ hrr (by omega) hJ' (by rw [hm.round, hm.proc]; exact hf.1) hnot hcache
      (Or.inr ⟨hcond, by rw [hin]; exact hiv, rfl⟩)
    rw [hst, hrca.round, hm.round]

/-- the justification the leader picked has the form `TP.JOk`. -/
theorem jok_of_qrc {d : Def} {r : Nat} {rcOf : Nat → Msg} {R0 : List Nat} {old : List Msg} {B : Nat}
    (hc : RCtx d r rcOf R0 old B) {Q : List Nat} (hQ : ∀ a ∈ Q, a ∈ R0) {buf : List (Nat × List Msg)}
    (hb : BufIs buf (old ++ Q.map rcOf)) {ord : List Nat} {k : Nat} {J : List Core}
    (hJ : getJustifiedQrc d k (flatten ord buf) r = some J) (R : List Nat) (hR : ∀ a ∈ R0, a ∈ R)
    (G : TP.Rd) (hρ : G.ρ = r) (hrc : G.rc = rcOf) :
    TP.JOk d R G J := by
  subst hρ
  subst hrc
  have hsub := getJustifiedQrc_sub hJ
  have hcore : ∀ c ∈ J, c.typ = tRoundChange → c.round = G.ρ →
      ∃ a ∈ R, RcOk d G.ρ (G.rc a) a ∧ c = (G.rc a).core := by
    intro c hcJ ht hr
    have hca := (mem_flatten_bufIs hb c).mp (hsub c hcJ)
    rw [coresOf_append] at hca
    rcases List.mem_append.mp hca with h | h
    · have := (hc.oldRound c h).1; omega
    · obtain ⟨x, hx, hcx⟩ := mem_coresOf.mp h
      obtain ⟨b, hbQ, rfl⟩ := List.mem_map.mp hx
      have hok := hc.rc b (hQ b hbQ)
      rcases hcx with h' | h'
      · exact ⟨b, hR b (hQ b hbQ), hok, h'⟩
      · have := (hok.just_prepare c h').1
        rw [ht] at this; exact absurd this (by decide)
  refine ⟨hcore, ?_⟩
  rcases getJustifiedQrc_shape hJ with ⟨hj1, _⟩ | ⟨p0, ps, qrc, hj2, hpq, hqrc, hlen2, hany⟩
  · left
    intro c hcJ _ _
    rw [hj1] at hcJ
    have := filterMsgs_sound hcJ
    exact ⟨this.2.2.2.2.1 0 rfl, this.2.2.2.2.2 0 rfl⟩
  · right
    obtain ⟨hndp, hplen, r0, v0, hpall⟩ := getPrepareQuorums_ok hpq
    have hp0 := hpall p0 List.mem_cons_self
    refine ⟨p0.round, p0.value, (p0 :: ps).map (·.src), ?_, ?_, hndp, by simpa using hplen, ?_⟩
    · intro c hcJ ht _
      rw [hj2] at hcJ
      rcases List.mem_append.mp hcJ with h | h
      · rw [hqrc] at h
        simpa using (List.mem_filter.mp h).2
      · have := (hpall c h).1
        rw [ht] at this; exact absurd this (by decide)
    · obtain ⟨c0, hc0, hceq⟩ := List.any_eq_true.mp hany
      simp only [Bool.and_eq_true, beq_iff_eq] at hceq
      have hc0f : c0 ∈ filterRoundChange (flatten ord buf) G.ρ := by
        rw [hqrc] at hc0; exact (List.mem_filter.mp hc0).1
      have hs0 := filterMsgs_sound hc0f
      exact ⟨c0, by rw [hj2]; exact List.mem_append_left _ hc0, hs0.2.1, hs0.2.2.1, hceq.1, hceq.2⟩
    · intro s' hs'
      obtain ⟨x, hx, rfl⟩ := List.mem_map.mp hs'
      have := hpall x hx
      exact ⟨x, by rw [hj2]; exact List.mem_append_right _ hx, this.1, by rw [this.2.1, hp0.2.1],
        by rw [this.2.2, hp0.2.2], rfl⟩

/-! ### From the ROUND-CHANGE stage to the invariant of the whole round -/

theorem countP_rcs (ρ : Nat) (C : Nat → NodeState) (K a : Nat) :
    ∀ (L : List Nat), L.Nodup →
      (L.map (rcsOf ρ C)).countP (isKind K ρ a) = if K = tRoundChange ∧ a ∈ L then 1 else 0 := by
  intro L
  induction L with
  | nil => intro _; simp
  | cons b bs ih =>
    intro hnd
    simp only [List.nodup_cons] at hnd
    rw [List.map_cons, List.countP_cons, ih hnd.2]
    have hk : isKind K ρ a (rcsOf ρ C b) = (decide (K = tRoundChange) && decide (b = a)) := by
      unfold isKind rcsOf rcOfState
      by_cases h1 : K = tRoundChange
      · subst h1; by_cases h2 : b = a <;> simp [h2]
      · have : (tRoundChange == K) = false := by
          simp only [beq_eq_false_iff_ne, ne_eq]; exact fun h => h1 h.symm
        simp [this, h1]
    rw [hk]
    by_cases h1 : K = tRoundChange
    · by_cases h2 : b = a
      · subst h2
        simp [h1, hnd.1]
      · have : a ≠ b := fun h => h2 h.symm
        simp [h1, h2, this]
    · simp [h1]

theorem srcsOf_rcs (ρ : Nat) (C : Nat → NodeState) (K : Nat) (L : List Nat) :
    srcsOf K ρ (L.map (rcsOf ρ C)) = if K = tRoundChange then L else [] := by
  induction L with
  | nil => simp [srcsOf]
  | cons b bs ih =>
    rw [List.map_cons, show rcsOf ρ C b :: bs.map (rcsOf ρ C) = [rcsOf ρ C b] ++ bs.map (rcsOf ρ C) from rfl,
      srcsOf_append, ih, srcsOf_single]
    by_cases h1 : K = tRoundChange
    · simp [h1, rcsOf, rcOfState]
    · have : ¬ ((rcsOf ρ C b).core.typ = K ∧ (rcsOf ρ C b).core.round = ρ) := by
        intro hc; exact h1 hc.1.symm
      simp [h1, this]

section Bridge
variable {P : TParams} {timeout : Nat → Nat} {X : PRd} {C : Nat → NodeState} {old : Nat → List Msg}

/-- the round of the general invariant: value `v`, the members' ROUND-CHANGEs, what they held before. -/
def gOf (X : PRd) (C : Nat → NodeState) (old : Nat → List Msg) (v : Nat) : TP.Rd :=
  ⟨X.ρ, v, X.l, rcsOf X.ρ C, old⟩

def tmOf (X : PRd) (timeout : Nat → Nat) : TP.Tm :=
  ⟨X.E, X.σ, X.E + timeout X.ρ, X.σ, X.B⟩

theorem hyp_of (hy : PHyp P timeout X C old)
    (hnd : ∀ p ∈ P.R, ∀ x ∈ old p, x.core.typ ≠ tDecided) (hfit : X.σ < timeout X.ρ)
    (hfifo : X.B + 4 ≤ P.d.fifo) (v : Nat) :
    TP.Hyp P (gOf X C old v) (tmOf X timeout) := by
  have hρ := hy.rho
  refine ⟨hy.nodup, hy.n1, hy.rho, hy.lead, fun a ha => hy.rcOk ha, ?_, hy.oldLen, ?_, ?_, ?_, hy.lo, hfifo⟩
  · intro p hp x hx
    refine ⟨?_, hnd p hp x hx⟩
    intro c hc
    have : c ∈ coresOf (old p) := mem_coresOf.mpr ⟨x, hx, by
      rcases List.mem_cons.mp hc with h | h
      · exact Or.inl h
      · exact Or.inr h⟩
    have := (hy.oldRound p hp c this).1
    show c.round < X.ρ
    omega
  · intro now h1 h2
    show X.E + timeout X.ρ ≤ P.arm none now X.ρ ∧ P.arm none now X.ρ ≤ X.E + timeout X.ρ + X.σ
    rw [hy.arm]; simp only [relTimer]
    have : X.E ≤ now := h1
    have : now ≤ X.E + X.σ := h2
    omega
  · intro fd now _ h2
    show X.E + timeout X.ρ ≤ P.arm (some fd) now X.ρ
    rw [hy.arm]; simp only [relTimer]
    have : X.E ≤ now := h2
    omega
  · show X.E + X.σ ≤ X.E + timeout X.ρ
    omega

theorem sentB_s1 {s : TState} {T : Nat → List Nat} (hy : PHyp P timeout X C old)
    (h : S1 P timeout X C old s T) {a : Nat} (ha : a ∈ P.R) (v : Nat) {K : Nat} (hK : TP.Once K) :
    TP.sentB (gOf X C old v) K (s.node a).st = (decide (K = tRoundChange) && enteredB X.ρ (s.node a)) := by
  have hρ := hy.rho
  have hne1 : X.ρ ≠ 1 := by omega
  cases h.mem a ha with
  | pend e a1 =>
    have hr : ((s.node a).st.round == X.ρ) = false := by
      rw [a1.mid.round]; simp; omega
    simp [TP.sentB, gOf, enteredB, hr]
  | act dl a1 a2 a3 a4 a5 a6 a7 a8 a9 a10 a11 =>
    obtain ⟨b1, _, b3, b4, _, _, _, _, b9⟩ := a1
    have hr : ((s.node a).st.round == X.ρ) = true := by rw [b1.round]; simp
    have hqrc : (uQuorumRoundChanges, X.ρ) ∉ (s.node a).st.dedup ∨ (s.node a).st.proc ≠ X.l := by
      by_cases hl : X.l = a
      · left; intro hc
        have := (b9.mp hc).2
        have := a9 hl
        omega
      · right; rw [b1.proc]; exact fun hc => hl hc.symm
    rcases hK with rfl | rfl | rfl | rfl
    · -- PRE-PREPARE
      rcases hqrc with hq | hq
      · simp [TP.sentB, gOf, enteredB, hr, hne1, tPrePrepare, tRoundChange, hq]
      · simp [TP.sentB, gOf, enteredB, hr, hne1, tPrePrepare, tRoundChange, hq]
    · simp [TP.sentB, gOf, enteredB, hr, tPrePrepare, tPrepare, tRoundChange, b3]
    · simp [TP.sentB, gOf, enteredB, hr, tPrePrepare, tPrepare, tCommit, tRoundChange, b4]
    · simp [TP.sentB, gOf, enteredB, hr, hne1]

theorem pre_old (hy : PHyp P timeout X C old)
    (hnd : ∀ p ∈ P.R, ∀ x ∈ old p, x.core.typ ≠ tDecided) :
    ∀ p ∈ P.R, ∀ x ∈ old p, TP.OldMsg X.ρ x := by
  have hρ := hy.rho
  intro p hp x hx
  refine ⟨fun c hc => ?_, hnd p hp x hx⟩
  have hc' : c ∈ coresOf (old p) := mem_coresOf.mpr ⟨x, hx, by
    rcases List.mem_cons.mp hc with h' | h'
    · exact Or.inl h'
    · exact Or.inr h'⟩
  have := (hy.oldRound p hp c hc').1
  omega

/-- the member view of the ROUND-CHANGE stage (`InvR'`) is the product form `TP.Act`. -/
theorem act_of_invR (hy : PHyp P timeout X C old)
    (hnd : ∀ p ∈ P.R, ∀ x ∈ old p, x.core.typ ≠ tDecided)
    (hinpC : ∀ p ∈ P.R, (C p).inputValue = P.inp p) (v : Nat) {p : Nat} (hp : p ∈ P.R)
    {T : List Nat} {st : NodeState} {rcvd : List Msg}
    (a1 : InvR' P.d X.ρ (C p).inputValue p (rcsOf X.ρ C) (old p) (C p) T st)
    (hrc : rcvd = T.map (rcsOf X.ρ C)) (a2 : st.timerOn = true)
    (a11 : (uJustifiedDecided, X.ρ) ∉ st.dedup) :
    TP.Act P.d (gOf X C old v) P.inp p st (old p ++ rcvd) := by
  have hρ := hy.rho
  have hq1 := quorum_pos P.d hy.n1
  obtain ⟨b1, b2, b3, b4, b5, b6, b7, _, b9⟩ := a1
  have hsr : ∀ K, srcsOf K X.ρ (old p ++ rcvd) = if K = tRoundChange then T else [] := by
    intro K
    rw [srcsOf_append, hrc, srcsOf_rcs]
    have : srcsOf K X.ρ (old p) = [] :=
      TP.srcsOf_old (G := gOf X C old v) (pre_old hy hnd p hp) K
    rw [this]; rfl
  show TP.Act P.d (gOf X C old v) P.inp p st (old p ++ rcvd)
  refine ⟨b1, by rw [hrc]; exact b2, ?_, ?_, ?_, b5, ?_, a11, ?_, fun _ => b6,
    by rw [b7]; exact hinpC p hp, a2⟩
  · intro x hx
    rcases List.mem_append.mp hx with hx | hx
    · exact hnd p hp x hx
    · rw [hrc] at hx
      obtain ⟨b, _, rfl⟩ := List.mem_map.mp hx
      simp [rcsOf, rcOfState, tRoundChange, tDecided]
  · show (uJustifiedPrePrepare, X.ρ) ∈ _ ↔ srcsOf tPrePrepare X.ρ _ ≠ []
    rw [hsr]; simp [tPrePrepare, tRoundChange]; exact b3
  · show (uQuorumPrepares, X.ρ) ∈ _ ↔ P.d.quorum ≤ (srcsOf tPrepare X.ρ _).length
    rw [hsr]; simp [tPrepare, tRoundChange]
    exact ⟨fun hc => absurd hc b4, fun hc => by omega⟩
  · show (srcsOf tCommit X.ρ _).length < P.d.quorum
    rw [hsr]; simp [tCommit, tRoundChange]; omega
  · show (uQuorumRoundChanges, X.ρ) ∈ _ ↔ (X.l = p ∧ P.d.quorum ≤ (srcsOf tRoundChange X.ρ _).length)
    rw [hsr, if_pos rfl, ← hy.lead]; exact b9

/-- **The ROUND-CHANGE stage satisfies the invariant of the round**, for every value `v` (nothing that
mentions the value has been sent yet). -/
theorem s1_rinv {s : TState} {T : Nat → List Nat} (hy : PHyp P timeout X C old)
    (h : S1H P timeout X C old s T)
    (hnd : ∀ p ∈ P.R, ∀ x ∈ old p, x.core.typ ≠ tDecided)
    (hinpC : ∀ p ∈ P.R, (C p).inputValue = P.inp p) (v : Nat) :
    TP.RInv P (gOf X C old v) (tmOf X timeout) s := by
  have hρ := hy.rho
  have hq1 := quorum_pos P.d hy.n1
  have hFnd : (P.R.filter (fun a => enteredB X.ρ (s.node a))).Nodup := hy.nodup.filter _
  have hcount : ∀ K a, s.log.countP (isKind K X.ρ a) =
      if K = tRoundChange ∧ a ∈ P.R.filter (fun a => enteredB X.ρ (s.node a)) then 1 else 0 := by
    intro K a
    rw [h.lg.countP_eq, countP_rcs X.ρ C K a _ hFnd]
  have hlogmem : ∀ m ∈ s.log, ∃ a ∈ P.R, enteredB X.ρ (s.node a) = true ∧ m = rcsOf X.ρ C a := by
    intro m hm
    have := (h.lg.mem_iff).mp hm
    obtain ⟨a, ha, rfl⟩ := List.mem_map.mp this
    exact ⟨a, (List.mem_filter.mp ha).1, (List.mem_filter.mp ha).2, rfl⟩
  have hnone : ∀ a ∈ P.R, ∀ K, TP.Once K → K ≠ tRoundChange →
      TP.sentB (gOf X C old v) K (s.node a).st = false := by
    intro a ha K hK hne
    rw [sentB_s1 hy h.base ha v hK]; simp [hne]
  have hpre := pre_old hy hnd
  refine ⟨?_, ?_, ?_, ?_, ?_, ?_, ?_, ?_, ?_, ?_, ?_⟩
  · -- net_ok
    intro pk hpk
    obtain ⟨b1, b2, b3, b4, b5⟩ := h.base.net_ok pk hpk
    refine ⟨b1, b2, b3, by rw [b5]; rfl, fun _ => ?_⟩
    show pk.sent ≤ X.E + X.σ + _
    omega
  · -- perm
    intro p hp
    rw [h.rc p hp]
    have e1 : inflight p s.net = ((inflight p s.net).map (·.core.src)).map (rcsOf X.ρ C) := by
      rw [List.map_map]
      conv => lhs; rw [← List.map_id (inflight p s.net)]
      apply List.map_congr_left
      intro m hm
      obtain ⟨pk, hpk, _, rfl⟩ := mem_inflight.mp hm
      exact (h.base.net_ok pk hpk).2.2.2.2
    rw [e1, ← List.map_append]
    exact ((h.base.acct p hp).map _).trans h.lg.symm
  · -- shape
    intro m hm
    obtain ⟨a, ha, _, rfl⟩ := hlogmem m hm
    exact TP.Shape.rc a ha (hy.rcOk ha)
  · -- counts
    intro a ha K hK
    show s.log.countP (isKind K X.ρ a) = _
    rw [hcount, sentB_s1 hy h.base ha v hK]
    by_cases h1 : K = tRoundChange
    · by_cases h2 : enteredB X.ρ (s.node a) = true
      · simp [h1, h2, List.mem_filter, ha]
      · simp [h1, h2, List.mem_filter]
    · simp [h1]
  · -- fb
    intro a
    have e1 : (s.log.filter (fun m => m.core.src == a && m.core.typ != tDecided)).length =
        s.log.countP (isKind tRoundChange X.ρ a) := by
      rw [← List.countP_eq_length_filter]
      apply List.countP_congr
      intro m hm
      obtain ⟨b, _, _, rfl⟩ := hlogmem m hm
      simp [isKind, rcsOf, rcOfState, tRoundChange, tDecided]
    rw [e1, hcount]
    by_cases h2 : a ∈ P.R.filter (fun a => enteredB X.ρ (s.node a))
    · obtain ⟨haR, hent⟩ := List.mem_filter.mp h2
      rw [if_pos ⟨rfl, h2⟩, if_pos haR]
      have : TP.sentB (gOf X C old v) tRoundChange (s.node a).st = true := by
        rw [sentB_s1 hy h.base haR v (Or.inr (Or.inr (Or.inr rfl)))]; simp [hent]
      unfold TP.nsent
      rw [this]; simp; omega
    · rw [if_neg (fun hc => h2 hc.2)]; omega
  · -- decs
    intro m hm ht
    obtain ⟨a, _, _, rfl⟩ := hlogmem m hm
    simp [rcsOf, rcOfState, tRoundChange, tDecided] at ht
  · -- j1
    rintro ⟨p, hp, hc⟩
    exact absurd (h.base.safe hp).2.2.1 hc
  · -- j2
    rintro ⟨a, ha, hc⟩
    rw [hnone a ha tCommit (Or.inr (Or.inr (Or.inl rfl))) (by decide)] at hc; cases hc
  · -- j3
    rintro ⟨a, ha, hc⟩
    rw [hnone a ha tPrepare (Or.inr (Or.inl rfl)) (by decide)] at hc; cases hc
  · -- mem
    intro p hp
    cases h.base.mem p hp with
    | pend e a1 a2 a3 a4 a5 a6 a7 a8 =>
      refine .pend e ?_ a3 a4 a5 a6 a8 a7
      have hr : (s.node p).rcvd = [] := by rw [h.rc p hp, a2]; rfl
      show TP.Pend (gOf X C old v) P.inp p (s.node p).st (old p ++ (s.node p).rcvd)
      rw [hr, List.append_nil]
      refine ⟨hρ, a1.mid, a1.aux.timer, a1.buf, ?_, ?_, by rw [a1.aux.iv]; exact hinpC p hp⟩
      · exact hpre p hp
      · exact (rcOfState_congr X.ρ p a1.aux).symm
    | act dl a1 a2 a3 a4 a5 a6 a7 a8 a9 a10 a11 =>
      obtain ⟨⟨fd, f1, f2⟩, f3⟩ := a10
      refine .act dl fd (act_of_invR hy hnd hinpC v hp a1 (h.rc p hp) a2 a11) a3 a4 a5 a6 ?_ f1 f2 f3
      · intro _
        show dl ≤ X.E + timeout X.ρ + X.σ
        omega
  · -- timers
    intro p hp dl hdl
    cases h.base.mem p hp with
    | pend e a1 a2 a3 a4 a5 a6 a7 => rw [a3] at hdl; cases hdl; exact a6
    | act dl' a1 a2 a3 a4 a5 a6 a7 a8 => rw [a5] at hdl; cases hdl; exact a8

/-- **The delivery at which the leader proposes establishes the invariant of the round for the value
it proposes.** -/
theorem fire_rinv {s : TState} {T : Nat → List Nat} (hy : PHyp P timeout X C old)
    (h : S1H P timeout X C old s T)
    (hnd : ∀ p ∈ P.R, ∀ x ∈ old p, x.core.typ ≠ tDecided)
    (hinpC : ∀ p ∈ P.R, (C p).inputValue = P.inp p) (hl : X.l ∈ P.R) (hq : P.d.quorum ≤ P.R.length)
    (hfit : X.σ < timeout X.ρ) (hfifo : X.B + 4 ≤ P.d.fifo)
    {k : Nat} {o : Oracle} (hF : Fires P X C s k o) {s' : TState}
    (hs : tstep P s (.deliver k o) = some s') :
    ∃ w Q, w ≠ 0 ∧ Q.Nodup ∧ Q.length = P.d.quorum ∧ (∀ a ∈ Q, a ∈ P.R) ∧
      ValueSpec (rcsOf X.ρ C) Q (C X.l).inputValue w ∧
      TP.RInv P (gOf X C old w) (tmOf X timeout) s' ∧
      ∃ m ∈ s'.log, TP.IsPPm P.d P.R (gOf X C old w) m := by
  have hρ := hy.rho
  have hq1 := quorum_pos P.d hy.n1
  obtain ⟨pk, Q, hk, hd, hlo, hQ1, hQ2, hQ3, J', w', hout', _, hw', hj', hv'⟩ := hF
  simp only [tstep, hk, if_pos hlo] at hs
  cases hs
  obtain ⟨A, B, hA, hB⟩ := eraseIdx_split hk
  have hmem : pk ∈ s.net := by rw [hA]; simp
  obtain ⟨hdst, _, hE, hsent, hmsg⟩ := h.base.net_ok pk hmem
  generalize ha : pk.msg.core.src = a at hmsg
  have hlo' := hy.lo
  obtain ⟨hnetc, hnet0, hflq⟩ := deliver_ctx hk
  cases h.base.mem pk.dst hdst with
  | pend e a1 a2 a3 a4 a5 a6 a7 => omega
  | act dl a1 a2 a3 a4 a5 a6 a7 a8 a9 a10 a11 =>
    obtain ⟨hnd0, hsub⟩ := h.base.srcs hy hdst
    have hin : a ∈ (inflight pk.dst s.net).map (·.core.src) := by
      rw [List.mem_map]
      exact ⟨pk.msg, mem_inflight.mpr ⟨pk, hmem, rfl, rfl⟩, ha⟩
    have hperm0 : ((inflight pk.dst s.net).map (·.core.src)).Perm
        (a :: (inflight pk.dst (s.net.eraseIdx k)).map (·.core.src)) := by
      rw [hB, hA]
      have := (inflight_split_same pk.dst A B pk rfl).map (·.core.src)
      rw [List.map_cons, ha] at this
      exact this
    have hnd2 : (a :: (inflight pk.dst (s.net.eraseIdx k)).map (·.core.src) ++ T pk.dst).Nodup :=
      ((hperm0.append_right (T pk.dst)).nodup_iff).mp hnd0
    have haT : a ∉ T pk.dst := by
      intro hc
      rw [List.cons_append, List.nodup_cons] at hnd2
      exact hnd2.1 (List.mem_append_right _ hc)
    have hTnd : (T pk.dst ++ [a]).Nodup := by
      rw [List.cons_append, List.nodup_cons] at hnd2
      have := (List.nodup_append.mp hnd2.2).2.1
      rw [List.nodup_append]
      refine ⟨this, by simp, ?_⟩
      intro x hx y hy'
      simp only [List.mem_singleton] at hy'
      subst hy'
      intro he; subst he; exact haT hx
    have hTsub : ∀ x ∈ T pk.dst ++ [a], x ∈ P.R := by
      intro x hx
      rcases List.mem_append.mp hx with hx | hx
      · exact (hsub x (List.mem_append_right _ hx)).1
      · simp only [List.mem_singleton] at hx; subst hx
        exact (hsub _ (List.mem_append_left _ hin)).1
    have hctx := hy.rctx hdst hTnd hTsub
    have hfire : P.d.leader X.ρ = pk.dst ∧ (T pk.dst).length + 1 = P.d.quorum := by
      apply Classical.byContradiction
      intro hnf
      have := rc_timerOn (T := T pk.dst) (a := a) (o := o) hctx ⟨[], by simp⟩ a1 hnf
      rw [← hmsg, hd] at this
      rw [this] at hout'
      cases hout'
    have hiv : (C pk.dst).inputValue ≠ 0 := by
      rw [hd]; exact hy.inp hl
    obtain ⟨J, w, hJ, hbuf, hst⟩ := rc_fire_detail (T := T pk.dst) (a := a) hctx o ⟨[], by simp⟩ a1 hfire hiv
    rw [← hmsg] at hst hJ hbuf
    -- the two descriptions of the outputs agree
    have hJw : J' = J ∧ w' = w := by
      have := hout'
      rw [← hd, hst] at this
      simp only [List.cons.injEq, Out.bcast.injEq, and_true, true_and] at this
      exact ⟨this.2.symm, this.1.symm⟩
    obtain ⟨rfl, rfl⟩ := hJw
    refine ⟨w', Q, hw', hQ1, hQ2, hQ3, hv', ?_⟩
    -- the invariant before the step, for the value proposed
    have hR := s1_rinv hy h hnd hinpC w'
    have hyp := hyp_of hy hnd hfit hfifo w'
    -- the PRE-PREPARE
    have hpp : TP.IsPPm P.d P.R (gOf X C old w') (ppMsg X.ρ w' J' X.l) := by
      refine ⟨rfl, ⟨?_, ?_⟩, by rw [← hy.lead]; exact hj'⟩
      · intro c hc
        have := getJustifiedQrc_sub hJ c hc
        rw [mem_flatten_bufIs hbuf] at this
        exact (hctx.cores (T := T pk.dst ++ [a]) (fun x hx => hx) c this).1
      · exact jok_of_qrc hctx (Q := T pk.dst ++ [a]) (fun x hx => hx) hbuf hJ P.R hTsub
          (gOf X C old w') rfl rfl
    have htw : twires pk.dst (step P.d o (s.node pk.dst).st (.recv pk.msg .ok)).2 =
        [ppMsg X.ρ w' J' X.l] := by
      rw [hst, hd]; rfl
    have hfx : TP.Fx P.d P.R (gOf X C old w') pk.dst (s.node pk.dst).st
        (step P.d o (s.node pk.dst).st (.recv pk.msg .ok)).1
        (step P.d o (s.node pk.dst).st (.recv pk.msg .ok)).2 tPrePrepare := by
      have hne1 : ¬ X.ρ = 1 := by omega
      have hm := a1.1
      have hdd : (uQuorumRoundChanges, X.ρ) ∉ (s.node pk.dst).st.dedup := by
        intro hc
        have := (a1.2.2.2.2.2.2.2.2.mp hc).2
        have := a9 hd.symm
        omega
      constructor
      · intro K hK
        rw [htw]
        rw [hst]
        simp only [uQuorumRoundChanges] at hdd
        have hr' : (s.node X.l).st.round = X.ρ := by rw [← hd]; exact hm.round
        have hp' : (s.node X.l).st.proc = X.l := by rw [← hd]; exact hm.proc
        have hdd' : ¬ (6, X.ρ) ∈ (s.node X.l).st.dedup := by rw [← hd]; exact hdd
        rcases hK with rfl | rfl | rfl | rfl <;>
          simp [TP.sentB, gOf, isKind, ppMsg, hr', hp', hd, hdd', hne1, tPrePrepare, tPrepare,
            tCommit, tRoundChange, uQuorumRoundChanges, uJustifiedPrePrepare, uQuorumPrepares]
      · intro m' hm'
        rw [htw] at hm'
        simp only [List.mem_singleton] at hm'
        subst hm'
        exact ⟨TP.Shape.pp _ hpp hl, hd.symm, rfl, rfl⟩
    have hnow := s1_now_le hy h.base hl hq
    refine ⟨?_, ppMsg X.ρ w' J' X.l, ?_, hpp⟩
    · obtain ⟨⟨fd, f1, f2⟩, f3⟩ := a10
      have hinv' := (rc_step' hctx (C pk.dst).inputValue pk.dst (C pk.dst)
        (fun _ => Or.inl hiv) (T pk.dst) a (s.node pk.dst).st o ⟨[], by simp⟩ a1).1
      rw [← hmsg] at hinv'
      apply TP.rinv_act hy.nodup hR hdst o (.recv pk.msg .ok) (s.net.eraseIdx k) [pk.msg] tPrePrepare hnet0
        (fun q _ => hflq q) hfx
      · refine .act dl fd ?_ ?_ a4 ?_ a6 ?_ ?_ f2 ?_
        · show TP.Act P.d (gOf X C old w') P.inp pk.dst _ (old pk.dst ++ ((s.node pk.dst).rcvd ++ [pk.msg]))
          apply act_of_invR hy hnd hinpC w' hdst hinv'
          · rw [h.rc pk.dst hdst, List.map_append, hmsg]; rfl
          · rw [hst]; exact a2
          · rw [hst]
            simp only [List.mem_cons, Prod.mk.injEq, not_or]
            exact ⟨by simp [uJustifiedDecided, uQuorumRoundChanges], a11⟩
        · show Quiet ((s.node pk.dst).outs ++ _)
          rw [hst]; exact Quiet.append a3 ⟨rfl, rfl⟩
        · show (armAll P.arm s.now ((s.node pk.dst).timer, (s.node pk.dst).firsts) _).1 = _
          rw [hst]; exact a5
        · intro _
          show dl ≤ X.E + timeout X.ρ + X.σ
          omega
        · show lookup X.ρ (armAll P.arm s.now ((s.node pk.dst).timer, (s.node pk.dst).firsts) _).2 = _
          rw [hst]; exact f1
        · intro r hr
          show lookup r (armAll P.arm s.now ((s.node pk.dst).timer, (s.node pk.dst).firsts) _).2 = _
          rw [hst]; exact f3 r hr
      · intro _
        refine ⟨a4, fun _ => ?_⟩
        show s.now ≤ X.E + X.σ + TP.kindIdx tPrePrepare * P.hi
        have : TP.kindIdx tPrePrepare = 1 := by decide
        rw [this, Nat.one_mul]
        omega
      · intro hc; simp [tPrePrepare, tDecided] at hc
      · intro hc; exact absurd a1.1.qc hc
      · intro hc; rw [hst] at hc; exact absurd a1.1.qc hc
      · intro h1 h2; rw [hfx.same (Or.inr (Or.inr (Or.inl rfl))) (by decide)] at h1; rw [h1] at h2; cases h2
      · intro h1 h2; rw [hfx.same (Or.inr (Or.inl rfl)) (by decide)] at h1; rw [h1] at h2; cases h2
    · rw [actNode_one]
      simp only
      rw [htw]
      exact List.mem_append_right _ List.mem_cons_self

end Bridge

/-! ### The history variables (`rcvd`, `log`) are not read by the semantics -/

/-- two states that differ in the history variables only. -/
def SameSem (s t : TState) : Prop :=
  s.now = t.now ∧ s.net = t.net ∧
  ∀ p, (s.node p).st = (t.node p).st ∧ (s.node p).outs = (t.node p).outs ∧
    (s.node p).timer = (t.node p).timer ∧ (s.node p).firsts = (t.node p).firsts

theorem actNode_sameSem {P : TParams} {s t : TState} (h : SameSem s t) (p : Nat) (o : Oracle)
    (evs : List Event) (net : List Packet) (rc : List Msg) :
    SameSem (actNode P s p o evs net rc) (actNode P t p o evs net rc) := by
  obtain ⟨h1, _, h3⟩ := h
  obtain ⟨e1, e2, e3, e4⟩ := h3 p
  refine ⟨h1, ?_, ?_⟩
  · simp only [actNode, e1, h1]
  · intro q
    by_cases hq : q = p
    · subst hq
      simp only [actNode, if_pos rfl, e1, e2, e3, e4, h1]
      exact ⟨rfl, rfl, rfl, rfl⟩
    · simp only [actNode, if_neg hq]
      exact h3 q

theorem tstep_sameSem {P : TParams} {s t s' : TState} {a : TAct} (h : SameSem s t)
    (hs : tstep P s a = some s') : ∃ t', tstep P t a = some t' ∧ SameSem s' t' := by
  obtain ⟨h1, h2, h3⟩ := h
  cases a with
  | tick dt =>
    simp only [tstep] at hs ⊢
    have hct : canTick P t dt = canTick P s dt := by
      unfold canTick
      rw [h1, h2]
      congr 1
      apply List.all_congr rfl
      intro a
      rw [(h3 a).2.2.1]
    rw [hct]
    split at hs
    · cases hs
      rename_i hc
      rw [if_pos hc]
      exact ⟨_, rfl, by simp only [h1]; exact ⟨rfl, h2, h3⟩⟩
    · cases hs
  | deliver k o =>
    simp only [tstep] at hs ⊢
    rw [← h2, ← h1]
    split at hs
    · cases hs
    · rename_i pk hk
      split at hs
      · rename_i hlo
        cases hs
        rw [if_pos hlo]
        exact ⟨_, rfl, actNode_sameSem ⟨h1, h2, h3⟩ _ _ _ _ _⟩
      · cases hs
  | fire p =>
    simp only [tstep] at hs ⊢
    rw [← (h3 p).2.2.1, ← h1, ← h2]
    split at hs
    · rename_i hc
      cases hs
      rw [if_pos hc]
      exact ⟨_, rfl, actNode_sameSem ⟨h1, h2, h3⟩ _ _ _ _ _⟩
    · cases hs
  | start p =>
    simp only [tstep] at hs ⊢
    rw [← (h3 p).1, ← h2]
    split at hs
    · rename_i hc
      cases hs
      rw [if_pos hc]
      exact ⟨_, rfl, actNode_sameSem ⟨h1, h2, h3⟩ _ _ _ _ _⟩
    · cases hs

theorem texec_sameSem {P : TParams} : ∀ (acts : List TAct) {s t s' : TState}, SameSem s t →
    texec P s acts = some s' → ∃ t', texec P t acts = some t' ∧ SameSem s' t' := by
  intro acts
  induction acts with
  | nil => intro s t s' h hs; simp only [texec] at hs; cases hs; exact ⟨t, rfl, h⟩
  | cons a as ih =>
    intro s t s' h hs
    simp only [texec] at hs
    split at hs
    · cases hs
    · rename_i s1 hs1
      obtain ⟨t1, ht1, h1⟩ := tstep_sameSem h hs1
      obtain ⟨t', ht', h'⟩ := ih h1 hs
      exact ⟨t', by simp only [texec, ht1]; exact ht', h'⟩

/-- the state with the history variables reset. -/
def resetHist (s : TState) : TState :=
  { s with log := [], node := fun p => { s.node p with rcvd := [] } }

theorem resetHist_sameSem (s : TState) : SameSem s (resetHist s) :=
  ⟨rfl, rfl, fun _ => ⟨rfl, rfl, rfl, rfl⟩⟩

/-! ### The good round with prepared members, complete -/

section Final
variable {P : TParams} {timeout : Nat → Nat} {X : PRd} {C : Nat → NodeState} {old : Nat → List Msg}

theorem poisedP_s1h {s : TState} (hy : PHyp P timeout X C old) (h : PoisedP P X C old s)
    (hrc0 : ∀ p ∈ P.R, (s.node p).rcvd = []) (hlog0 : s.log = []) :
    S1H P timeout X C old s (fun _ => []) := by
  have hρ := hy.rho
  refine ⟨poisedP_s1 hy h, fun p hp => by rw [hrc0 p hp]; rfl, ?_⟩
  have : P.R.filter (fun a => enteredB X.ρ (s.node a)) = [] := by
    rw [List.filter_eq_nil_iff]
    intro a ha
    obtain ⟨e, a1, _⟩ := h.mem a ha
    simp only [enteredB, beq_iff_eq]
    have := a1.mid.round; omega
  rw [this, hlog0]; exact List.Perm.refl _

/-- what a good round with prepared members guarantees about a state `s'` of an execution. -/
def GoodRoundP (P : TParams) (X : PRd) (C : Nat → NodeState) (s' : TState) : Prop :=
  (s'.now ≤ X.E + X.σ + P.hi ∧
    ∀ p ∈ P.R, Quiet (s'.node p).outs ∧ (s'.node p).st.dead = false ∧ (s'.node p).st.qCommit = [] ∧
      (s'.node p).st.round ≤ X.ρ) ∨
  ∃ w Q, w ≠ 0 ∧ Q.Nodup ∧ Q.length = P.d.quorum ∧ (∀ a ∈ Q, a ∈ P.R) ∧
    ValueSpec (rcsOf X.ρ C) Q (C X.l).inputValue w ∧
    (∀ p ∈ P.R, noFault (s'.node p).outs = true ∧ (s'.node p).st.dead = false ∧
      (s'.node p).st.round ≤ X.ρ ∧
      ((s'.node p).st.qCommit ≠ [] → GoodOutcome w X.ρ ((s'.node p).st, (s'.node p).outs))) ∧
    (X.E + X.σ + 4 * P.hi < s'.now →
      ∀ p ∈ P.R, GoodOutcome w X.ρ ((s'.node p).st, (s'.node p).outs))

theorem goodRoundP_sameSem {s' t' : TState} (h : SameSem s' t') (ht : GoodRoundP P X C t') :
    GoodRoundP P X C s' := by
  obtain ⟨h1, _, h3⟩ := h
  unfold GoodRoundP at *
  rw [h1]
  rcases ht with ⟨a, b⟩ | ⟨w, Q, q1, q2, q3, q4, q5, q6, q7⟩
  · left
    refine ⟨a, fun p hp => ?_⟩
    rw [(h3 p).1, (h3 p).2.1]; exact b p hp
  · right
    refine ⟨w, Q, q1, q2, q3, q4, q5, fun p hp => ?_, fun hl p hp => ?_⟩
    · rw [(h3 p).1, (h3 p).2.1]; exact q6 p hp
    · rw [(h3 p).1, (h3 p).2.1]; exact q7 hl p hp

theorem good_round_reset (hy : PHyp P timeout X C old)
    (hnd : ∀ p ∈ P.R, ∀ x ∈ old p, x.core.typ ≠ tDecided)
    (hinpC : ∀ p ∈ P.R, (C p).inputValue = P.inp p) (hl : X.l ∈ P.R) (hq : P.d.quorum ≤ P.R.length)
    (hfit : X.σ + 4 * P.hi < timeout X.ρ) (hfifo : X.B + 4 ≤ P.d.fifo)
    {s : TState} (hp : PoisedP P X C old s) (hrc0 : ∀ p ∈ P.R, (s.node p).rcvd = [])
    (hlog0 : s.log = []) (acts : List TAct) {s' : TState} (hs : texec P s acts = some s') :
    GoodRoundP P X C s' := by
  rcases s1h_exec hy hl hq (by omega) acts s _ (poisedP_s1h hy hp hrc0 hlog0) s' hs with
    ⟨T', h'⟩ | ⟨a1, k, o, a2, s1, T1, e1, e2, e3, e4⟩
  · left
    refine ⟨s1_now_le hy h'.base hl hq, fun p hpR => ?_⟩
    have := h'.base.safe hpR
    exact ⟨this.1, this.2.1, this.2.2.1, this.2.2.2.1⟩
  · right
    have hs' := hs
    rw [e1, texec_append a1 s s1 _ e2] at hs'
    simp only [texec] at hs'
    split at hs'
    · cases hs'
    · rename_i s2 hs2
      obtain ⟨w, Q, q1, q2, q3, q4, q5, hR, hfired⟩ :=
        fire_rinv hy e3 hnd hinpC hl hq (by omega) hfifo e4 hs2
      have hyp := hyp_of hy hnd (by omega : X.σ < timeout X.ρ) hfifo w
      have hwin : (tmOf X timeout).E + (tmOf X timeout).σ + 4 * P.hi < (tmOf X timeout).E' := by
        show X.E + X.σ + 4 * P.hi < X.E + timeout X.ρ
        omega
      have hinv := TP.good_exec hyp (G := gOf X C old w) hl hq hwin a2 hR hfired hs'
      refine ⟨w, Q, q1, q2, q3, q4, q5, fun p hpR => ?_, fun hlate p hpR => ?_⟩
      · obtain ⟨h1, h2, h3, _⟩ := TP.outcome_of_rinv hinv hpR
        refine ⟨h1, h2, ?_, h3⟩
        cases hinv.mem p hpR with
        | pend e a1 => rw [a1.mid.round]; show X.ρ - 1 ≤ X.ρ; omega
        | act dl fd a1 => rw [a1.mid.round]; exact Nat.le_refl _
        | dcd a1 => rw [a1.round]; exact Nat.le_refl _
      · exact (TP.outcome_of_rinv hinv hpR).2.2.1 (TP.live hyp hl hq hinv hlate p hpR)

/-- **the same from any start state** (the history variables are not read). -/
theorem good_round_any (hy : PHyp P timeout X C old)
    (hnd : ∀ p ∈ P.R, ∀ x ∈ old p, x.core.typ ≠ tDecided)
    (hinpC : ∀ p ∈ P.R, (C p).inputValue = P.inp p) (hl : X.l ∈ P.R) (hq : P.d.quorum ≤ P.R.length)
    (hfit : X.σ + 4 * P.hi < timeout X.ρ) (hfifo : X.B + 4 ≤ P.d.fifo)
    {s : TState} (hp : PoisedP P X C old s) (acts : List TAct) {s' : TState}
    (hs : texec P s acts = some s') : GoodRoundP P X C s' := by
  obtain ⟨t', ht', hsame⟩ := texec_sameSem acts (resetHist_sameSem s) hs
  apply goodRoundP_sameSem hsame
  exact good_round_reset hy hnd hinpC hl hq hfit hfifo (s := resetHist s) ⟨hp.net, hp.mem⟩
    (fun _ _ => rfl) rfl acts ht'

end Final

/-! ### Rotation: silent rounds — whatever prepared state they inherit — then the good round -/

/-- what the rotation guarantees about a state `s'` of an execution: nobody faults or returns, and
past the deadline `D` everybody has decided one value `w` in round `ρ`, where `w` is the value
prepared in the highest prepared round among a quorum `Q` of the ROUND-CHANGEs for `ρ`, else the
input of the leader `l`. -/
def RotP (P : TParams) (C : Nat → NodeState) (ρ l D : Nat) (s' : TState) : Prop :=
  (∀ p ∈ P.R, noFault (s'.node p).outs = true ∧ (s'.node p).st.dead = false) ∧
  (D < s'.now → ∃ w Q, w ≠ 0 ∧ Q.Nodup ∧ Q.length = P.d.quorum ∧ (∀ a ∈ Q, a ∈ P.R) ∧
    ValueSpec (rcsOf ρ C) Q (C l).inputValue w ∧
    ∀ p ∈ P.R, GoodOutcome w ρ ((s'.node p).st, (s'.node p).outs))

theorem rot_prepared_decides {P : TParams} {timeout : Nat → Nat} {C : Nat → NodeState}
    (hq : P.d.quorum ≤ P.R.length) (hinp : ∀ p ∈ P.R, (C p).inputValue ≠ 0)
    (hinpC : ∀ p ∈ P.R, (C p).inputValue = P.inp p) :
    ∀ (m : Nat) (X : PRd) (old : Nat → List Msg), PHyp P timeout X C old →
    (∀ p ∈ P.R, ∀ x ∈ old p, x.core.typ ≠ tDecided) →
    (∀ k, k < m → P.d.leader (X.ρ + k) ∉ P.R) → P.d.leader (X.ρ + m) ∈ P.R →
    (∀ k, k ≤ m → X.σ + 4 * P.hi < timeout (X.ρ + k)) → X.B + m + 4 ≤ P.d.fifo →
    ∀ (s : TState), PoisedP P X C old s →
    ∀ (acts : List TAct) (s' : TState), texec P s acts = some s' →
      RotP P C (X.ρ + m) (P.d.leader (X.ρ + m))
        (X.E + sumTimeouts timeout X.ρ m + X.σ + 4 * P.hi) s' := by
  intro m
  induction m with
  | zero =>
    intro X old hy hnd _ hl hfit hfifo s hp acts s' hs
    have hl' : X.l ∈ P.R := by rw [← hy.lead]; exact hl
    have hg := good_round_any hy hnd hinpC hl' hq (hfit 0 (Nat.le_refl _)) (by omega) hp acts hs
    rcases hg with ⟨a, b⟩ | ⟨w, Q, q1, q2, q3, q4, q5, q6, q7⟩
    · refine ⟨fun p hp' => ⟨(b p hp').1.1, (b p hp').2.1⟩, fun hlate => ?_⟩
      simp only [sumTimeouts] at hlate
      omega
    · refine ⟨fun p hp' => ⟨(q6 p hp').1, (q6 p hp').2.1⟩, fun hlate => ?_⟩
      simp only [sumTimeouts, Nat.add_zero] at hlate
      show ∃ w Q, w ≠ 0 ∧ Q.Nodup ∧ Q.length = P.d.quorum ∧ (∀ a ∈ Q, a ∈ P.R) ∧
        ValueSpec (rcsOf X.ρ C) Q (C (P.d.leader X.ρ)).inputValue w ∧
        ∀ p ∈ P.R, GoodOutcome w X.ρ ((s'.node p).st, (s'.node p).outs)
      rw [hy.lead]
      exact ⟨w, Q, q1, q2, q3, q4, q5, q7 hlate⟩
  | succ m ih =>
    intro X old hy hnd hsil hl hfit hfifo s hp acts s' hs
    have hsil0 : X.l ∉ P.R := by rw [← hy.lead]; exact hsil 0 (by omega)
    have hne : ∃ p, p ∈ P.R := by
      have := quorum_pos P.d hy.n1
      cases hR : P.R with
      | nil => rw [hR] at hq; simp at hq; omega
      | cons x xs => exact ⟨x, List.mem_cons_self⟩
    obtain ⟨p0, hp0⟩ := hne
    have hshift := sumTimeouts_shift timeout X.ρ m
    have hfit0 := hfit 0 (by omega)
    simp only [Nat.add_zero] at hfit0
    rcases s1_silent_split hy hsil0 acts s _ (poisedP_s1 hy hp) s' hs with
      ⟨T', h'⟩ | ⟨a1, a2, s1, T1, e1, e2, e3, e4, e5⟩
    · refine ⟨fun p hp' => ⟨(h'.safe hp').1.1, (h'.safe hp').2.1⟩, fun hlate => ?_⟩
      have := s1_silent_now_le h' hp0
      omega
    · have hy' := phyp_next hy e4 (l' := P.d.leader (X.ρ + 1)) rfl (fun h => hinp _ h) (by omega)
      have hp' := poisedP_next e4 (by omega) (P.d.leader (X.ρ + 1))
      have hnd' : ∀ p ∈ P.R, ∀ x ∈ oldNext X C old T1 p, x.core.typ ≠ tDecided := by
        intro p hpR x hx
        rcases List.mem_append.mp hx with hx | hx
        · exact hnd p hpR x hx
        · obtain ⟨b, _, rfl⟩ := List.mem_map.mp hx
          simp [rcsOf, rcOfState, tRoundChange, tDecided]
      have := ih (X.next timeout (P.d.leader (X.ρ + 1))) _ hy' hnd'
          (fun k hk => by
            show P.d.leader (X.ρ + 1 + k) ∉ P.R
            rw [show X.ρ + 1 + k = X.ρ + (k + 1) by omega]; exact hsil (k + 1) (by omega))
          (by show P.d.leader (X.ρ + 1 + m) ∈ P.R
              rw [show X.ρ + 1 + m = X.ρ + (m + 1) by omega]; exact hl)
          (fun k hk => by
            show X.σ + 4 * P.hi < timeout (X.ρ + 1 + k)
            rw [show X.ρ + 1 + k = X.ρ + (k + 1) by omega]; exact hfit (k + 1) (by omega))
          (by show X.B + 1 + m + 4 ≤ P.d.fifo; omega) s1 hp' a2 s' e3
      have e : (X.next timeout (P.d.leader (X.ρ + 1))).ρ + m = X.ρ + (m + 1) := by
        show X.ρ + 1 + m = X.ρ + (m + 1); omega
      have eD : (X.next timeout (P.d.leader (X.ρ + 1))).E +
          sumTimeouts timeout (X.next timeout (P.d.leader (X.ρ + 1))).ρ m +
          (X.next timeout (P.d.leader (X.ρ + 1))).σ + 4 * P.hi =
          X.E + sumTimeouts timeout X.ρ (m + 1) + X.σ + 4 * P.hi := by
        show X.E + timeout X.ρ + sumTimeouts timeout (X.ρ + 1) m + X.σ + 4 * P.hi = _
        omega
      rw [e, eD] at this
      exact this

/-- every delivered message sits in the FIFO of its source. -/
theorem bufIs_mem {buf : List (Nat × List Msg)} {L : List Msg} (h : BufIs buf L) {x : Msg} (hx : x ∈ L) :
    ∃ e ∈ buf, x ∈ e.2 := by
  obtain ⟨_, hent, hkeys⟩ := h
  obtain ⟨e, he, hsrc⟩ := List.mem_map.mp (hkeys x hx)
  refine ⟨e, he, ?_⟩
  rw [hent e he, List.mem_filter]
  exact ⟨hx, by simp [hsrc]⟩

end CharonV.Qbft
