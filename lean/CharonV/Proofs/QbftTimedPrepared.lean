/-
C04 (timed composition, part 3): the ROUND-CHANGE stage of a round of the *timed* cluster
(`Model/QbftTimed.lean`) whose members may hold PREPARED certificates of earlier rounds — the state a
round leaves behind whose leader ran but crashed half-way through a broadcast, or whose messages were
partly lost.

`Proofs/QbftTimed.lean` proves the timed good round from `Poised` states: nobody ever prepared, all
ROUND-CHANGEs are null, the leader proposes its own input (rule J1). `Proofs/QbftPrepared.lean`
proves the J2 path on the phased (untimed) schedule. Here the step of the timed proof that used the
"quorum of null ROUND-CHANGEs" is redone for arbitrary prepared states, over EVERY execution of the
timed semantics (any interleaving, any delivery instants in `(sent + lo, sent + hi]`, any oracle):

* `PoisedP`: all running members sit in round `ρ - 1`, undecided, with their round timers due at
  instants in `[E, E + σ]`, nothing in flight; each holds whatever it received in earlier rounds
  (`old p`: cores of rounds `< ρ`, at most `B` messages per source) and a prepared state that is null
  or a certificate of a round `< ρ` (`CertState`) — the timed analogue of `Stuck`;
* `S1`: the cluster invariant of the ROUND-CHANGE stage (who entered, which ROUND-CHANGEs — carrying
  the senders' certificates — are in flight to / delivered at whom, timers, `InvR'` per member);
* `s1_step`: every action keeps `S1`, or it is the delivery at which the leader reaches its quorum and
  broadcasts a PRE-PREPARE (`FireR'`: justified for every receiver, value = the value prepared in
  the highest prepared round among the leader's quorum, else the leader's input);
* `s1_now_le`: while `S1` holds and the leader runs, the clock has not passed `E + σ + hi`;
* `s1_exec`: every execution stays in `S1` or passes through the firing delivery;
* `s1_silent`: if the leader does not run, `S1` holds until the round timers fire, and once the clock
  has passed `E + σ + hi` the cluster is `PoisedP` for round `ρ + 1` with the same prepared states,
  the skew preserved and one more message per source.

The stages after the PRE-PREPARE (PREPARE / COMMIT over buffers that hold earlier rounds, with
overlapping phases) are NOT redone here: see the header of `Props/C04TimedPrepared.lean`.
-/
import CharonV.Proofs.QbftTimed
import CharonV.Proofs.QbftPrepared

namespace CharonV.Qbft

/-! ### List helpers -/

/-- one more element passes the filter. -/
theorem filter_gain {R : List Nat} {f g : Nat → Bool} {p : Nat} (hR : R.Nodup) (hp : p ∈ R)
    (hf : f p = false) (hg : g p = true) (hne : ∀ a, a ≠ p → g a = f a) :
    (R.filter g).Perm (p :: R.filter f) := by
  induction R with
  | nil => cases hp
  | cons x xs ih =>
    simp only [List.nodup_cons] at hR
    rcases List.mem_cons.mp hp with h | h
    · subst h
      have : xs.filter g = xs.filter f := by
        apply List.filter_congr
        intro a ha
        exact hne a (fun he => hR.1 (he ▸ ha))
      simp [hf, hg, this]
    · have hxp : x ≠ p := fun he => hR.1 (he ▸ h)
      have ih' := ih hR.2 h
      simp only [List.filter_cons, hne x hxp]
      cases f x with
      | true => exact (List.Perm.cons x ih').trans (List.Perm.swap p x _)
      | false => exact ih'

theorem filter_same {R : List Nat} {f g : Nat → Bool} (h : ∀ a ∈ R, g a = f a) :
    R.filter g = R.filter f := List.filter_congr h

/-! ### The ROUND-CHANGE stage of a round with prepared members -/

/-- the round: number, leader, entry window `[E, E + σ]`, bound on earlier messages per source. -/
structure PRd where
  ρ : Nat
  l : Nat
  E : Nat
  σ : Nat
  B : Nat

/-- the ROUND-CHANGEs of the round: member `a` announces the prepared state it holds (`C a`). -/
def rcsOf (ρ : Nat) (C : Nat → NodeState) : Nat → Msg := fun a => rcOfState ρ a (C a)

/-- one running member during the ROUND-CHANGE stage: about to enter the round (its round-`ρ - 1`
timer is due at `e ∈ [E, E + σ]`), or in the round with the ROUND-CHANGEs of the members `T`
delivered (in this order) on top of `old p`, its round-`ρ` timer armed at its entry. -/
inductive PMem (P : TParams) (timeout : Nat → Nat) (X : PRd) (C : Nat → NodeState)
    (old : Nat → List Msg) (now p : Nat) (nd : TNode) (T : List Nat) : Prop where
  | pend (e : Nat) : Wait (X.ρ - 1) p (old p) (C p) nd.st → T = [] → nd.timer = some e →
      X.E ≤ e → e ≤ X.E + X.σ → now ≤ e → Quiet nd.outs → PMem P timeout X C old now p nd T
  | act (dl : Nat) : InvR' P.d X.ρ (C p).inputValue p (rcsOf X.ρ C) (old p) (C p) T nd.st →
      nd.st.timerOn = true → Quiet nd.outs → X.E ≤ now → nd.timer = some dl →
      X.E + timeout X.ρ ≤ dl → dl ≤ X.E + X.σ + timeout X.ρ → now ≤ dl →
      (X.l = p → T.length < P.d.quorum) → PMem P timeout X C old now p nd T

/-- the member has entered the round. -/
def enteredB (ρ : Nat) (nd : TNode) : Bool := nd.st.round == ρ

/-- the cluster invariant of the ROUND-CHANGE stage; `T p` = the senders whose ROUND-CHANGE was
delivered to `p`, in delivery order. -/
structure S1 (P : TParams) (timeout : Nat → Nat) (X : PRd) (C : Nat → NodeState)
    (old : Nat → List Msg) (s : TState) (T : Nat → List Nat) : Prop where
  net_ok : ∀ pk ∈ s.net, pk.dst ∈ P.R ∧ s.now ≤ pk.sent + P.hi ∧ X.E ≤ pk.sent ∧
    pk.sent ≤ X.E + X.σ ∧ pk.msg = rcsOf X.ρ C pk.msg.core.src
  acct : ∀ p ∈ P.R, ((inflight p s.net).map (·.core.src) ++ T p).Perm
    (P.R.filter (fun a => enteredB X.ρ (s.node a)))
  mem : ∀ p ∈ P.R, PMem P timeout X C old s.now p (s.node p) (T p)

/-- the standing hypotheses. -/
structure PHyp (P : TParams) (timeout : Nat → Nat) (X : PRd) (C : Nat → NodeState)
    (old : Nat → List Msg) : Prop where
  nodup : P.R.Nodup
  n1 : 1 ≤ P.d.nodes
  rho : 2 ≤ X.ρ
  lead : P.d.leader X.ρ = X.l
  arm : P.arm = relTimer timeout
  cert : ∀ a ∈ P.R, CertState P.d (X.ρ - 1) (C a)
  oldRound : ∀ p ∈ P.R, ∀ c ∈ coresOf (old p), c.round ≤ X.ρ - 1 ∧ PrepGood c
  oldLen : ∀ p ∈ P.R, ∀ a, ((old p).filter (fun x => x.core.src == a)).length ≤ X.B
  fifo : X.B + 1 ≤ P.d.fifo
  inp : X.l ∈ P.R → (C X.l).inputValue ≠ 0
  lo : X.σ ≤ P.lo

theorem rcsOf_src (ρ : Nat) (C : Nat → NodeState) (a : Nat) : (rcsOf ρ C a).core.src = a := rfl

theorem PHyp.rcOk {P : TParams} {timeout : Nat → Nat} {X : PRd} {C : Nat → NodeState}
    {old : Nat → List Msg} (hy : PHyp P timeout X C old) {a : Nat} (ha : a ∈ P.R) :
    RcOk P.d X.ρ (rcsOf X.ρ C a) a := by
  refine ⟨rfl, rfl, rfl, ?_⟩
  have hρ := hy.rho
  rcases hy.cert a ha with h | ⟨h1, h2, h3, h4⟩
  · exact Or.inl h
  · exact Or.inr ⟨h1, by show (C a).preparedRound < X.ρ; omega, h3, h4⟩

theorem PHyp.rctx {P : TParams} {timeout : Nat → Nat} {X : PRd} {C : Nat → NodeState}
    {old : Nat → List Msg} (hy : PHyp P timeout X C old) {p : Nat} (hp : p ∈ P.R) {R0 : List Nat}
    (hnd : R0.Nodup) (hsub : ∀ a ∈ R0, a ∈ P.R) :
    RCtx P.d X.ρ (rcsOf X.ρ C) R0 (old p) X.B := by
  have hρ := hy.rho
  exact ⟨hnd, quorum_pos P.d hy.n1, fun a ha => hy.rcOk (hsub a ha),
    fun c hc => ⟨by have := (hy.oldRound p hp c hc).1; omega, (hy.oldRound p hp c hc).2⟩,
    hy.oldLen p hp, hy.fifo⟩

/-- a ROUND-CHANGE that does not make the leader propose leaves the round timer alone. -/
theorem rc_timerOn {d : Def} {r : Nat} {rcOf : Nat → Msg} {R0 : List Nat} {old : List Msg} {B : Nat}
    (hc : RCtx d r rcOf R0 old B) {iv p : Nat} {s0 : NodeState} {T : List Nat} {a : Nat}
    {s : NodeState} {o : Oracle} (hpre : ∃ U, (T ++ [a]) ++ U = R0)
    (hinv : InvR' d r iv p rcOf old s0 T s)
    (hnf : ¬ (d.leader r = p ∧ T.length + 1 = d.quorum)) :
    (step d o s (.recv (rcOf a) .ok)).1.timerOn = s.timerOn := by
  obtain ⟨hm, hb, h1, h2, h3, hcache, hin, hp3, hdd⟩ := hinv
  have hnd := nodup_of_prefix hc.nodup hpre
  obtain ⟨U, hU⟩ := hpre
  have hT' : ∀ x ∈ T ++ [a], x ∈ R0 := by
    intro x hx; rw [← hU]; exact List.mem_append_left _ hx
  have haR : a ∈ R0 := hT' a (by simp)
  have hrca := hc.rc a haR
  have hq1 := hc.qpos
  have hbuf : BufIs (bufferMsg d.fifo s.buffer (rcOf a)) (old ++ (T ++ [a]).map rcOf) := by
    have := bufIs_bufferMsg (fifo := d.fifo) (m := rcOf a) hb (by
      have h := filter_src_map_le_one (mk := fun x => if x ∈ T ++ [a] then rcOf x else rcMsg r x)
        (by intro q; split
            · rename_i hq; exact (hc.rc q (hT' q hq)).src
            · rfl) hnd (rcOf a).core.src
      have hmap : (T ++ [a]).map (fun x => if x ∈ T ++ [a] then rcOf x else rcMsg r x) =
          (T ++ [a]).map rcOf := by
        apply List.map_congr_left
        intro x hx; rw [if_pos hx]
      rw [hmap] at h
      have h2 := hc.oldLen (rcOf a).core.src
      have hf := hc.fifo
      simp only [List.map_append, List.map_cons, List.map_nil, List.filter_append,
        List.length_append] at h ⊢
      omega)
    simpa using this
  have hcnt : (filterRoundChange (flatten o.srcOrd (bufferMsg d.fifo s.buffer (rcOf a))) s.round).length
      = T.length + 1 := by
    rw [hm.round, hc.frc_length hT' hnd hbuf]; simp
  have hj := hrca.justified hq1 s.compareFailureRound
  have hlen : (T ++ [a]).length = T.length + 1 := by simp
  by_cases hlt : T.length + 1 < d.quorum
  · rw [step_rc_below hm.dead hm.started hm.qc hj hrca.typ (by rw [hrca.round, hm.round]) (by omega)]
  · obtain ⟨J, hJ⟩ := hc.qrc_some (ord := o.srcOrd) hT' hnd hbuf (by rw [hlen]; omega) o.pqPerm
    have hJ' : getJustifiedQrc d o.pqPerm (flatten o.srcOrd (bufferMsg d.fifo s.buffer (rcOf a)))
        s.round = some J := by rw [hm.round]; exact hJ
    have hrr : (rcOf a).core.round = s.round := by rw [hrca.round, hm.round]
    by_cases hl : d.leader r = p
    · have hq : T.length + 1 ≠ d.quorum := fun e => hnf ⟨hl, e⟩
      have hdd' : (uQuorumRoundChanges, (rcOf a).core.round) ∈ s.dedup := by
        rw [hrca.round]; exact hdd.mpr ⟨hl, by omega⟩
      rw [step_rc_dup' hm.dead hm.started hm.qc hj hrca.typ hrr (by omega) hJ' hdd']
    · rw [step_rc_nonleader' hm.dead hm.started hm.qc hj hrca.typ hrr (by omega) hJ'
        (by rw [hm.round, hm.proc]; exact hl)]

section Stage
variable {P : TParams} {timeout : Nat → Nat} {X : PRd} {C : Nat → NodeState} {old : Nat → List Msg}

theorem PMem.started {now p : Nat} {nd : TNode} {T : List Nat}
    (h : PMem P timeout X C old now p nd T) : nd.st.started = true := by
  cases h with
  | pend e a1 => exact a1.mid.started
  | act dl a1 => exact a1.1.started

/-- elements delivered or in flight to `p` are distinct members that entered. -/
theorem S1.srcs {s : TState} {T : Nat → List Nat} (hy : PHyp P timeout X C old)
    (h : S1 P timeout X C old s T) {p : Nat} (hp : p ∈ P.R) :
    ((inflight p s.net).map (·.core.src) ++ T p).Nodup ∧
    ∀ a ∈ (inflight p s.net).map (·.core.src) ++ T p, a ∈ P.R ∧ (s.node a).st.round = X.ρ := by
  have hperm := h.acct p hp
  refine ⟨hperm.nodup_iff.mpr (hy.nodup.filter _), ?_⟩
  intro a ha
  have := (hperm.mem_iff.mp ha)
  rw [List.mem_filter] at this
  exact ⟨this.1, by simpa [enteredB] using this.2⟩

/-- **time passes** -/
theorem s1_tick {s : TState} {T : Nat → List Nat} (h : S1 P timeout X C old s T) (dt : Nat)
    (hc : canTick P s dt = true) : S1 P timeout X C old { s with now := s.now + dt } T := by
  unfold canTick at hc
  rw [Bool.and_eq_true, List.all_eq_true, List.all_eq_true] at hc
  refine ⟨?_, h.acct, ?_⟩
  · intro pk hpk
    obtain ⟨a1, _, a3, a4, a5⟩ := h.net_ok pk hpk
    have := hc.2 pk hpk
    exact ⟨a1, by simpa using this, a3, a4, a5⟩
  · intro p hp
    have ht := hc.1 p hp
    cases h.mem p hp with
    | pend e a1 a2 a3 a4 a5 a6 a7 =>
      rw [a3] at ht
      exact .pend e a1 a2 a3 a4 a5 (by simpa using ht) a7
    | act dl a1 a2 a3 a4 a5 a6 a7 a8 a9 =>
      rw [a5] at ht
      exact .act dl a1 a2 a3 (by show X.E ≤ s.now + dt; omega) a5 a6 a7 (by simpa using ht) a9

/-- **a round timer fires**: the member enters the round and broadcasts its ROUND-CHANGE with its
prepared certificate. -/
theorem s1_fire {s : TState} {T : Nat → List Nat} (hy : PHyp P timeout X C old)
    (h : S1 P timeout X C old s T) {p : Nat} (hp : p ∈ P.R) (ht : (s.node p).timer = some s.now)
    (hnr : (s.node p).st.round ≠ X.ρ) :
    S1 P timeout X C old (actNode P s p {} [.timeout] s.net []) T := by
  have hρ := hy.rho
  have hq1 := quorum_pos P.d hy.n1
  cases h.mem p hp with
  | act dl a1 => exact absurd a1.1.round hnr
  | pend e a1 a2 a3 a4 a5 a6 a7 =>
    rw [a3] at ht
    have he : e = s.now := by injection ht
    subst he
    have hst := step_timeout (d := P.d) (o := ({} : Oracle)) a1.mid.dead a1.mid.started a1.aux.timer
    have hr : (s.node p).st.round + 1 = X.ρ := by rw [a1.mid.round]; omega
    rw [hr, a1.aux.pr, a1.aux.pv, a1.aux.pj] at hst
    have htw : twires p (step P.d {} (s.node p).st .timeout).2 = [rcsOf X.ρ C p] := by
      rw [hst]; rfl
    have hnode : (actNode P s p {} [.timeout] s.net []).node p =
        updNode P s.now (s.node p) (step P.d {} (s.node p).st .timeout) [] := by
      rw [actNode_one]; simp
    have hother : ∀ q, q ≠ p → (actNode P s p {} [.timeout] s.net []).node q = s.node q := by
      intro q hq; rw [actNode_one]; simp [hq]
    have hnet : (actNode P s p {} [.timeout] s.net []).net =
        s.net ++ sendAll P.R s.now [rcsOf X.ρ C p] := by
      rw [actNode_one]; simp only; rw [htw]
    have hnow : (actNode P s p {} [.timeout] s.net []).now = s.now := by
      rw [actNode_one]
    have hround' : ((actNode P s p {} [.timeout] s.net []).node p).st.round = X.ρ := by
      rw [hnode]; simp only [updNode]; rw [hst]
    refine ⟨?_, ?_, ?_⟩
    · intro pk hpk
      rw [hnet] at hpk
      rw [hnow]
      rcases List.mem_append.mp hpk with hpk | hpk
      · exact h.net_ok pk hpk
      · obtain ⟨b1, b2, b3⟩ := mem_sendAll hpk
        simp only [List.mem_singleton] at b2
        refine ⟨b1, by omega, by omega, by omega, ?_⟩
        rw [b2]; rfl
    · intro q hq
      have hgain : (P.R.filter (fun a => enteredB X.ρ ((actNode P s p {} [.timeout] s.net []).node a))).Perm
          (p :: P.R.filter (fun a => enteredB X.ρ (s.node a))) := by
        apply filter_gain hy.nodup hp
        · simpa [enteredB] using hnr
        · simpa [enteredB] using hround'
        · intro a ha; simp only [enteredB]; rw [hother a ha]
      rw [hnet, inflight_append, inflight_sendAll hy.nodup hq, List.map_append]
      have h1 : ((inflight q s.net).map (·.core.src) ++ [rcsOf X.ρ C p].map (·.core.src) ++ T q).Perm
          (p :: ((inflight q s.net).map (·.core.src) ++ T q)) := by
        simp only [List.map_cons, List.map_nil, rcsOf_src]
        rw [List.append_assoc]
        exact List.perm_middle
      exact h1.trans ((List.Perm.cons p (h.acct q hq)).trans hgain.symm)
    · intro q hq
      rw [hnow]
      by_cases hqp : q = p
      · subst hqp
        rw [hnode]
        have harm : (armAll P.arm s.now ((s.node q).timer, (s.node q).firsts)
            (step P.d {} (s.node q).st .timeout).2).1 = some (s.now + timeout X.ρ) := by
          rw [hst, hy.arm]
          simp [armAll, armStep, relTimer]
        refine .act (s.now + timeout X.ρ) ?_ ?_ ?_ a4 ?_ (by omega) (by omega) (by omega) ?_
        · simp only [updNode]; rw [hst, a2]
          refine ⟨⟨a1.mid.dead, a1.mid.started, rfl, a1.mid.qc, a1.mid.cfr, a1.mid.proc⟩,
            by simpa using a1.buf, by simp, by simp, by simp, rfl, a1.aux.iv,
            ⟨rfl, rfl, rfl⟩, ?_⟩
          simp only [List.not_mem_nil, List.length_nil, false_iff, not_and]
          intro _; omega
        · simp only [updNode]; rw [hst]
        · simp only [updNode]; rw [hst]
          exact Quiet.append a7 ⟨rfl, rfl⟩
        · simp only [updNode]; exact harm
        · intro _; rw [a2]; simp; omega
      · rw [hother q hqp]
        exact h.mem q hq

/-- the delivery at which the leader reaches its quorum of ROUND-CHANGEs: what it broadcasts. -/
def Fires (P : TParams) (X : PRd) (C : Nat → NodeState) (s : TState) (k : Nat) (o : Oracle) : Prop :=
  ∃ pk Q, s.net[k]? = some pk ∧ pk.dst = X.l ∧ pk.sent + P.lo < s.now ∧
    Q.Nodup ∧ Q.length = P.d.quorum ∧ (∀ a ∈ Q, a ∈ P.R) ∧
    FireR' P.d X.ρ (C X.l).inputValue (rcsOf X.ρ C) Q
      (step P.d o (s.node X.l).st (.recv pk.msg .ok)).2

/-- **a ROUND-CHANGE is delivered**: it is buffered — or the receiver is the leader, this is its
quorum-th ROUND-CHANGE and it proposes. -/
theorem s1_deliver {s : TState} {T : Nat → List Nat} (hy : PHyp P timeout X C old)
    (h : S1 P timeout X C old s T) (o : Oracle) {k : Nat} {pk : Packet} (hk : s.net[k]? = some pk)
    (hlo : pk.sent + P.lo < s.now) :
    (∃ T', S1 P timeout X C old
      (actNode P s pk.dst o [.recv pk.msg .ok] (s.net.eraseIdx k) [pk.msg]) T') ∨
    Fires P X C s k o := by
  have hρ := hy.rho
  obtain ⟨A, B, hA, hB⟩ := eraseIdx_split hk
  have hmem : pk ∈ s.net := by rw [hA]; simp
  obtain ⟨hdst, _, hE, hsent, hmsg⟩ := h.net_ok pk hmem
  generalize ha : pk.msg.core.src = a at hmsg
  have hlo' := hy.lo
  cases h.mem pk.dst hdst with
  | pend e a1 a2 a3 a4 a5 a6 a7 => omega
  | act dl a1 a2 a3 a4 a5 a6 a7 a8 a9 =>
    obtain ⟨hnd, hsub⟩ := h.srcs hy hdst
    have hin : a ∈ (inflight pk.dst s.net).map (·.core.src) := by
      rw [List.mem_map]
      exact ⟨pk.msg, mem_inflight.mpr ⟨pk, hmem, rfl, rfl⟩, ha⟩
    have hperm0 : ((inflight pk.dst s.net).map (·.core.src)).Perm
        (a :: (inflight pk.dst (s.net.eraseIdx k)).map (·.core.src)) := by
      rw [hB, hA]
      have := (inflight_split_same pk.dst A B pk rfl).map (·.core.src)
      rw [List.map_cons, ha] at this
      exact this
    -- `T ++ [a]` is duplicate-free and consists of members
    have hnd2 : (a :: (inflight pk.dst (s.net.eraseIdx k)).map (·.core.src) ++ T pk.dst).Nodup :=
      ((hperm0.append_right (T pk.dst)).nodup_iff).mp hnd
    have haT : a ∉ T pk.dst := by
      intro hc
      rw [List.cons_append, List.nodup_cons] at hnd2
      exact hnd2.1 (List.mem_append_right _ hc)
    have hTnd : (T pk.dst ++ [a]).Nodup := by
      rw [List.cons_append, List.nodup_cons] at hnd2
      have := (List.nodup_append.mp hnd2.2).2.1
      rw [List.nodup_append]
      refine ⟨this, by simp, ?_⟩
      intro x hx y hy'
      simp only [List.mem_singleton] at hy'
      subst hy'
      intro he; subst he; exact haT hx
    have hTsub : ∀ x ∈ T pk.dst ++ [a], x ∈ P.R := by
      intro x hx
      rcases List.mem_append.mp hx with hx | hx
      · exact (hsub x (List.mem_append_right _ hx)).1
      · simp only [List.mem_singleton] at hx; subst hx
        exact (hsub _ (List.mem_append_left _ hin)).1
    have hctx := hy.rctx hdst hTnd hTsub
    have hstep := rc_step' hctx (C pk.dst).inputValue pk.dst (C pk.dst)
      (fun hl => Or.inl (by rw [hy.lead] at hl; rw [← hl]; exact hy.inp (hl ▸ hdst)))
      (T pk.dst) a (s.node pk.dst).st o ⟨[], by simp⟩ a1
    rw [← hmsg] at hstep
    obtain ⟨hinv', hout⟩ := hstep
    by_cases hfire : P.d.leader X.ρ = pk.dst ∧ (T pk.dst).length + 1 = P.d.quorum
    · right
      rw [if_pos (by rw [if_pos hfire.1]; exact hfire.2)] at hout
      have hld : pk.dst = X.l := by rw [← hy.lead]; exact hfire.1.symm
      refine ⟨pk, T pk.dst ++ [a], hk, hld, hlo, hTnd, by simp [hfire.2], hTsub, ?_⟩
      rw [← hld]
      have : (T pk.dst ++ [a]).take P.d.quorum = T pk.dst ++ [a] := by
        apply List.take_of_length_le; simp; omega
      rw [this] at hout
      exact hout
    · left
      rw [if_neg (by
        intro hc
        split at hc
        · rename_i hl; exact hfire ⟨hl, hc⟩
        · omega)] at hout
      refine ⟨fun q => if q = pk.dst then T pk.dst ++ [a] else T q, ?_⟩
      have hnode : (actNode P s pk.dst o [.recv pk.msg .ok] (s.net.eraseIdx k) [pk.msg]).node pk.dst =
          updNode P s.now (s.node pk.dst) (step P.d o (s.node pk.dst).st (.recv pk.msg .ok)) [pk.msg] := by
        rw [actNode_one]; simp
      have hother : ∀ q, q ≠ pk.dst →
          (actNode P s pk.dst o [.recv pk.msg .ok] (s.net.eraseIdx k) [pk.msg]).node q = s.node q := by
        intro q hq; rw [actNode_one]; simp [hq]
      have hnet : (actNode P s pk.dst o [.recv pk.msg .ok] (s.net.eraseIdx k) [pk.msg]).net =
          s.net.eraseIdx k := by
        rw [actNode_one]; simp only; rw [hout]; simp [twires, sendAll]
      have hnow : (actNode P s pk.dst o [.recv pk.msg .ok] (s.net.eraseIdx k) [pk.msg]).now = s.now := by
        rw [actNode_one]
      have hent : ∀ q, enteredB X.ρ
          ((actNode P s pk.dst o [.recv pk.msg .ok] (s.net.eraseIdx k) [pk.msg]).node q) =
          enteredB X.ρ (s.node q) := by
        intro q
        by_cases hq : q = pk.dst
        · subst hq
          rw [hnode]
          simp only [enteredB, updNode]
          rw [hinv'.1.round, a1.1.round]
        · rw [hother q hq]
      refine ⟨?_, ?_, ?_⟩
      · intro pk' hpk'
        rw [hnet, hB] at hpk'
        rw [hnow]
        apply h.net_ok
        rw [hA]
        rcases List.mem_append.mp hpk' with hh | hh
        · exact List.mem_append_left _ hh
        · exact List.mem_append_right _ (List.mem_cons_of_mem _ hh)
      · intro q hq
        rw [hnet, filter_same (fun a _ => hent a)]
        by_cases hqd : q = pk.dst
        · subst hqd
          rw [if_pos rfl]
          have h2 := h.acct pk.dst hq
          have h3 : ((inflight pk.dst (s.net.eraseIdx k)).map (·.core.src) ++ (T pk.dst ++ [a])).Perm
              (a :: (inflight pk.dst (s.net.eraseIdx k)).map (·.core.src) ++ T pk.dst) := by
            rw [← List.append_assoc]
            refine List.perm_append_comm.trans ?_
            simp
          exact h3.trans ((hperm0.append_right (T pk.dst)).symm.trans h2)
        · rw [if_neg hqd, hB]
          have : inflight q (A ++ B) = inflight q s.net := by
            rw [hA, inflight_split_other q A B pk (fun hc => hqd hc.symm)]
          rw [this]
          exact h.acct q hq
      · intro q hq
        rw [hnow]
        by_cases hqd : q = pk.dst
        · subst hqd
          rw [if_pos rfl, hnode]
          have hupd : updNode P s.now (s.node pk.dst) (step P.d o (s.node pk.dst).st (.recv pk.msg .ok)) [pk.msg] =
              { st := (step P.d o (s.node pk.dst).st (.recv pk.msg .ok)).1, outs := (s.node pk.dst).outs,
                timer := (s.node pk.dst).timer, firsts := (s.node pk.dst).firsts,
                rcvd := (s.node pk.dst).rcvd ++ [pk.msg] } := by
            simp only [updNode]; rw [hout]; simp [armAll]
          rw [hupd]
          refine .act dl hinv' ?_ a3 a4 a5 a6 a7 a8 ?_
          · rw [hmsg, rc_timerOn hctx ⟨[], by simp⟩ a1 (by rw [hy.lead]; rw [hy.lead] at hfire; exact hfire)]; exact a2
          · intro hl
            simp only [List.length_append, List.length_singleton]
            have := a9 hl
            have : (T pk.dst).length + 1 ≠ P.d.quorum := fun hc => hfire ⟨by rw [hy.lead]; exact hl, hc⟩
            omega
        · rw [if_neg hqd, hother q hqd]
          exact h.mem q hq

/-- **one action**: the invariant is kept, or the leader proposes. -/
theorem s1_step {s s' : TState} {T : Nat → List Nat} (hy : PHyp P timeout X C old)
    (h : S1 P timeout X C old s T) (a : TAct) (hs : tstep P s a = some s')
    (hnf : ∀ p, a = .fire p → (s.node p).st.round ≠ X.ρ) :
    (∃ T', S1 P timeout X C old s' T') ∨ ∃ k o, a = .deliver k o ∧ Fires P X C s k o := by
  cases a with
  | tick dt =>
    simp only [tstep] at hs
    split at hs
    · rename_i hc
      cases hs
      exact Or.inl ⟨T, s1_tick h dt hc⟩
    · cases hs
  | deliver k o =>
    simp only [tstep] at hs
    split at hs
    · cases hs
    · rename_i pk hk
      split at hs
      · rename_i hlo
        cases hs
        rcases s1_deliver hy h o hk hlo with h' | h'
        · exact Or.inl h'
        · exact Or.inr ⟨k, o, rfl, h'⟩
      · cases hs
  | fire p =>
    simp only [tstep] at hs
    split at hs
    · rename_i hc
      cases hs
      exact Or.inl ⟨T, s1_fire hy h hc.1 hc.2 (hnf p rfl)⟩
    · cases hs
  | start p =>
    simp only [tstep] at hs
    split at hs
    · rename_i hc
      have := (h.mem p hc.1).started
      rw [hc.2] at this
      cases this
    · cases hs

/-- **the stage lasts at most `σ + hi`**: while the leader runs and has not proposed, one of the
ROUND-CHANGEs of the quorum it waits for is still to be sent or in flight to it. -/
theorem s1_now_le {s : TState} {T : Nat → List Nat} (hy : PHyp P timeout X C old)
    (h : S1 P timeout X C old s T) (hl : X.l ∈ P.R) (hq : P.d.quorum ≤ P.R.length) :
    s.now ≤ X.E + X.σ + P.hi := by
  have hρ := hy.rho
  by_cases hall : ∀ a ∈ P.R, (s.node a).st.round = X.ρ
  · cases h.mem X.l hl with
    | pend e a1 =>
      have := a1.mid.round; have := hall X.l hl; omega
    | act dl a1 a2 a3 a4 a5 a6 a7 a8 a9 =>
      have hlen := (h.acct X.l hl).length_eq
      have hfil : P.R.filter (fun a => enteredB X.ρ (s.node a)) = P.R := by
        rw [List.filter_eq_self]
        intro a ha; simpa [enteredB] using hall a ha
      rw [hfil, List.length_append, List.length_map] at hlen
      have := a9 rfl
      have hne : inflight X.l s.net ≠ [] := by
        intro hc; rw [hc] at hlen; simp at hlen; omega
      obtain ⟨m, hm⟩ := List.exists_mem_of_ne_nil _ hne
      obtain ⟨pk, hpk, _, _⟩ := mem_inflight.mp hm
      obtain ⟨_, b2, _, b4, _⟩ := h.net_ok pk hpk
      omega
  · have : ∃ a ∈ P.R, (s.node a).st.round ≠ X.ρ := by
      apply Classical.byContradiction
      intro hc; apply hall
      intro a ha
      apply Classical.byContradiction
      intro hr; exact hc ⟨a, ha, hr⟩
    obtain ⟨a, ha, hr⟩ := this
    cases h.mem a ha with
    | pend e a1 a2 a3 a4 a5 a6 a7 => omega
    | act dl a1 => exact absurd a1.1.round hr

/-- **Every execution** from a state of the stage stays in the stage or passes through the delivery
at which the leader proposes; the clock cannot pass `E + σ + hi` before that. -/
theorem s1_exec (hy : PHyp P timeout X C old) (hl : X.l ∈ P.R) (hq : P.d.quorum ≤ P.R.length)
    (hfit : X.σ + P.hi < timeout X.ρ) :
    ∀ (acts : List TAct) (s : TState) (T : Nat → List Nat), S1 P timeout X C old s T →
    ∀ s', texec P s acts = some s' →
      (∃ T', S1 P timeout X C old s' T') ∨
      ∃ a1 k o a2 s1 T1, acts = a1 ++ TAct.deliver k o :: a2 ∧ texec P s a1 = some s1 ∧
        S1 P timeout X C old s1 T1 ∧ Fires P X C s1 k o := by
  intro acts
  induction acts with
  | nil =>
    intro s T h s' hs
    simp only [texec] at hs; cases hs
    exact Or.inl ⟨T, h⟩
  | cons a as ih =>
    intro s T h s' hs
    simp only [texec] at hs
    split at hs
    · cases hs
    · rename_i s1 hs1
      have hnf : ∀ p, a = .fire p → (s.node p).st.round ≠ X.ρ := by
        intro p ha hr
        subst ha
        simp only [tstep] at hs1
        split at hs1
        · rename_i hc
          have hnow := s1_now_le hy h hl hq
          cases h.mem p hc.1 with
          | pend e a1 => have := a1.mid.round; have := hy.rho; omega
          | act dl a1 a2 a3 a4 a5 a6 a7 a8 a9 =>
            rw [a5] at hc
            have : dl = s.now := by injection hc.2
            omega
        · cases hs1
      rcases s1_step hy h a hs1 hnf with ⟨T', h'⟩ | ⟨k, o, ha, hf⟩
      · rcases ih s1 T' h' s' hs with h2 | ⟨a1, k, o, a2, s2, T2, e1, e2, e3, e4⟩
        · exact Or.inl h2
        · refine Or.inr ⟨a :: a1, k, o, a2, s2, T2, by rw [e1]; rfl, ?_, e3, e4⟩
          simp only [texec, hs1]; exact e2
      · exact Or.inr ⟨[], k, o, as, s, T, by rw [ha]; rfl, rfl, h, hf⟩

/-! ### Start of the stage -/

/-- The timed analogue of `Stuck`: all running members sit in round `ρ - 1`, undecided, their round
timers due at instants in `[E, E + σ]`, nothing in flight; member `p` received `old p` so far and
holds the prepared state and input of `C p`. -/
structure PoisedP (P : TParams) (X : PRd) (C : Nat → NodeState) (old : Nat → List Msg)
    (s : TState) : Prop where
  net : s.net = []
  mem : ∀ p ∈ P.R, ∃ e, Wait (X.ρ - 1) p (old p) (C p) (s.node p).st ∧ (s.node p).timer = some e ∧
    X.E ≤ e ∧ e ≤ X.E + X.σ ∧ s.now ≤ e ∧ Quiet (s.node p).outs

theorem poisedP_s1 {s : TState} (hy : PHyp P timeout X C old) (h : PoisedP P X C old s) :
    S1 P timeout X C old s (fun _ => []) := by
  have hρ := hy.rho
  refine ⟨?_, ?_, ?_⟩
  · intro pk hpk; rw [h.net] at hpk; cases hpk
  · intro p _
    rw [h.net]
    have : P.R.filter (fun a => enteredB X.ρ (s.node a)) = [] := by
      rw [List.filter_eq_nil_iff]
      intro a ha
      obtain ⟨e, a1, _⟩ := h.mem a ha
      simp only [enteredB, beq_iff_eq]
      have := a1.mid.round; omega
    rw [this]
    simp [inflight]
  · intro p hp
    obtain ⟨e, a1, a2, a3, a4, a5, a6⟩ := h.mem p hp
    exact .pend e a1 rfl a2 a3 a4 a5 a6

/-! ### A round whose leader is down -/

/-- Leader not running: the execution keeps the invariant, or it has a prefix that keeps it and
ends at an instant `≥ E + timeout ρ` (the first round-`ρ` timer is about to fire). -/
theorem s1_silent_split (hy : PHyp P timeout X C old) (hsil : X.l ∉ P.R) :
    ∀ (acts : List TAct) (s : TState) (T : Nat → List Nat), S1 P timeout X C old s T →
    ∀ s', texec P s acts = some s' →
      (∃ T', S1 P timeout X C old s' T') ∨
      ∃ a1 a2 s1 T1, acts = a1 ++ a2 ∧ texec P s a1 = some s1 ∧ texec P s1 a2 = some s' ∧
        S1 P timeout X C old s1 T1 ∧ X.E + timeout X.ρ ≤ s1.now := by
  intro acts
  induction acts with
  | nil =>
    intro s T h s' hs
    simp only [texec] at hs; cases hs
    exact Or.inl ⟨T, h⟩
  | cons a as ih =>
    intro s T h s' hs
    by_cases hfa : ∃ p, a = .fire p ∧ p ∈ P.R ∧ (s.node p).st.round = X.ρ ∧ (s.node p).timer = some s.now
    · obtain ⟨p, _, hp, hr, ht⟩ := hfa
      refine Or.inr ⟨[], a :: as, s, T, rfl, rfl, hs, h, ?_⟩
      cases h.mem p hp with
      | pend e a1 => have := a1.mid.round; have := hy.rho; omega
      | act dl a1 a2 a3 a4 a5 a6 a7 a8 a9 =>
        rw [a5] at ht
        have : dl = s.now := by injection ht
        omega
    · simp only [texec] at hs
      split at hs
      · cases hs
      · rename_i s1 hs1
        have hnf : ∀ p, a = .fire p → (s.node p).st.round ≠ X.ρ := by
          intro p ha hr
          subst ha
          simp only [tstep] at hs1
          split at hs1
          · rename_i hc
            exact hfa ⟨p, rfl, hc.1, hr, hc.2⟩
          · cases hs1
        rcases s1_step hy h a hs1 hnf with ⟨T', h'⟩ | ⟨k, o, _, pk, Q, hk, hd, _⟩
        · rcases ih s1 T' h' s' hs with h2 | ⟨a1, a2, s2, T2, e1, e2, e3, e4, e5⟩
          · exact Or.inl h2
          · refine Or.inr ⟨a :: a1, a2, s2, T2, by rw [e1]; rfl, ?_, e3, e4, e5⟩
            simp only [texec, hs1]; exact e2
        · exfalso
          have : pk ∈ s.net := List.mem_of_getElem? hk
          exact hsil (hd ▸ (h.net_ok pk this).1)

/-- the next round. -/
def PRd.next (X : PRd) (timeout : Nat → Nat) (l' : Nat) : PRd :=
  ⟨X.ρ + 1, l', X.E + timeout X.ρ, X.σ, X.B + 1⟩

/-- what member `p` holds after the stage: the earlier messages and the ROUND-CHANGEs delivered. -/
def oldNext (X : PRd) (C : Nat → NodeState) (old : Nat → List Msg) (T : Nat → List Nat) :
    Nat → List Msg := fun p => old p ++ (T p).map (rcsOf X.ρ C)

theorem phyp_next {s : TState} {T : Nat → List Nat} (hy : PHyp P timeout X C old)
    (h : S1 P timeout X C old s T) {l' : Nat} (hlead : P.d.leader (X.ρ + 1) = l')
    (hinp : l' ∈ P.R → (C l').inputValue ≠ 0) (hfifo : X.B + 2 ≤ P.d.fifo) :
    PHyp P timeout (X.next timeout l') C (oldNext X C old T) := by
  have hρ := hy.rho
  refine ⟨hy.nodup, hy.n1, by show 2 ≤ X.ρ + 1; omega, hlead, hy.arm, ?_, ?_, ?_,
    by show X.B + 1 + 1 ≤ P.d.fifo; omega, hinp, hy.lo⟩
  · intro a ha
    show CertState P.d (X.ρ + 1 - 1) (C a)
    rcases hy.cert a ha with h1 | ⟨h1, h2, h3, h4⟩
    · exact Or.inl h1
    · exact Or.inr ⟨h1, by omega, h3, h4⟩
  · intro p hp c hc
    show c.round ≤ X.ρ + 1 - 1 ∧ PrepGood c
    obtain ⟨hnd, hsub⟩ := h.srcs hy hp
    have hctx := hy.rctx hp (R0 := T p) (List.nodup_append.mp hnd).2.1
      (fun a ha => (hsub a (List.mem_append_right _ ha)).1)
    have := hctx.cores (T := T p) (fun a ha => ha) c hc
    exact ⟨by omega, this.2.1⟩
  · intro p hp a
    obtain ⟨hnd, _⟩ := h.srcs hy hp
    exact filter_src_append_le (hy.oldLen p hp) (rcsOf_src X.ρ C) (List.nodup_append.mp hnd).2.1 a

/-- **End of a silent round = start of the next one**: once the clock has passed `E + σ + hi` (and
no round-`ρ` timer has fired) every running member sits in round `ρ` with all ROUND-CHANGEs
delivered, its prepared state untouched, its timer due in `[E + timeout ρ, E + timeout ρ + σ]`. -/
theorem poisedP_next {s : TState} {T : Nat → List Nat}
    (h : S1 P timeout X C old s T) (hlate : X.E + X.σ + P.hi < s.now) (l' : Nat) :
    PoisedP P (X.next timeout l') C (oldNext X C old T) s := by
  constructor
  · cases hnet : s.net with
    | nil => rfl
    | cons pk rest =>
      have := h.net_ok pk (by rw [hnet]; exact List.mem_cons_self)
      omega
  · intro p hp
    cases h.mem p hp with
    | pend e a1 a2 a3 a4 a5 a6 a7 => omega
    | act dl a1 a2 a3 a4 a5 a6 a7 a8 a9 =>
      obtain ⟨b1, b2, _, _, _, _, b7, b8, _⟩ := a1
      refine ⟨dl, ⟨?_, b2, ⟨b8.1, b8.2.1, b8.2.2, b7, a2⟩⟩, a5, a6, ?_, a8, a3⟩
      · show Mid (X.ρ + 1 - 1) p (s.node p).st
        rw [Nat.add_sub_cancel]; exact b1
      · show dl ≤ X.E + timeout X.ρ + X.σ
        omega

/-- while the leader is down nobody leaves the stage before a round-`ρ` timer is due. -/
theorem s1_silent_now_le {s : TState} {T : Nat → List Nat} (h : S1 P timeout X C old s T)
    {p : Nat} (hp : p ∈ P.R) : s.now ≤ X.E + X.σ + timeout X.ρ := by
  cases h.mem p hp with
  | pend e a1 a2 a3 a4 a5 a6 a7 => omega
  | act dl a1 a2 a3 a4 a5 a6 a7 a8 a9 => omega

end Stage

/-! ### Several rounds: silent ones — whatever prepared state the earlier rounds left — then one
whose leader runs -/

theorem texec_append {P : TParams} : ∀ (a : List TAct) (s s1 : TState) (b : List TAct),
    texec P s a = some s1 → texec P s (a ++ b) = texec P s1 b := by
  intro a
  induction a with
  | nil => intro s s1 b h; simp only [texec] at h; cases h; rfl
  | cons x xs ih =>
    intro s s1 b h
    simp only [List.cons_append, texec] at h ⊢
    split at h
    · cases h
    · rename_i s2 hs2
      exact ih s2 s1 b h

theorem sumTimeouts_shift (timeout : Nat → Nat) (ρ : Nat) :
    ∀ m, timeout ρ + sumTimeouts timeout (ρ + 1) m = sumTimeouts timeout ρ (m + 1) := by
  intro m
  induction m with
  | zero => simp [sumTimeouts]
  | succ m ih =>
    rw [show sumTimeouts timeout (ρ + 1) (m + 1) =
      sumTimeouts timeout (ρ + 1) m + timeout (ρ + 1 + m) from rfl, ← Nat.add_assoc, ih,
      show ρ + 1 + m = ρ + (m + 1) by omega]
    rfl

/-- **`m` rounds whose leaders are down, then a round whose leader runs**, from a cluster whose
members may hold prepared certificates: in every execution that has passed

  `E + (timeout ρ + … + timeout (ρ + m - 1)) + σ + hi`

the leader of round `ρ + m` has reached its quorum of ROUND-CHANGEs and proposed (`Fires`), the
cluster being in the ROUND-CHANGE stage of round `ρ + m` (`S1`) until then. -/
theorem rot_prepared {P : TParams} {timeout : Nat → Nat} {C : Nat → NodeState}
    (hq : P.d.quorum ≤ P.R.length) (hinp : ∀ p ∈ P.R, (C p).inputValue ≠ 0) :
    ∀ (m : Nat) (X : PRd) (old : Nat → List Msg), PHyp P timeout X C old →
    (∀ k, k < m → P.d.leader (X.ρ + k) ∉ P.R) → P.d.leader (X.ρ + m) ∈ P.R →
    (∀ k, k ≤ m → X.σ + P.hi < timeout (X.ρ + k)) → X.B + m + 1 ≤ P.d.fifo →
    ∀ (s : TState), PoisedP P X C old s →
    ∀ (acts : List TAct) (s' : TState), texec P s acts = some s' →
      X.E + sumTimeouts timeout X.ρ m + X.σ + P.hi < s'.now →
      ∃ (X' : PRd) (old' : Nat → List Msg) (a1 : List TAct) (k : Nat) (o : Oracle) (a2 : List TAct)
        (s1 : TState) (T1 : Nat → List Nat),
        X'.ρ = X.ρ + m ∧ X'.l = P.d.leader (X.ρ + m) ∧ X'.E = X.E + sumTimeouts timeout X.ρ m ∧
        X'.σ = X.σ ∧ PHyp P timeout X' C old' ∧
        acts = a1 ++ TAct.deliver k o :: a2 ∧ texec P s a1 = some s1 ∧
        S1 P timeout X' C old' s1 T1 ∧ Fires P X' C s1 k o ∧ s1.now ≤ X'.E + X'.σ + P.hi := by
  intro m
  induction m with
  | zero =>
    intro X old hy _ hl hfit _ s hp acts s' hs hlate
    have hl' : X.l ∈ P.R := by rw [← hy.lead]; exact hl
    rcases s1_exec hy hl' hq (hfit 0 (Nat.le_refl _)) acts s _ (poisedP_s1 hy hp) s' hs with
      ⟨T', h'⟩ | ⟨a1, k, o, a2, s1, T1, e1, e2, e3, e4⟩
    · have := s1_now_le hy h' hl' hq
      simp only [sumTimeouts] at hlate
      omega
    · exact ⟨X, old, a1, k, o, a2, s1, T1, rfl, hy.lead.symm, rfl, rfl, hy, e1, e2, e3, e4,
        s1_now_le hy e3 hl' hq⟩
  | succ m ih =>
    intro X old hy hsil hl hfit hfifo s hp acts s' hs hlate
    have hsil0 : X.l ∉ P.R := by rw [← hy.lead]; exact hsil 0 (by omega)
    have hne : ∃ p, p ∈ P.R := by
      have := quorum_pos P.d hy.n1
      cases hR : P.R with
      | nil => rw [hR] at hq; simp at hq; omega
      | cons x xs => exact ⟨x, List.mem_cons_self⟩
    obtain ⟨p0, hp0⟩ := hne
    have hshift := sumTimeouts_shift timeout X.ρ m
    have hfit0 := hfit 0 (by omega)
    rcases s1_silent_split hy hsil0 acts s _ (poisedP_s1 hy hp) s' hs with
      ⟨T', h'⟩ | ⟨a1, a2, s1, T1, e1, e2, e3, e4, e5⟩
    · have := s1_silent_now_le h' hp0
      simp only [Nat.add_zero] at hfit0
      omega
    · have hy' := phyp_next hy e4 (l' := P.d.leader (X.ρ + 1)) rfl (fun h => hinp _ h) (by omega)
      have hp' := poisedP_next e4 (by simp only [Nat.add_zero] at hfit0; omega) (P.d.leader (X.ρ + 1))
      obtain ⟨X', old', b1, k, o, b2, s2, T2, r1, r2, r3, r4, r5, r6, r7, r8, r9, r10⟩ :=
        ih (X.next timeout (P.d.leader (X.ρ + 1))) _ hy'
          (fun k hk => by
            show P.d.leader (X.ρ + 1 + k) ∉ P.R
            rw [show X.ρ + 1 + k = X.ρ + (k + 1) by omega]; exact hsil (k + 1) (by omega))
          (by show P.d.leader (X.ρ + 1 + m) ∈ P.R
              rw [show X.ρ + 1 + m = X.ρ + (m + 1) by omega]; exact hl)
          (fun k hk => by
            show X.σ + P.hi < timeout (X.ρ + 1 + k)
            rw [show X.ρ + 1 + k = X.ρ + (k + 1) by omega]; exact hfit (k + 1) (by omega))
          (by show X.B + 1 + m + 1 ≤ P.d.fifo; omega) s1 hp' a2 s' e3
          (by show X.E + timeout X.ρ + sumTimeouts timeout (X.ρ + 1) m + X.σ + P.hi < s'.now
              omega)
      refine ⟨X', old', a1 ++ b1, k, o, b2, s2, T2, ?_, ?_, ?_, r4, r5, ?_, ?_, r8, r9, r10⟩
      · rw [r1]; show X.ρ + 1 + m = X.ρ + (m + 1); omega
      · rw [r2]; show P.d.leader (X.ρ + 1 + m) = _
        rw [show X.ρ + 1 + m = X.ρ + (m + 1) by omega]
      · rw [r3]; show X.E + timeout X.ρ + sumTimeouts timeout (X.ρ + 1) m = _; omega
      · rw [e1, r6, List.append_assoc]
      · rw [texec_append a1 s s1 b1 e2]; exact r7

/-! ### Reading the invariant and the proposal -/

/-- during the stage nobody has decided, faulted, returned, left the round or changed its prepared
state. -/
theorem S1.safe {P : TParams} {timeout : Nat → Nat} {X : PRd} {C : Nat → NodeState}
    {old : Nat → List Msg} {s : TState} {T : Nat → List Nat} (h : S1 P timeout X C old s T)
    {p : Nat} (hp : p ∈ P.R) :
    Quiet (s.node p).outs ∧ (s.node p).st.dead = false ∧ (s.node p).st.qCommit = [] ∧
    (s.node p).st.round ≤ X.ρ ∧
    Prep3 (C p).preparedRound (C p).preparedValue (C p).preparedJust (s.node p).st := by
  cases h.mem p hp with
  | pend e a1 a2 a3 a4 a5 a6 a7 =>
    exact ⟨a7, a1.mid.dead, a1.mid.qc, by rw [a1.mid.round]; omega, a1.aux.pr, a1.aux.pv, a1.aux.pj⟩
  | act dl a1 a2 a3 =>
    obtain ⟨b1, _, _, _, _, _, _, b8, _⟩ := a1
    exact ⟨a3, b1.dead, b1.qc, by rw [b1.round]; exact Nat.le_refl _, b8⟩

/-- **what the firing delivery does**: the leader's PRE-PREPARE — value `w ≠ 0`, justification `J`,
accepted by `isJustified` at every receiver, `w` = the value prepared in the highest prepared round
among the quorum `Q` of ROUND-CHANGEs the leader holds, or its own input if they are all null — is in
the log and in flight to every running member. -/
theorem fires_sends {P : TParams} {timeout : Nat → Nat} {X : PRd} {C : Nat → NodeState}
    {old : Nat → List Msg} (hy : PHyp P timeout X C old) {s s' : TState} {k : Nat} {o : Oracle}
    (hf : Fires P X C s k o) (hs : tstep P s (.deliver k o) = some s') :
    ∃ Q J w, Q.Nodup ∧ Q.length = P.d.quorum ∧ (∀ a ∈ Q, a ∈ P.R) ∧ w ≠ 0 ∧
      isJustified P.d (ppMsg X.ρ w J X.l) 0 = some true ∧
      ValueSpec (rcsOf X.ρ C) Q (C X.l).inputValue w ∧
      (∀ q ∈ P.R, ppMsg X.ρ w J X.l ∈ inflight q s'.net) ∧ ppMsg X.ρ w J X.l ∈ s'.log ∧
      s'.now = s.now := by
  obtain ⟨pk, Q, hk, hd, hlo, hQ1, hQ2, hQ3, J, w, hout, _, hw, hj, hv⟩ := hf
  simp only [tstep, hk, if_pos hlo] at hs
  cases hs
  rw [hy.lead] at hj
  refine ⟨Q, J, w, hQ1, hQ2, hQ3, hw, hj, hv, ?_, ?_, ?_⟩
  · intro q hq
    rw [actNode_one]
    simp only
    rw [hd, hout, inflight_append, inflight_sendAll hy.nodup hq]
    exact List.mem_append_right _ (by simp [twires, twire, ppMsg])
  · rw [actNode_one]
    simp only
    rw [hd, hout]
    exact List.mem_append_right _ (by simp [twires, twire, ppMsg])
  · rw [actNode_one]

/-- the phased predicate `Stuck` of `Proofs/QbftPrepared.lean` at every running member, timers due
in `[E, E + σ]` and an empty network give the start state of the timed stage. -/
theorem stuck_poised {P : TParams} {timeout : Nat → Nat} {X : PRd} {old : Nat → List Msg}
    {s : TState} (hR : P.R.Nodup) (hn : 1 ≤ P.d.nodes) (hρ : 2 ≤ X.ρ) (hlead : P.d.leader X.ρ = X.l)
    (harm : P.arm = relTimer timeout) (hfifo : X.B + 1 ≤ P.d.fifo) (hlo : X.σ ≤ P.lo)
    (hst : ∀ p ∈ P.R, Stuck P.d (X.ρ - 1) X.B p (old p) ((s.node p).st, (s.node p).outs))
    (hinp : X.l ∈ P.R → (s.node X.l).st.inputValue ≠ 0) (hnet : s.net = [])
    (htm : ∀ p ∈ P.R, ∃ e, (s.node p).timer = some e ∧ X.E ≤ e ∧ e ≤ X.E + X.σ ∧ s.now ≤ e) :
    PHyp P timeout X (fun p => (s.node p).st) old ∧ PoisedP P X (fun p => (s.node p).st) old s := by
  refine ⟨⟨hR, hn, hρ, hlead, harm, fun a ha => (hst a ha).cert, fun p hp => (hst p hp).oldRound,
    fun p hp => (hst p hp).oldLen, hfifo, hinp, hlo⟩, hnet, ?_⟩
  intro p hp
  obtain ⟨e, h1, h2, h3, h4⟩ := htm p hp
  exact ⟨e, ⟨(hst p hp).mid, (hst p hp).buf, ⟨rfl, rfl, rfl, rfl, (hst p hp).timer⟩⟩, h1, h2, h3, h4,
    (hst p hp).quiet⟩

end CharonV.Qbft
