/-
Helper lemmas for `Props/C12Create.lean` (model `Model/CreateGlue.lean`):

* association lists (`get?`, `put`), `writeSeq`, `dedupAmounts`
* `Laws`: the hypotheses on the cryptography; `tssShares`, `getValidators`, `mkLock` under them
* `runCreate`: shape of the trace in the success and in the failure case
* `verifyLock` of the created lock
* `combine`: honest directories, soundness of any accepted input, refusals
* `algCrypto` / `alg_laws`: threshold BLS (`Spec/Tbls`) satisfies `Laws`; `toyCrypto` for the examples
-/
import CharonV.Model.CreateGlue
import CharonV.Proofs.Tbls
import Mathlib.Data.List.Sort
import Mathlib.Data.List.Perm.Basic
import Mathlib.Data.List.Induction
import Mathlib.Data.List.Nodup
import Mathlib.Data.List.Range
import Mathlib.LinearAlgebra.Dual.Lemmas

set_option linter.unusedSectionVars false
set_option linter.unusedVariables false

namespace CharonV.CreateGlue

/-! ### association lists -/

section Maps
variable {K V : Type} [DecidableEq K]

theorem get?_append_of_none (m l : List (K × V)) (k : K) (h : get? m k = none) : get? (m ++ l) k = get? l k := by
  induction m with
  | nil => rfl
  | cons e r ih =>
    obtain ⟨k', v⟩ := e
    simp only [get?, List.cons_append] at h ⊢
    by_cases hk : k' = k
    · simp [hk] at h
    · simp only [hk, if_false] at h ⊢
      exact ih h

theorem get?_none_of_not_mem (m : List (K × V)) (k : K) (h : k ∉ m.map Prod.fst) : get? m k = none := by
  induction m with
  | nil => rfl
  | cons e r ih =>
    obtain ⟨k', v⟩ := e
    simp only [List.map_cons, List.mem_cons, not_or] at h
    simp only [get?]
    rw [if_neg (fun hh => h.1 hh.symm)]
    exact ih h.2

theorem get?_of_mem_nodup (m : List (K × V)) (hnd : (m.map Prod.fst).Nodup) (k : K) (v : V) (h : (k, v) ∈ m) :
    get? m k = some v := by
  induction m with
  | nil => cases h
  | cons e r ih =>
    obtain ⟨k', v'⟩ := e
    simp only [List.map_cons, List.nodup_cons] at hnd
    simp only [get?]
    rcases List.mem_cons.mp h with heq | hr
    · cases heq; simp
    · have hne : k' ≠ k := by
        intro hh
        subst hh
        exact hnd.1 (List.mem_map.mpr ⟨(k', v), hr, rfl⟩)
      rw [if_neg hne]
      exact ih hnd.2 hr

theorem mem_of_get? (m : List (K × V)) (k : K) (v : V) (h : get? m k = some v) : (k, v) ∈ m := by
  induction m with
  | nil => cases h
  | cons e r ih =>
    obtain ⟨k', v'⟩ := e
    simp only [get?] at h
    by_cases hk : k' = k
    · simp only [hk, if_true, Option.some.injEq] at h
      subst hk; subst h
      exact List.mem_cons_self
    · simp only [hk, if_false] at h
      exact List.mem_cons_of_mem _ (ih h)

theorem put_append_of_not_mem (m : List (K × V)) (k : K) (v : V) (h : k ∉ m.map Prod.fst) : put m k v = m ++ [(k, v)] := by
  induction m with
  | nil => rfl
  | cons e r ih =>
    obtain ⟨k', v'⟩ := e
    simp only [List.map_cons, List.mem_cons, not_or] at h
    simp only [put, List.cons_append]
    rw [if_neg (fun hh => h.1 hh.symm), ih h.2]

/-- inserting entries with fresh, pairwise different keys appends them. -/
theorem foldl_put_append (l : List (K × V)) (m : List (K × V)) (hnd : (m.map Prod.fst ++ l.map Prod.fst).Nodup) :
    l.foldl (fun m e => put m e.1 e.2) m = m ++ l := by
  induction l generalizing m with
  | nil => simp
  | cons e r ih =>
    obtain ⟨k, v⟩ := e
    simp only [List.foldl_cons]
    have hk : k ∉ m.map Prod.fst := by
      intro hmem
      have := (List.nodup_append.mp hnd).2.2 k hmem k (by simp)
      exact this rfl
    rw [put_append_of_not_mem m k v hk, ih]
    · simp
    · simpa [List.map_append, List.append_assoc] using hnd

end Maps

/-! ### `writeSeq` -/

section WriteSeq
variable {PK SK Sig M : Type}

theorem writeSeq_none (io : Step → Bool) (steps : List (Step × Write PK SK Sig M))
    (h : (writeSeq io steps).2 = none) :
    (writeSeq io steps).1 = steps.map (·.2) ∧ ∀ s ∈ steps, io s.1 = true := by
  induction steps with
  | nil => simp [writeSeq]
  | cons e r ih =>
    obtain ⟨s, w⟩ := e
    simp only [writeSeq] at h ⊢
    by_cases hio : io s = true
    · simp only [hio, if_true] at h ⊢
      obtain ⟨h1, h2⟩ := ih h
      refine ⟨by simp [h1], ?_⟩
      intro x hx
      rcases List.mem_cons.mp hx with rfl | hx
      · exact hio
      · exact h2 x hx
    · simp [hio] at h

theorem writeSeq_some (io : Step → Bool) (steps : List (Step × Write PK SK Sig M)) (s : Step)
    (h : (writeSeq io steps).2 = some s) :
    ∃ pre w post, steps = pre ++ (s, w) :: post ∧ (writeSeq io steps).1 = pre.map (·.2) ∧ io s = false := by
  induction steps with
  | nil => simp [writeSeq] at h
  | cons e r ih =>
    obtain ⟨s', w'⟩ := e
    simp only [writeSeq] at h ⊢
    by_cases hio : io s' = true
    · simp only [hio, if_true] at h ⊢
      obtain ⟨pre, w, post, h1, h2, h3⟩ := ih h
      exact ⟨(s', w') :: pre, w, post, by simp [h1], by simp [h2], h3⟩
    · simp only [hio] at h ⊢
      simp only [Bool.false_eq_true, if_false, Option.some.injEq] at h
      subst h
      exact ⟨[], w', r, rfl, rfl, by simpa using hio⟩

end WriteSeq

/-! ### `dedupAmounts` -/

theorem insertSorted_eq (x : Nat) (l : List Nat) : insertSorted x l = List.orderedInsert (· ≤ ·) x l := by
  induction l with
  | nil => rfl
  | cons y ys ih => simp [insertSorted, List.orderedInsert, ih]

theorem sortNat_eq (l : List Nat) : sortNat l = List.insertionSort (· ≤ ·) l := by
  induction l with
  | nil => rfl
  | cons x r ih =>
    show insertSorted x (sortNat r) = _
    rw [insertSorted_eq, ih]; rfl

theorem dedupFirst_spec (xs used : List Nat) :
    (dedupFirst xs used).Nodup ∧ (∀ a, a ∈ dedupFirst xs used ↔ a ∈ xs ∧ a ∉ used) := by
  induction xs generalizing used with
  | nil => simp [dedupFirst]
  | cons x r ih =>
    simp only [dedupFirst]
    by_cases hx : x ∈ used
    · simp only [hx, if_true]
      refine ⟨(ih used).1, fun a => ?_⟩
      rw [(ih used).2 a]
      constructor
      · rintro ⟨h1, h2⟩; exact ⟨List.mem_cons_of_mem _ h1, h2⟩
      · rintro ⟨h1, h2⟩
        rcases List.mem_cons.mp h1 with rfl | h1
        · exact absurd hx h2
        · exact ⟨h1, h2⟩
    · simp only [hx, if_false]
      obtain ⟨hnd, hmem⟩ := ih (x :: used)
      refine ⟨List.nodup_cons.mpr ⟨fun h => ((hmem x).mp h).2 List.mem_cons_self, hnd⟩, fun a => ?_⟩
      rw [List.mem_cons, hmem a]
      constructor
      · rintro (rfl | ⟨h1, h2⟩)
        · exact ⟨List.mem_cons_self, hx⟩
        · exact ⟨List.mem_cons_of_mem _ h1, fun h => h2 (List.mem_cons_of_mem _ h)⟩
      · rintro ⟨h1, h2⟩
        by_cases hax : a = x
        · exact Or.inl hax
        · right
          rcases List.mem_cons.mp h1 with rfl | h1
          · exact absurd rfl hax
          · exact ⟨h1, fun h => by rcases List.mem_cons.mp h with rfl | h; exact hax rfl; exact h2 h⟩

/-- `deposit.DedupAmounts`: every configured amount exactly once, ascending. -/
theorem dedupAmounts_spec (xs : List Nat) :
    (dedupAmounts xs).Nodup ∧ (dedupAmounts xs).Pairwise (· ≤ ·) ∧ ∀ a, a ∈ dedupAmounts xs ↔ a ∈ xs := by
  unfold dedupAmounts
  rw [sortNat_eq]
  have hp := List.perm_insertionSort (· ≤ ·) (dedupFirst xs [])
  obtain ⟨hnd, hmem⟩ := dedupFirst_spec xs []
  refine ⟨hp.nodup_iff.mpr hnd, List.pairwise_insertionSort (· ≤ ·) _, fun a => ?_⟩
  rw [hp.mem_iff, hmem a]
  simp

theorem dedupAmounts_ne_nil (xs : List Nat) (h : xs ≠ []) : dedupAmounts xs ≠ [] := by
  obtain ⟨a, ha⟩ := List.exists_mem_of_ne_nil xs h
  intro hnil
  have := ((dedupAmounts_spec xs).2.2 a).mpr ha
  rw [hnil] at this
  cases this

/-! ### the hypotheses on the cryptography -/

section Laws
variable {PK SK Sig M R : Type} [DecidableEq PK] [Inhabited SK]

/-- share of index `i` in the map a split returned. -/
def shareAt (m : List (Nat × SK)) (i : Nat) : SK := (get? m i).getD default

/-- What the glue needs of threshold BLS for `n` shares and threshold `t` (`good ρ`: the randomness is
admissible, e.g. a polynomial of the right degree). `alg_laws` proves it for the algebra of C08. -/
structure Laws (C : Crypto PK SK Sig M R) (n t : Nat) (good : R → Prop) : Prop where
  /-- a split hands out `n` shares under the identifiers `1..n`; any `t` of them (pairwise different
  identifiers) recover the secret, and their public keys recover its public key. -/
  split_spec : ∀ s ρ, good ρ → 2 ≤ t → ∃ m, C.split s ρ n t = some m ∧ m.length = n ∧
    ∀ ids : List Nat, ids.Nodup → (∀ i ∈ ids, 1 ≤ i ∧ i ≤ n) → t ≤ ids.length →
      C.recover (ids.map fun i => (i, shareAt m i)) = some s ∧
      C.recoverPub (ids.map fun i => (i, C.pub (shareAt m i))) = some (C.pub s)
  split_low : ∀ s ρ, t ≤ 1 → C.split s ρ n t = none
  verify_sign : ∀ sk m, C.verify (C.pub sk) m (C.sign sk m) = true
  verify_agg : ∀ (sks : List SK) m, C.verifyAgg (sks.map C.pub) (C.aggregate (sks.map fun sk => C.sign sk m)) m = true

/-- the map the `k`-th split returned (empty if it failed). -/
def splitMap (C : Crypto PK SK Sig M R) (rand : Nat → R) (n t : Nat) (secrets : List SK) (k : Nat) : List (Nat × SK) :=
  match secrets[k]? with
  | some s => (C.split s (rand k) n t).getD []
  | none => []

/-- the key share with share index `i` (1-based) of the `k`-th validator. -/
def shareOf (C : Crypto PK SK Sig M R) (rand : Nat → R) (n t : Nat) (secrets : List SK) (k i : Nat) : SK :=
  shareAt (splitMap C rand n t secrets k) i

theorem shareArray_eq (m : List (Nat × SK)) : shareArray m = (List.range m.length).map fun i => shareAt m (i + 1) := rfl

theorem tssSharesFrom_spec (C : Crypto PK SK Sig M R) (rand : Nat → R) (n t : Nat) (k0 : Nat) (secrets : List SK)
    (sets : List (List SK)) (h : tssSharesFrom C rand n t k0 secrets = some sets) :
    sets.length = secrets.length ∧
    ∀ k (hk : k < secrets.length), ∃ m, C.split secrets[k] (rand (k0 + k)) n t = some m ∧ sets[k]? = some (shareArray m) := by
  induction secrets generalizing k0 sets with
  | nil =>
    simp only [tssSharesFrom, Option.some.injEq] at h
    subst h
    exact ⟨rfl, fun k hk => absurd hk (by simp)⟩
  | cons s rest ih =>
    simp only [tssSharesFrom] at h
    split at h
    · cases h
    · rename_i m hm
      split at h
      · cases h
      · rename_i r hr
        simp only [Option.some.injEq] at h
        subst h
        obtain ⟨hlen, hall⟩ := ih (k0 + 1) r hr
        refine ⟨by simp [hlen], fun k hk => ?_⟩
        cases k with
        | zero => exact ⟨m, by simpa using hm, by simp⟩
        | succ k =>
          obtain ⟨m', hm', hs'⟩ := hall k (by simpa using hk)
          refine ⟨m', ?_, by simpa using hs'⟩
          have : k0 + (k + 1) = k0 + 1 + k := by omega
          rw [this]
          simpa using hm'

/-- under the laws `getTSSShares` succeeds and hands out, per validator, the `n` shares in
share-index order. -/
theorem tssShares_ok (C : Crypto PK SK Sig M R) (n t : Nat) (good : R → Prop) (laws : Laws C n t good)
    (rand : Nat → R) (hgood : ∀ k, good (rand k)) (ht : 2 ≤ t) (secrets : List SK) :
    tssShares C rand n t secrets = some (secrets.map C.pub,
      (List.range secrets.length).map fun k => (List.range n).map fun i => shareOf C rand n t secrets k (i + 1)) := by
  have key : ∀ (k0 : Nat) (l : List SK), tssSharesFrom C rand n t k0 l =
      some ((List.range l.length).map fun k => match l[k]? with
        | some s => (List.range n).map fun i => shareAt ((C.split s (rand (k0 + k)) n t).getD []) (i + 1)
        | none => []) := by
    intro k0 l
    induction l generalizing k0 with
    | nil => rfl
    | cons s rest ih =>
      obtain ⟨m, hm, hlen, _⟩ := laws.split_spec s (rand k0) (hgood k0) ht
      simp only [tssSharesFrom, hm, ih (k0 + 1)]
      rw [List.length_cons, List.range_succ_eq_map, List.map_cons]
      simp only [Option.some.injEq, List.cons.injEq]
      refine ⟨?_, ?_⟩
      · simp [shareArray_eq, hlen, hm]
      · simp only [List.map_map]
        apply List.map_congr_left
        intro k _
        have : k0 + 1 + k = k0 + (k + 1) := by omega
        simp [this]
  unfold tssShares
  rw [key 0 secrets]
  simp only [Option.map_some, Option.some.injEq, Prod.mk.injEq, true_and]
  apply List.map_congr_left
  intro k hk
  have hk' : k < secrets.length := List.mem_range.mp hk
  simp [shareOf, splitMap, List.getElem?_eq_getElem hk']

theorem tssShares_low (C : Crypto PK SK Sig M R) (n t : Nat) (good : R → Prop) (laws : Laws C n t good)
    (rand : Nat → R) (ht : t ≤ 1) (s : SK) (rest : List SK) : tssShares C rand n t (s :: rest) = none := by
  simp [tssShares, tssSharesFrom, laws.split_low s (rand 0) ht]

/-! ### deposit data, registrations, validators -/

def specDeposit (C : Crypto PK SK Sig M R) (s : SK) (wd a : Nat) : DepositData PK Sig :=
  ⟨C.pub s, wd, a, C.sign s (C.depositRoot ⟨C.pub s, wd, a⟩)⟩

def specReg (C : Crypto PK SK Sig M R) (s : SK) (fee gas ts : Nat) : Registration PK Sig :=
  ⟨C.pub s, fee, gas, ts, C.sign s (C.regRoot ⟨C.pub s, fee, gas, ts⟩)⟩

theorem signDepositDatas_eq (C : Crypto PK SK Sig M R) (secrets : List SK) (wds amounts : List Nat)
    (hlen : secrets.length = wds.length) (hne : amounts ≠ []) :
    signDepositDatas C secrets wds amounts =
      .ok (amounts.map fun a => (secrets.zip wds).map fun sw => specDeposit C sw.1 sw.2 a) := by
  unfold signDepositDatas
  have h1 : (secrets.length != wds.length) = false := by simp [hlen]
  have h2 : amounts.isEmpty = false := by cases amounts <;> simp_all
  simp only [h1, h2, Bool.false_eq_true, if_false]
  rfl

theorem createDepositDatas_eq (C : Crypto PK SK Sig M R) (secrets : List SK) (wds amounts : List Nat)
    (hlen : secrets.length = wds.length) (hne : amounts ≠ []) :
    createDepositDatas C wds secrets amounts =
      .ok ((dedupAmounts amounts).map fun a => (secrets.zip wds).map fun sw => specDeposit C sw.1 sw.2 a) := by
  unfold createDepositDatas
  have h1 : (secrets.length != wds.length) = false := by simp [hlen]
  have h2 : amounts.isEmpty = false := by cases amounts <;> simp_all
  simp only [h1, h2, Bool.false_eq_true, if_false]
  exact signDepositDatas_eq C secrets wds _ hlen (dedupAmounts_ne_nil amounts hne)

theorem findReg_signRegs (C : Crypto PK SK Sig M R) (gas : Nat) (clock : Nat → Nat) (l : List (SK × Nat)) (k0 k : Nat)
    (hk : k < l.length) (hnd : (l.map fun e => C.pub e.1).Nodup) :
    findReg (C.pub l[k].1) (signRegsFrom C gas clock k0 l) = some (specReg C l[k].1 l[k].2 gas (clock (k0 + k))) := by
  induction l generalizing k0 k with
  | nil => simp at hk
  | cons e rest ih =>
    obtain ⟨s, fee⟩ := e
    simp only [List.map_cons, List.nodup_cons] at hnd
    cases k with
    | zero => simp [signRegsFrom, findReg, specReg]
    | succ k =>
      have hk' : k < rest.length := by simpa using hk
      have hne : C.pub s ≠ C.pub rest[k].1 := by
        intro heq
        exact hnd.1 (List.mem_map.mpr ⟨rest[k], List.getElem_mem hk', heq.symm⟩)
      simp only [signRegsFrom, findReg, List.getElem_cons_succ]
      rw [if_neg hne, ih (k0 + 1) k hk' hnd.2]
      have : k0 + 1 + k = k0 + (k + 1) := by omega
      rw [this]

theorem filter_specDeposit (C : Crypto PK SK Sig M R) (a : Nat) (l : List (SK × Nat)) (k : Nat)
    (hk : k < l.length) (hnd : (l.map fun e => C.pub e.1).Nodup) :
    (l.map fun sw => specDeposit C sw.1 sw.2 a).filter (fun dd => decide (dd.pubKey = C.pub l[k].1)) =
      [specDeposit C l[k].1 l[k].2 a] := by
  induction l generalizing k with
  | nil => simp at hk
  | cons e rest ih =>
    obtain ⟨s, wd⟩ := e
    simp only [List.map_cons, List.nodup_cons] at hnd
    cases k with
    | zero =>
      simp only [List.map_cons, List.getElem_cons_zero]
      rw [List.filter_cons_of_pos (by simp [specDeposit])]
      congr 1
      rw [List.filter_eq_nil_iff]
      intro dd hdd
      obtain ⟨e', he', rfl⟩ := List.mem_map.mp hdd
      simp only [specDeposit]
      intro heq
      exact hnd.1 (List.mem_map.mpr ⟨e', he', of_decide_eq_true heq⟩)
    | succ k =>
      have hk' : k < rest.length := by simpa using hk
      have hne : C.pub s ≠ C.pub rest[k].1 := by
        intro heq
        exact hnd.1 (List.mem_map.mpr ⟨rest[k], List.getElem_mem hk', heq.symm⟩)
      simp only [List.map_cons, List.getElem_cons_succ]
      rw [List.filter_cons_of_neg (by simp only [specDeposit]; exact fun h => hne (of_decide_eq_true h))]
      exact ih k hk' hnd.2

theorem depositsFor_spec (C : Crypto PK SK Sig M R) (amounts : List Nat) (l : List (SK × Nat)) (k : Nat)
    (hk : k < l.length) (hnd : (l.map fun e => C.pub e.1).Nodup) :
    depositsFor (C.pub l[k].1) (amounts.map fun a => l.map fun sw => specDeposit C sw.1 sw.2 a) =
      amounts.map fun a => specDeposit C l[k].1 l[k].2 a := by
  unfold depositsFor
  induction amounts with
  | nil => rfl
  | cons a rest ih =>
    simp only [List.map_cons, List.flatten_cons, List.filter_append]
    rw [filter_specDeposit C a l k hk hnd, ih]
    rfl

/-- `getValidatorsFrom` succeeds with the validators `V idx, V (idx+1), …` if every key has its share set, a
registration and at least one deposit entry. -/
theorem getValidatorsFrom_ok (C : Crypto PK SK Sig M R) (sets : List (List SK)) (dd : List (List (DepositData PK Sig)))
    (regs : List (Registration PK Sig)) (idx : Nat) (rest : List PK) (V : Nat → DistValidator PK Sig)
    (h : ∀ j (hj : j < rest.length), ∃ sh reg dds, sets[idx + j]? = some sh ∧ findReg rest[j] regs = some reg ∧
      depositsFor rest[j] dd = dds ∧ dds ≠ [] ∧ V (idx + j) = ⟨rest[j], sh.map C.pub, dds, some reg⟩) :
    getValidatorsFrom C sets dd regs idx rest = .ok ((List.range' idx rest.length).map V) := by
  induction rest generalizing idx with
  | nil => rfl
  | cons dv rest ih =>
    obtain ⟨sh, reg, dds, h1, h2, h3, h4, h5⟩ := h 0 (by simp)
    simp only [Nat.add_zero, List.getElem_cons_zero] at h1 h2 h3 h5
    have ih' := ih (idx + 1) (fun j hj => by
      obtain ⟨sh', reg', dds', g1, g2, g3, g4, g5⟩ := h (j + 1) (by simpa using hj)
      have e : idx + (j + 1) = idx + 1 + j := by omega
      rw [e] at g1 g5
      exact ⟨sh', reg', dds', g1, by simpa using g2, by simpa using g3, g4, by simpa using g5⟩)
    simp only [getValidatorsFrom, h1, h2, h3]
    cases hd : dds with
    | nil => exact absurd hd h4
    | cons d ds =>
      simp only [ih', List.length_cons, List.range'_succ, List.map_cons, h5, hd]

/-- the validator `create cluster` assembles for the `k`-th secret. -/
def specVal (C : Crypto PK SK Sig M R) (rand : Nat → R) (n t : Nat) (secrets : List SK) (wds fees amounts : List Nat)
    (gas : Nat) (clock : Nat → Nat) (k : Nat) : DistValidator PK Sig :=
  ⟨C.pub ((secrets[k]?).getD default),
   (List.range n).map fun i => C.pub (shareOf C rand n t secrets k (i + 1)),
   (dedupAmounts amounts).map fun a => specDeposit C ((secrets[k]?).getD default) ((wds[k]?).getD 0) a,
   some (specReg C ((secrets[k]?).getD default) ((fees[k]?).getD 0) gas (clock k))⟩

theorem zip_map_pub (C : Crypto PK SK Sig M R) (secrets : List SK) (xs : List Nat) (h : secrets.length = xs.length) :
    ((secrets.zip xs).map fun e => C.pub e.1) = secrets.map C.pub := by
  have : ((secrets.zip xs).map fun e => C.pub e.1) = ((secrets.zip xs).map Prod.fst).map C.pub := by
    simp [List.map_map, Function.comp_def]
  rw [this, List.map_fst_zip (by omega)]

theorem getValidators_created (C : Crypto PK SK Sig M R) (rand : Nat → R) (n t : Nat) (secrets : List SK)
    (wds fees amounts : List Nat) (gas : Nat) (clock : Nat → Nat)
    (hw : secrets.length = wds.length) (hf : secrets.length = fees.length) (hne : amounts ≠ [])
    (hnd : (secrets.map C.pub).Nodup) :
    getValidators C (secrets.map C.pub)
      ((List.range secrets.length).map fun k => (List.range n).map fun i => shareOf C rand n t secrets k (i + 1))
      ((dedupAmounts amounts).map fun a => (secrets.zip wds).map fun sw => specDeposit C sw.1 sw.2 a)
      (signRegsFrom C gas clock 0 (secrets.zip fees)) =
    .ok ((List.range secrets.length).map (specVal C rand n t secrets wds fees amounts gas clock)) := by
  unfold getValidators
  rw [getValidatorsFrom_ok C _ _ _ 0 (secrets.map C.pub) (specVal C rand n t secrets wds fees amounts gas clock),
    List.length_map, List.range_eq_range']
  intro j hj
  have hj' : j < secrets.length := by simpa using hj
  have hjw : j < (secrets.zip wds).length := by simp [List.length_zip]; omega
  have hjf : j < (secrets.zip fees).length := by simp [List.length_zip]; omega
  have e1 : (secrets.map C.pub)[j] = C.pub (secrets.zip wds)[j].1 := by simp [List.getElem_zip]
  have e2 : (secrets.map C.pub)[j] = C.pub (secrets.zip fees)[j].1 := by simp [List.getElem_zip]
  refine ⟨(List.range n).map fun i => shareOf C rand n t secrets j (i + 1),
    specReg C (secrets.zip fees)[j].1 (secrets.zip fees)[j].2 gas (clock (0 + j)),
    depositsFor (secrets.map C.pub)[j] _, ?_, ?_, rfl, ?_, ?_⟩
  · simp only [Nat.zero_add]
    rw [List.getElem?_map, List.getElem?_range hj']
    rfl
  · rw [e2]
    exact findReg_signRegs C gas clock (secrets.zip fees) 0 j hjf (by rw [zip_map_pub C secrets fees hf]; exact hnd)
  · rw [e1, depositsFor_spec C (dedupAmounts amounts) (secrets.zip wds) j hjw (by rw [zip_map_pub C secrets wds hw]; exact hnd)]
    have := dedupAmounts_ne_nil amounts hne
    intro h
    exact this (List.map_eq_nil_iff.mp h)
  · simp only [Nat.zero_add, specVal]
    rw [e1, depositsFor_spec C (dedupAmounts amounts) (secrets.zip wds) j hjw (by rw [zip_map_pub C secrets wds hw]; exact hnd)]
    have hwj : j < wds.length := by omega
    have hfj : j < fees.length := by omega
    simp [List.getElem_zip, List.getElem?_eq_getElem hj', List.getElem?_eq_getElem hwj, List.getElem?_eq_getElem hfj]

/-! ### shape of `runCreate` -/

def isLockW : Write PK SK Sig M → Bool
  | .lock _ _ => true
  | _ => false

theorem writeSeq_subset (io : Step → Bool) (steps : List (Step × Write PK SK Sig M)) :
    ∀ w ∈ (writeSeq io steps).1, w ∈ steps.map (·.2) := by
  induction steps with
  | nil => simp [writeSeq]
  | cons e r ih =>
    obtain ⟨s, w'⟩ := e
    intro w hw
    simp only [writeSeq] at hw
    by_cases hio : io s = true
    · simp only [hio, if_true, List.mem_cons] at hw
      rcases hw with rfl | hw
      · simp
      · exact List.mem_cons_of_mem _ (ih w hw)
    · simp [hio] at hw

theorem p2pSteps_noLock (n : Nat) : ∀ w ∈ (p2pSteps (PK := PK) (SK := SK) (Sig := Sig) (M := M) n).map (·.2), isLockW w = false := by
  intro w hw
  simp only [p2pSteps, List.map_map, List.mem_map] at hw
  obtain ⟨i, _, rfl⟩ := hw
  rfl

theorem keySteps_noLock (n : Nat) (sets : List (List SK)) :
    ∀ w ∈ (keySteps (PK := PK) (Sig := Sig) (M := M) n sets).map (·.2), isLockW w = false := by
  intro w hw
  simp only [keySteps, List.map_map, List.mem_map] at hw
  obtain ⟨i, _, rfl⟩ := hw
  rfl

theorem kmSteps_noLock (n : Nat) (sets : List (List SK)) :
    ∀ w ∈ (kmSteps (PK := PK) (Sig := Sig) (M := M) n sets).map (·.2), isLockW w = false := by
  intro w hw
  simp only [kmSteps, List.map_append, List.map_map, List.mem_append, List.mem_map] at hw
  rcases hw with ⟨i, _, rfl⟩ | ⟨i, _, rfl⟩ <;> rfl

theorem depSteps_noLock (n : Nat) (dd : List (List (DepositData PK Sig))) :
    ∀ w ∈ (depSteps (SK := SK) (M := M) n dd).map (·.2), isLockW w = false := by
  intro w hw
  simp only [depSteps, List.map_flatMap, List.mem_flatMap, List.map_map, List.mem_map] at hw
  obtain ⟨d, _, i, _, rfl⟩ := hw
  rfl

/-- the key-writing phase of `runCreate`. -/
def keyPhase (p : Plan SK) (sets : List (List SK)) : List (Step × Write PK SK Sig M) :=
  if p.keysToDisk then keySteps p.n sets else kmSteps p.n sets

theorem keyPhase_noLock (p : Plan SK) (sets : List (List SK)) :
    ∀ w ∈ (keyPhase (PK := PK) (Sig := Sig) (M := M) p sets).map (·.2), isLockW w = false := by
  unfold keyPhase
  split
  · exact keySteps_noLock _ _
  · exact kmSteps_noLock _ _

/-- **Shape of a run.** Either the run failed before the first lock file was written — then the trace
holds no lock at all — or every earlier phase completed (all p2p keys, all key shares, all deposit
files) and the trace ends with the lock files written so far, each holding the assembled lock. -/
theorem runCreate_cases (C : Crypto PK SK Sig M R) (p : Plan SK) (rand : Nat → R) (uuid : Nat) (clock : Nat → Nat)
    (io : Step → Bool) :
    ((∃ e, (runCreate C p rand uuid clock io).2 = .error e) ∧ ∀ w ∈ (runCreate C p rand uuid clock io).1, isLockW w = false) ∨
    ∃ pubkeys sets dds regs vals,
      tssShares C rand p.n p.t p.secrets = some (pubkeys, sets) ∧
      createDepositDatas C p.wds p.secrets p.amounts = .ok dds ∧
      createRegs C p.fees p.secrets p.gas clock = .ok regs ∧
      getValidators C pubkeys sets dds regs = .ok vals ∧
      (runCreate C p rand uuid clock io).1 =
        (p2pSteps p.n).map (·.2) ++ (keyPhase p sets).map (·.2) ++ (depSteps p.n dds).map (·.2) ++
          (writeSeq io (lockSteps (SK := SK) p.n (mkLock C p uuid vals sets))).1 ∧
      (runCreate C p rand uuid clock io).2 =
        (match (writeSeq io (lockSteps (SK := SK) p.n (mkLock C p uuid vals sets))).2 with
         | some s => .error (.io s)
         | none => .ok (mkLock C p uuid vals sets)) := by
  unfold runCreate
  cases hts : tssShares C rand p.n p.t p.secrets with
  | none => left; exact ⟨⟨_, rfl⟩, by simp⟩
  | some ps =>
    obtain ⟨pubkeys, sets⟩ := ps
    simp only []
    cases h1 : (writeSeq io (p2pSteps (PK := PK) (SK := SK) (Sig := Sig) (M := M) p.n)).2 with
    | some s =>
      left
      refine ⟨⟨_, rfl⟩, fun w hw => ?_⟩
      exact p2pSteps_noLock p.n w (writeSeq_subset io _ w hw)
    | none =>
      have e1 := (writeSeq_none io _ h1).1
      simp only []
      have hk : (if p.keysToDisk then keySteps p.n sets else kmSteps p.n sets) = keyPhase (PK := PK) (Sig := Sig) (M := M) p sets := rfl
      rw [hk]
      cases h2 : (writeSeq io (keyPhase (PK := PK) (Sig := Sig) (M := M) p sets)).2 with
      | some s =>
        left
        refine ⟨⟨_, rfl⟩, fun w hw => ?_⟩
        rcases List.mem_append.mp hw with hw | hw
        · exact p2pSteps_noLock p.n w (writeSeq_subset io _ w hw)
        · exact keyPhase_noLock p sets w (writeSeq_subset io _ w hw)
      | none =>
        have e2 := (writeSeq_none io _ h2).1
        simp only []
        cases hdd : createDepositDatas C p.wds p.secrets p.amounts with
        | error e =>
          left
          refine ⟨⟨_, rfl⟩, fun w hw => ?_⟩
          rcases List.mem_append.mp hw with hw | hw
          · exact p2pSteps_noLock p.n w (writeSeq_subset io _ w hw)
          · exact keyPhase_noLock p sets w (writeSeq_subset io _ w hw)
        | ok dds =>
          simp only []
          cases h3 : (writeSeq io (depSteps (SK := SK) (M := M) p.n dds)).2 with
          | some s =>
            left
            refine ⟨⟨_, rfl⟩, fun w hw => ?_⟩
            rcases List.mem_append.mp hw with hw | hw
            · rcases List.mem_append.mp hw with hw | hw
              · exact p2pSteps_noLock p.n w (writeSeq_subset io _ w hw)
              · exact keyPhase_noLock p sets w (writeSeq_subset io _ w hw)
            · exact depSteps_noLock p.n dds w (writeSeq_subset io _ w hw)
          | none =>
            have e3 := (writeSeq_none io _ h3).1
            have noLock3 : ∀ w ∈ (writeSeq io (p2pSteps (PK := PK) (SK := SK) (Sig := Sig) (M := M) p.n)).1 ++
                (writeSeq io (keyPhase (PK := PK) (Sig := Sig) (M := M) p sets)).1 ++
                (writeSeq io (depSteps (SK := SK) (M := M) p.n dds)).1, isLockW w = false := by
              intro w hw
              rcases List.mem_append.mp hw with hw | hw
              · rcases List.mem_append.mp hw with hw | hw
                · exact p2pSteps_noLock p.n w (writeSeq_subset io _ w hw)
                · exact keyPhase_noLock p sets w (writeSeq_subset io _ w hw)
              · exact depSteps_noLock p.n dds w (writeSeq_subset io _ w hw)
            simp only []
            cases hrg : createRegs C p.fees p.secrets p.gas clock with
            | error e => left; exact ⟨⟨_, rfl⟩, noLock3⟩
            | ok regs =>
              simp only []
              cases hgv : getValidators C pubkeys sets dds regs with
              | error e => left; exact ⟨⟨_, rfl⟩, noLock3⟩
              | ok vals =>
                right
                refine ⟨pubkeys, sets, dds, regs, vals, rfl, rfl, rfl, hgv, ?_, ?_⟩
                · simp only []
                  cases h4 : (writeSeq io (lockSteps (SK := SK) p.n (mkLock C p uuid vals sets))).2 <;> simp [e1, e2, e3]
                · simp only []
                  cases h4 : (writeSeq io (lockSteps (SK := SK) p.n (mkLock C p uuid vals sets))).2 <;> simp

/-! ### `combine` -/

section Combine
variable [DecidableEq Sig] [DecidableEq M]

/-- an entry `loadManifest` looks at. -/
def keyed (d : Dir PK SK Sig M) : Bool := d.isDir && d.hasKeys

theorem loadManifest_cons (C : Crypto PK SK Sig M R) (nv : Bool) (d : Dir PK SK Sig M) (rest : List (Dir PK SK Sig M))
    (last : Option (Lock PK Sig M)) (acc : List (Dir PK SK Sig M)) :
    loadManifest C nv (d :: rest) last acc =
      if !d.isDir || !d.hasKeys then loadManifest C nv rest last acc
      else
      match loadClusterLock C nv d.lock with
      | none => .error .manifestLoad
      | some cl =>
        if !nv && (match last with | some l => decide (l.hash ≠ cl.hash) | none => false) then .error .lockMismatch
        else loadManifest C nv rest (some cl) (acc ++ [d]) := by
  cases last <;> rfl

theorem loadManifest_skip (C : Crypto PK SK Sig M R) (nv : Bool) (d : Dir PK SK Sig M) (rest : List (Dir PK SK Sig M))
    (last : Option (Lock PK Sig M)) (acc : List (Dir PK SK Sig M)) (h : keyed d = false) :
    loadManifest C nv (d :: rest) last acc = loadManifest C nv rest last acc := by
  have h' : (!d.isDir || !d.hasKeys) = true := by
    unfold keyed at h
    cases hd : d.isDir <;> cases hk : d.hasKeys <;> simp_all
  rw [loadManifest_cons, h']; rfl

theorem loadManifest_step (C : Crypto PK SK Sig M R) (nv : Bool) (d : Dir PK SK Sig M) (rest : List (Dir PK SK Sig M))
    (last : Option (Lock PK Sig M)) (acc : List (Dir PK SK Sig M)) (h : keyed d = true) :
    loadManifest C nv (d :: rest) last acc =
      match loadClusterLock C nv d.lock with
      | none => .error .manifestLoad
      | some cl =>
        if !nv && (match last with | some l => decide (l.hash ≠ cl.hash) | none => false) then .error .lockMismatch
        else loadManifest C nv rest (some cl) (acc ++ [d]) := by
  have h' : (!d.isDir || !d.hasKeys) = false := by
    unfold keyed at h
    cases hd : d.isDir <;> cases hk : d.hasKeys <;> simp_all
  rw [loadManifest_cons, h']; rfl

/-- what an accepted manifest tells: the directories with keys in order, every one of them carries a
loadable lock, without `--no-verify` all with the hash of the returned lock, which is the last one. -/
theorem loadManifest_ok_inv (C : Crypto PK SK Sig M R) (nv : Bool) (dirs : List (Dir PK SK Sig M))
    (last : Option (Lock PK Sig M)) (acc : List (Dir PK SK Sig M)) (lock : Lock PK Sig M) (paths : List (Dir PK SK Sig M))
    (h : loadManifest C nv dirs last acc = .ok (lock, paths)) :
    paths = acc ++ dirs.filter keyed ∧
    (∀ d ∈ dirs, keyed d = true → ∃ l, loadClusterLock C nv d.lock = some l ∧ (nv = false → l.hash = lock.hash)) ∧
    (nv = false → ∀ l, last = some l → l.hash = lock.hash) ∧
    ((∃ d ∈ dirs, keyed d = true ∧ loadClusterLock C nv d.lock = some lock) ∨ (last = some lock ∧ dirs.filter keyed = [])) := by
  induction dirs generalizing last acc with
  | nil =>
    cases last with
    | none => simp [loadManifest] at h
    | some l =>
      simp only [loadManifest, Except.ok.injEq, Prod.mk.injEq] at h
      obtain ⟨rfl, rfl⟩ := h
      refine ⟨by simp, by simp, ?_, Or.inr ⟨rfl, rfl⟩⟩
      intro _ l' hl'
      cases hl'; rfl
  | cons d rest ih =>
    by_cases hk : keyed d = true
    · rw [loadManifest_step C nv d rest last acc hk] at h
      cases hl : loadClusterLock C nv d.lock with
      | none => simp [hl] at h
      | some cl =>
        simp only [hl] at h
        split_ifs at h with hcond
        · obtain ⟨h1, h2, h3, h4⟩ := ih (some cl) (acc ++ [d]) h
          have hcl : nv = false → cl.hash = lock.hash := fun hnv => h3 hnv cl rfl
          refine ⟨by simp [h1, List.filter_cons, hk], ?_, ?_, ?_⟩
          · intro d' hd' hk'
            rcases List.mem_cons.mp hd' with rfl | hd'
            · exact ⟨cl, hl, hcl⟩
            · exact h2 d' hd' hk'
          · intro hnv l hlast
            subst hlast
            have : l.hash = cl.hash := by
              subst hnv
              simpa using hcond
            rw [this]; exact hcl hnv
          · left
            rcases h4 with ⟨d', hd', hk', hl'⟩ | ⟨hlast, hnil⟩
            · exact ⟨d', List.mem_cons_of_mem _ hd', hk', hl'⟩
            · cases hlast
              exact ⟨d, List.mem_cons_self, hk, hl⟩
    · have hk' : keyed d = false := by simpa using hk
      rw [loadManifest_skip C nv d rest last acc hk'] at h
      obtain ⟨h1, h2, h3, h4⟩ := ih last acc h
      refine ⟨by simp [h1, List.filter_cons, hk'], ?_, h3, ?_⟩
      · intro d' hd' hkd
        rcases List.mem_cons.mp hd' with rfl | hd'
        · rw [hk'] at hkd; cases hkd
        · exact h2 d' hd' hkd
      · rcases h4 with ⟨d', hd', hkd, hl'⟩ | ⟨hlast, hnil⟩
        · exact Or.inl ⟨d', List.mem_cons_of_mem _ hd', hkd, hl'⟩
        · exact Or.inr ⟨hlast, by simp [List.filter_cons, hk', hnil]⟩

/-- a directory with key shares whose lock cannot be loaded makes `loadManifest` fail. -/
theorem loadManifest_error_of_unloadable (C : Crypto PK SK Sig M R) (nv : Bool) (dirs : List (Dir PK SK Sig M))
    (last : Option (Lock PK Sig M)) (acc : List (Dir PK SK Sig M))
    (h : ∃ d ∈ dirs, keyed d = true ∧ loadClusterLock C nv d.lock = none) :
    ∃ e, loadManifest C nv dirs last acc = .error e := by
  cases hr : loadManifest C nv dirs last acc with
  | error e => exact ⟨e, rfl⟩
  | ok r =>
    obtain ⟨lock, paths⟩ := r
    obtain ⟨d, hd, hk, hl⟩ := h
    obtain ⟨l, hl', _⟩ := (loadManifest_ok_inv C nv dirs last acc lock paths hr).2.1 d hd hk
    rw [hl] at hl'; cases hl'

/-- no directory with key shares: "no manifest file found". -/
theorem loadManifest_noManifest (C : Crypto PK SK Sig M R) (nv : Bool) (dirs : List (Dir PK SK Sig M))
    (acc : List (Dir PK SK Sig M)) (h : ∀ d ∈ dirs, keyed d = false) :
    loadManifest C nv dirs none acc = .error .noManifest := by
  induction dirs with
  | nil => rfl
  | cons d rest ih =>
    rw [loadManifest_skip C nv d rest none acc (h d List.mem_cons_self)]
    exact ih fun d' hd' => h d' (List.mem_cons_of_mem _ hd')

/-- directories that all carry the same loadable lock. -/
theorem loadManifest_honest (C : Crypto PK SK Sig M R) (nv : Bool) (l : Lock PK Sig M) (dirs : List (Dir PK SK Sig M))
    (last : Option (Lock PK Sig M)) (acc : List (Dir PK SK Sig M))
    (hall : ∀ d ∈ dirs, keyed d = true ∧ d.lock = some l) (hv : nv = true ∨ verifyLock C l = true)
    (hne : dirs ≠ [] ∨ last = some l) (hlast : last = none ∨ last = some l) :
    loadManifest C nv dirs last acc = .ok (l, acc ++ dirs) := by
  have hload : loadClusterLock C nv (some l) = some l := by
    unfold loadClusterLock
    rcases hv with h | h <;> simp [h]
  induction dirs generalizing last acc with
  | nil =>
    rcases hne with h | h
    · exact absurd rfl h
    · subst h; simp [loadManifest]
  | cons d rest ih =>
    obtain ⟨hk, hl⟩ := hall d List.mem_cons_self
    rw [loadManifest_step C nv d rest last acc hk, hl, hload]
    have hrec := ih (some l) (acc ++ [d]) (fun d' hd' => hall d' (List.mem_cons_of_mem _ hd')) (Or.inr rfl) (Or.inr rfl)
    rcases hlast with h | h <;> subst h <;> simp [hrec]

/-! #### key files -/

theorem find?_indexed (f : Nat → SK) (order : List Nat) (i : Nat) (hi : i ∈ order) :
    ((order.map fun k => (⟨some k, f k⟩ : KeyFile SK)).find? fun x => x.index == some i) = some ⟨some i, f i⟩ := by
  induction order with
  | nil => cases hi
  | cons k rest ih =>
    simp only [List.map_cons, List.find?_cons]
    by_cases hk : k = i
    · subst hk; simp
    · have : ((some k : Option Nat) == some i) = false := by simp [hk]
      simp only [this]
      exact ih (by rcases List.mem_cons.mp hi with h | h; exact absurd h.symm hk; exact h)

/-- key files `keystore-<k>.json` for `k = 0..nv-1`, listed in any order, are read in index order. -/
theorem sequencedKeys_honest (f : Nat → SK) (nv : Nat) (order : List Nat) (hperm : order.Perm (List.range nv)) :
    sequencedKeys (order.map fun k => (⟨some k, f k⟩ : KeyFile SK)) = some ((List.range nv).map f) := by
  have hlen : order.length = nv := by simpa using hperm.length_eq
  unfold sequencedKeys
  have h1 : ((order.map fun k => (⟨some k, f k⟩ : KeyFile SK)).all fun x =>
      match x.index with
      | some i => decide (i < (order.map fun k => (⟨some k, f k⟩ : KeyFile SK)).length)
      | none => false) = true := by
    rw [List.all_eq_true]
    intro x hx
    obtain ⟨k, hk, rfl⟩ := List.mem_map.mp hx
    have : k < nv := List.mem_range.mp (hperm.mem_iff.mp hk)
    simp [hlen, this]
  have h2 : ((order.map fun k => (⟨some k, f k⟩ : KeyFile SK)).map (·.index)).Nodup := by
    have : ((order.map fun k => (⟨some k, f k⟩ : KeyFile SK)).map (·.index)) = order.map some := by
      simp [List.map_map, Function.comp_def]
    rw [this]
    exact (hperm.nodup_iff.mpr List.nodup_range).map (Option.some_injective _)
  rw [if_pos (by rw [Bool.and_eq_true]; exact ⟨h1, by simpa using h2⟩)]
  simp only [List.length_map, hlen, Option.some.injEq]
  apply List.map_congr_left
  intro i hi
  rw [find?_indexed f order i (hperm.mem_iff.mpr hi)]
  rfl

theorem range_map_getD (l : List SK) : ((List.range l.length).map fun k => (l[k]?).getD default) = l := by
  apply List.ext_getElem
  · simp
  · intro i h1 h2
    simp [List.getElem?_eq_getElem h2]

theorem loadAllKeys_cons (d : Dir PK SK Sig M) (rest : List (Dir PK SK Sig M)) (files : List (KeyFile SK)) (secrets : List SK)
    (hf : d.files = some files) (hne : files ≠ []) (hs : sequencedKeys files = some secrets) :
    loadAllKeys (d :: rest) = match loadAllKeys rest with
      | .error e => .error e
      | .ok r => .ok (secrets :: r) := by
  cases files with
  | nil => exact absurd rfl hne
  | cons f fs =>
    simp only [loadAllKeys, hf, hs]
    cases loadAllKeys rest <;> rfl

theorem loadAllKeys_created (l : Lock PK Sig M) (js : List Nat) (secretsOf : Nat → List SK) (order : Nat → List Nat) (nv : Nat)
    (hnv : 0 < nv) (hlen : ∀ j ∈ js, (secretsOf j).length = nv) (hord : ∀ j ∈ js, (order j).Perm (List.range nv)) :
    loadAllKeys (js.map fun j => createdDir l (secretsOf j) (order j)) = .ok (js.map secretsOf) := by
  induction js with
  | nil => rfl
  | cons j rest ih =>
    have hs := sequencedKeys_honest (fun k => ((secretsOf j)[k]?).getD default) nv (order j) (hord j List.mem_cons_self)
    have hl := hlen j List.mem_cons_self
    have hne : (order j).map (fun k => (⟨some k, ((secretsOf j)[k]?).getD default⟩ : KeyFile SK)) ≠ [] := by
      intro h
      have : (order j).length = nv := by simpa using (hord j List.mem_cons_self).length_eq
      rw [List.map_eq_nil_iff] at h
      rw [h, List.length_nil] at this
      omega
    rw [List.map_cons, loadAllKeys_cons _ _ _ _ rfl hne hs,
      ih (fun j' hj' => hlen j' (List.mem_cons_of_mem _ hj')) (fun j' hj' => hord j' (List.mem_cons_of_mem _ hj'))]
    simp only [List.map_cons, Except.ok.injEq, List.cons.injEq, and_true]
    rw [← hl]
    exact range_map_getD (secretsOf j)

/-! #### `shareIdxByPubkeys` -/

theorem pubkMap_eq_aux (ps : List PK) (start : Nat) (m : List (PK × Nat)) (hnd : (m.map Prod.fst ++ ps).Nodup) :
    (ps.zipIdx start).foldl (fun m e => put m e.1 (e.2 + 1)) m = m ++ (ps.zipIdx start).map fun e => (e.1, e.2 + 1) := by
  induction ps generalizing start m with
  | nil => simp
  | cons p rest ih =>
    have hp : p ∉ m.map Prod.fst := by
      intro hmem
      exact (List.nodup_append.mp hnd).2.2 p hmem p (by simp) rfl
    simp only [List.zipIdx_cons, List.foldl_cons, List.map_cons]
    rw [put_append_of_not_mem m p (start + 1) hp, ih (start + 1)]
    · simp
    · simpa [List.map_append, List.append_assoc] using hnd

theorem get?_zipIdx (ps : List PK) (start i : Nat) (hi : i < ps.length) (hnd : ps.Nodup) :
    get? ((ps.zipIdx start).map fun e => (e.1, e.2 + 1)) ps[i] = some (start + i + 1) := by
  induction ps generalizing start i with
  | nil => simp at hi
  | cons p rest ih =>
    simp only [List.zipIdx_cons, List.map_cons, get?]
    cases i with
    | zero => simp
    | succ i =>
      have hi' : i < rest.length := by simpa using hi
      have hne : p ≠ rest[i] := by
        intro h
        exact (List.nodup_cons.mp hnd).1 (h ▸ List.getElem_mem hi')
      simp only [List.getElem_cons_succ]
      rw [if_neg hne, ih (start + 1) i hi' (List.nodup_cons.mp hnd).2]
      congr 1; omega

/-- with pairwise different public shares `pubkMap` sends `PubShares[i]` to share index `i+1`. -/
theorem get?_pubkMap (ps : List PK) (hnd : ps.Nodup) (i : Nat) (hi : i < ps.length) : get? (pubkMap ps) ps[i] = some (i + 1) := by
  unfold pubkMap
  rw [pubkMap_eq_aux ps 0 [] (by simpa using hnd)]
  simpa using get?_zipIdx ps 0 i hi hnd

theorem get?_put (m : List (PK × Nat)) (k k' : PK) (v : Nat) : get? (put m k v) k' = if k = k' then some v else get? m k' := by
  induction m with
  | nil => simp [put, get?]
  | cons e r ih =>
    obtain ⟨k0, v0⟩ := e
    by_cases h0 : k0 = k
    · subst h0
      by_cases h1 : k0 = k' <;> simp [put, get?, h1]
    · by_cases h1 : k0 = k'
      · subst h1
        have : ¬ k = k0 := fun h => h0 h.symm
        simp [put, get?, h0, this]
      · simp [put, get?, h0, h1, ih]

/-- anything `pubkMap` maps is one of the public shares. -/
theorem mem_of_get?_pubkMap (ps : List PK) (pk : PK) (i : Nat) (h : get? (pubkMap ps) pk = some i) : pk ∈ ps := by
  unfold pubkMap at h
  have key : ∀ (l : List (PK × Nat)) (m : List (PK × Nat)), get? (l.foldl (fun m e => put m e.1 (e.2 + 1)) m) pk = some i →
      (get? m pk).isSome ∨ pk ∈ l.map Prod.fst := by
    intro l
    induction l with
    | nil => intro m h; left; simp at h; simp [h]
    | cons e r ih =>
      intro m h
      simp only [List.foldl_cons] at h
      rcases ih _ h with h' | h'
      · rw [get?_put] at h'
        by_cases he : e.1 = pk
        · right; simp [he]
        · left; simpa [he] using h'
      · right; simp [h']
  rcases key _ [] h with h' | h'
  · simp [get?] at h'
  · obtain ⟨e, he, rfl⟩ := List.mem_map.mp h'
    exact (List.mem_zipIdx he).2.2 ▸ List.getElem_mem _

theorem idxShares_spec {α : Type} (C : Crypto PK SK Sig M R) (m : List (PK × Nat)) (f : α → SK) (ix : α → Nat) (l : List α)
    (acc : List (Nat × SK)) (hget : ∀ a ∈ l, get? m (C.pub (f a)) = some (ix a)) (hnd : (acc.map Prod.fst ++ l.map ix).Nodup) :
    idxShares C m (l.map f) acc = some (acc ++ l.map fun a => (ix a, f a)) := by
  induction l generalizing acc with
  | nil => simp [idxShares]
  | cons a rest ih =>
    have hs : ix a ∉ acc.map Prod.fst := by
      intro hmem
      exact (List.nodup_append.mp hnd).2.2 (ix a) hmem (ix a) (by simp) rfl
    simp only [List.map_cons, idxShares, hget a List.mem_cons_self]
    rw [put_append_of_not_mem acc (ix a) (f a) hs, ih (acc ++ [(ix a, f a)]) (fun a' ha' => hget a' (List.mem_cons_of_mem _ ha'))]
    · simp
    · simpa [List.map_append, List.append_assoc] using hnd

theorem idxShares_some (C : Crypto PK SK Sig M R) (m : List (PK × Nat)) (set : List SK) (acc shares : List (Nat × SK))
    (h : idxShares C m set acc = some shares) : ∀ s ∈ set, ∃ i, get? m (C.pub s) = some i := by
  induction set generalizing acc with
  | nil => intro s hs; cases hs
  | cons s rest ih =>
    simp only [idxShares] at h
    cases hg : get? m (C.pub s) with
    | none => simp [hg] at h
    | some i =>
      simp only [hg] at h
      intro s' hs'
      rcases List.mem_cons.mp hs' with rfl | hs'
      · exact ⟨i, hg⟩
      · exact ih _ h s' hs'

theorem combineLoop_ok (C : Crypto PK SK Sig M R) (lock : Lock PK Sig M) (perDir : List (List SK)) (ks : List Nat) (g : Nat → SK)
    (h : ∀ k ∈ ks, combineOne C lock k (pkSet perDir k) = .ok (g k)) : combineLoop C lock perDir ks = .ok (ks.map g) := by
  induction ks with
  | nil => rfl
  | cons k rest ih =>
    simp only [combineLoop, h k List.mem_cons_self, ih (fun k' hk' => h k' (List.mem_cons_of_mem _ hk')), List.map_cons]

theorem combineLoop_ok_inv (C : Crypto PK SK Sig M R) (lock : Lock PK Sig M) (perDir : List (List SK)) (ks : List Nat) (out : List SK)
    (h : combineLoop C lock perDir ks = .ok out) :
    out.length = ks.length ∧ ∀ i (hi : i < ks.length), ∃ s, out[i]? = some s ∧ combineOne C lock ks[i] (pkSet perDir ks[i]) = .ok s := by
  induction ks generalizing out with
  | nil =>
    simp only [combineLoop, Except.ok.injEq] at h
    subst h
    exact ⟨rfl, fun i hi => absurd hi (by simp)⟩
  | cons k rest ih =>
    simp only [combineLoop] at h
    cases h1 : combineOne C lock k (pkSet perDir k) with
    | error e => simp [h1] at h
    | ok s =>
      simp only [h1] at h
      cases h2 : combineLoop C lock perDir rest with
      | error e => simp [h2] at h
      | ok r =>
        simp only [h2, Except.ok.injEq] at h
        subst h
        obtain ⟨hl, hall⟩ := ih r h2
        refine ⟨by simp [hl], fun i hi => ?_⟩
        cases i with
        | zero => exact ⟨s, by simp, by simpa using h1⟩
        | succ i =>
          obtain ⟨s', hs', hc'⟩ := hall i (by simpa using hi)
          exact ⟨s', by simpa using hs', by simpa using hc'⟩

/-! #### the created cluster -/

/-- the share sets `getTSSShares` returns under the laws. -/
def createdSets (C : Crypto PK SK Sig M R) (rand : Nat → R) (n t : Nat) (secrets : List SK) : List (List SK) :=
  (List.range secrets.length).map fun k => (List.range n).map fun i => shareOf C rand n t secrets k (i + 1)

/-- the lock lists, validator by validator, the key of the `k`-th secret and the public keys of its shares in
share-index order. -/
structure CreatedLock (C : Crypto PK SK Sig M R) (rand : Nat → R) (n t : Nat) (secrets : List SK) (lock : Lock PK Sig M) : Prop where
  threshold : lock.threshold = t
  pubKeys : lock.validators.map (·.pubKey) = secrets.map C.pub
  pubShares : lock.validators.map (·.pubShares) =
    (List.range secrets.length).map fun k => (List.range n).map fun i => C.pub (shareOf C rand n t secrets k (i + 1))

theorem nodeSecrets_created (C : Crypto PK SK Sig M R) (rand : Nat → R) (n t : Nat) (secrets : List SK) (j : Nat) (hj : j < n) :
    nodeSecrets (createdSets C rand n t secrets) j = (List.range secrets.length).map fun k => shareOf C rand n t secrets k (j + 1) := by
  simp [nodeSecrets, createdSets, List.map_map, Function.comp_def, hj]

theorem numKeyIdx_const (l : List (List SK)) (nv : Nat) (hne : l ≠ []) (h : ∀ x ∈ l, x.length = nv) : numKeyIdx l = nv := by
  unfold numKeyIdx
  have key : ∀ (l : List (List SK)) (m : Nat), (∀ x ∈ l, x.length = nv) → l.foldl (fun m x => max m x.length) m = if l = [] then m else max m nv := by
    intro l
    induction l with
    | nil => simp
    | cons x r ih =>
      intro m h
      simp only [List.foldl_cons, h x List.mem_cons_self]
      rw [ih (max m nv) (fun y hy => h y (List.mem_cons_of_mem _ hy))]
      by_cases hr : r = [] <;> simp [hr]
  rw [key l 0 h]
  simp [hne]

theorem pkSet_created (C : Crypto PK SK Sig M R) (rand : Nat → R) (n t : Nat) (secrets : List SK) (js : List Nat)
    (hjs : ∀ j ∈ js, j < n) (k : Nat) (hk : k < secrets.length) :
    pkSet (js.map fun j => nodeSecrets (createdSets C rand n t secrets) j) k = js.map fun j => shareOf C rand n t secrets k (j + 1) := by
  unfold pkSet
  induction js with
  | nil => rfl
  | cons j rest ih =>
    have hj := hjs j List.mem_cons_self
    simp only [List.map_cons, List.filterMap_cons]
    rw [nodeSecrets_created C rand n t secrets j hj]
    simp only [List.getElem?_map, List.getElem?_range hk, Option.map_some]
    rw [ih (fun j' hj' => hjs j' (List.mem_cons_of_mem _ hj'))]

/-- one validator of the created cluster is recombined from the key shares of the nodes `js`. -/
theorem combineOne_created (C : Crypto PK SK Sig M R) (n t : Nat) (good : R → Prop) (laws : Laws C n t good)
    (rand : Nat → R) (hgood : ∀ k, good (rand k)) (ht : 2 ≤ t) (secrets : List SK) (lock : Lock PK Sig M)
    (hcl : CreatedLock C rand n t secrets lock) (js : List Nat) (hjs : ∀ j ∈ js, j < n) (hjnd : js.Nodup) (hlen : t ≤ js.length)
    (k : Nat) (hk : k < secrets.length)
    (hnd : ((List.range n).map fun i => C.pub (shareOf C rand n t secrets k (i + 1))).Nodup) :
    combineOne C lock k (js.map fun j => shareOf C rand n t secrets k (j + 1)) = .ok secrets[k] := by
  obtain ⟨m, hm, hmlen, hrec⟩ := laws.split_spec secrets[k] (rand k) (hgood k) ht
  have hsm : splitMap C rand n t secrets k = m := by
    simp [splitMap, List.getElem?_eq_getElem hk, hm]
  have hval : ∃ val, lock.validators[k]? = some val ∧ val.pubKey = C.pub secrets[k] ∧
      val.pubShares = (List.range n).map fun i => C.pub (shareOf C rand n t secrets k (i + 1)) := by
    have h1 := congrArg (fun l => l[k]?) hcl.pubKeys
    have h2 := congrArg (fun l => l[k]?) hcl.pubShares
    simp only [List.getElem?_map, List.getElem?_eq_getElem hk, List.getElem?_range hk, Option.map_some] at h1 h2
    cases hv : lock.validators[k]? with
    | none => simp [hv] at h1
    | some val =>
      simp only [hv, Option.map_some, Option.some.injEq] at h1 h2
      exact ⟨val, rfl, h1, h2⟩
  obtain ⟨val, hv, hpk, hps⟩ := hval
  unfold combineOne
  have hlt : ¬ (js.map fun j => shareOf C rand n t secrets k (j + 1)).length < lock.threshold := by
    rw [hcl.threshold]; simp; omega
  rw [if_neg hlt, hv]
  simp only []
  have hget : ∀ j ∈ js, get? (pubkMap val.pubShares) (C.pub (shareOf C rand n t secrets k (j + 1))) = some (j + 1) := by
    intro j hj
    have hjn := hjs j hj
    have hjl : j < val.pubShares.length := by rw [hps]; simpa using hjn
    have := get?_pubkMap val.pubShares (by rw [hps]; exact hnd) j hjl
    have he : val.pubShares[j] = C.pub (shareOf C rand n t secrets k (j + 1)) := by simp [hps]
    rw [he] at this
    exact this
  rw [idxShares_spec C (pubkMap val.pubShares) (fun j => shareOf C rand n t secrets k (j + 1)) (fun j => j + 1) js [] hget
    (by simpa using hjnd.map (fun a b h => by omega))]
  simp only [List.nil_append]
  have hshape : (js.map fun j => (j + 1, shareOf C rand n t secrets k (j + 1))) =
      (js.map (· + 1)).map fun i => (i, shareAt m i) := by
    simp [List.map_map, Function.comp_def, shareOf, hsm]
  rw [hshape, (hrec (js.map (· + 1)) (hjnd.map (fun a b h => by omega))
    (by intro i hi; obtain ⟨j, hj, rfl⟩ := List.mem_map.mp hi; have := hjs j hj; omega) (by simpa using hlen)).1]
  simp only []
  rw [if_pos hpk.symm]

/-- **`combine` after `create cluster`** (lemma form): the directories of the nodes `js` (any order, key files in
any order) are accepted and the validator secrets returned. -/
theorem combine_created (C : Crypto PK SK Sig M R) (n t : Nat) (good : R → Prop) (laws : Laws C n t good)
    (rand : Nat → R) (hgood : ∀ k, good (rand k)) (ht : 2 ≤ t) (secrets : List SK) (hnv : 0 < secrets.length)
    (lock : Lock PK Sig M) (hcl : CreatedLock C rand n t secrets lock) (nv force out : Bool)
    (hver : nv = true ∨ verifyLock C lock = true)
    (hnd : ∀ k < secrets.length, ((List.range n).map fun i => C.pub (shareOf C rand n t secrets k (i + 1))).Nodup)
    (js : List Nat) (hjs : ∀ j ∈ js, j < n) (hjnd : js.Nodup) (hlen : t ≤ js.length)
    (order : Nat → List Nat) (hord : ∀ j ∈ js, (order j).Perm (List.range secrets.length)) :
    combine C nv force (js.map fun j => createdDir lock (nodeSecrets (createdSets C rand n t secrets) j) (order j)) out =
      if out && !force then .error .exists else .ok secrets := by
  have hjne : js ≠ [] := by
    intro h; rw [h] at hlen; simp at hlen; omega
  unfold combine
  rw [loadManifest_honest C nv lock _ none [] (by
        intro d hd
        obtain ⟨j, _, rfl⟩ := List.mem_map.mp hd
        exact ⟨rfl, rfl⟩) hver (Or.inl (by simpa using hjne)) (Or.inl rfl)]
  simp only [List.nil_append]
  rw [loadAllKeys_created lock js (fun j => nodeSecrets (createdSets C rand n t secrets) j) order secrets.length hnv
    (fun j _ => by simp [nodeSecrets, createdSets]) hord]
  simp only []
  rw [numKeyIdx_const _ secrets.length (by simpa using hjne) (by
        intro x hx
        obtain ⟨j, _, rfl⟩ := List.mem_map.mp hx
        simp [nodeSecrets, createdSets])]
  rw [combineLoop_ok C lock _ (List.range secrets.length) (fun k => (secrets[k]?).getD default) (by
        intro k hk
        have hk' := List.mem_range.mp hk
        rw [pkSet_created C rand n t secrets js hjs k hk',
          combineOne_created C n t good laws rand hgood ht secrets lock hcl js hjs hjnd hlen k hk' (hnd k hk')]
        simp [List.getElem?_eq_getElem hk'])]
  simp only [range_map_getD]

/-! #### soundness of an accepted input -/

theorem combineOne_ok_inv (C : Crypto PK SK Sig M R) (lock : Lock PK Sig M) (k : Nat) (set : List SK) (s : SK)
    (h : combineOne C lock k set = .ok s) :
    lock.threshold ≤ set.length ∧ ∃ val, lock.validators[k]? = some val ∧ C.pub s = val.pubKey ∧
      (∀ x ∈ set, C.pub x ∈ val.pubShares) ∧ ∃ shares, idxShares C (pubkMap val.pubShares) set [] = some shares ∧ C.recover shares = some s := by
  unfold combineOne at h
  split_ifs at h with hlt
  cases hv : lock.validators[k]? with
  | none => simp [hv] at h
  | some val =>
    simp only [hv] at h
    cases hi : idxShares C (pubkMap val.pubShares) set [] with
    | none => simp [hi] at h
    | some shares =>
      simp only [hi] at h
      cases hr : C.recover shares with
      | none => simp [hr] at h
      | some secret =>
        simp only [hr] at h
        split_ifs at h with hpk
        simp only [Except.ok.injEq] at h
        subst h
        refine ⟨by omega, val, rfl, hpk, ?_, shares, hi, hr⟩
        intro x hx
        obtain ⟨i, hi'⟩ := idxShares_some C _ set [] shares hi x hx
        exact mem_of_get?_pubkMap val.pubShares (C.pub x) i hi'

/-- **What an accepted input guarantees** — for ANY directories. -/
theorem combine_ok_inv (C : Crypto PK SK Sig M R) (nv force : Bool) (dirs : List (Dir PK SK Sig M)) (out : Bool) (secrets : List SK)
    (h : combine C nv force dirs out = .ok secrets) :
    ∃ lock perDir,
      loadManifest C nv dirs none [] = .ok (lock, dirs.filter keyed) ∧ loadAllKeys (dirs.filter keyed) = .ok perDir ∧
      secrets.length = numKeyIdx perDir ∧ (out = false ∨ force = true) ∧
      ∀ k (hk : k < secrets.length), lock.threshold ≤ (pkSet perDir k).length ∧
        ∃ val, lock.validators[k]? = some val ∧ C.pub secrets[k] = val.pubKey ∧ ∀ x ∈ pkSet perDir k, C.pub x ∈ val.pubShares := by
  unfold combine at h
  cases hm : loadManifest C nv dirs none [] with
  | error e => simp [hm] at h
  | ok r =>
    obtain ⟨lock, paths⟩ := r
    have hpaths : paths = dirs.filter keyed := by simpa using (loadManifest_ok_inv C nv dirs none [] lock paths hm).1
    subst hpaths
    simp only [hm] at h
    cases hk : loadAllKeys (dirs.filter keyed) with
    | error e => simp [hk] at h
    | ok perDir =>
      simp only [hk] at h
      cases hc : combineLoop C lock perDir (List.range (numKeyIdx perDir)) with
      | error e => simp [hc] at h
      | ok ss =>
        simp only [hc] at h
        split_ifs at h with hex
        simp only [Except.ok.injEq] at h
        subst h
        obtain ⟨hl, hall⟩ := combineLoop_ok_inv C lock perDir _ ss hc
        refine ⟨lock, perDir, rfl, rfl, by simpa using hl, ?_, ?_⟩
        · cases out <;> cases force <;> simp_all
        · intro k hk'
          obtain ⟨s, hs, hcs⟩ := hall k (by simpa [hl] using hk')
          simp only [List.getElem_range] at hcs
          obtain ⟨h1, val, h2, h3, h4, _⟩ := combineOne_ok_inv C lock k _ s hcs
          have : ss[k] = s := by
            have := List.getElem?_eq_getElem hk'
            rw [hs] at this
            exact (Option.some.inj this).symm
          exact ⟨h1, val, h2, by rw [this]; exact h3, h4⟩

theorem combine_error_of_unloadable (C : Crypto PK SK Sig M R) (nv force : Bool) (dirs : List (Dir PK SK Sig M)) (out : Bool)
    (h : ∃ d ∈ dirs, keyed d = true ∧ loadClusterLock C nv d.lock = none) : ∃ e, combine C nv force dirs out = .error e := by
  obtain ⟨e, he⟩ := loadManifest_error_of_unloadable C nv dirs none [] h
  exact ⟨e, by simp [combine, he]⟩

/-- no lock file anywhere: refused. -/
theorem combine_error_of_no_locks (C : Crypto PK SK Sig M R) (nv force : Bool) (dirs : List (Dir PK SK Sig M)) (out : Bool)
    (h : ∀ d ∈ dirs, keyed d = true → d.lock = none) : ∃ e, combine C nv force dirs out = .error e := by
  by_cases hk : ∃ d ∈ dirs, keyed d = true
  · obtain ⟨d, hd, hkd⟩ := hk
    exact combine_error_of_unloadable C nv force dirs out ⟨d, hd, hkd, by rw [h d hd hkd]; rfl⟩
  · have : ∀ d ∈ dirs, keyed d = false := by
      intro d hd
      cases hkd : keyed d with
      | false => rfl
      | true => exact absurd ⟨d, hd, hkd⟩ hk
    exact ⟨.noManifest, by simp [combine, loadManifest_noManifest C nv dirs [] this]⟩

/-! #### what a failed `create cluster` leaves behind -/

theorem traceLock_none (ws : List (Write PK SK Sig M)) (i : Nat) (h : ∀ l, Write.lock i l ∉ ws) : traceLock ws i = none := by
  unfold traceLock
  rw [List.findSome?_eq_none_iff]
  intro w hw
  cases w with
  | lock j l =>
    by_cases hj : j = i
    · subst hj; exact absurd hw (h l)
    · simp [hj]
  | _ => rfl

theorem traceKeys_none (ws : List (Write PK SK Sig M)) (i : Nat) (h : ∀ s, Write.keys i s ∉ ws) : traceKeys ws i = none := by
  unfold traceKeys
  rw [List.findSome?_eq_none_iff]
  intro w hw
  cases w with
  | keys j s =>
    by_cases hj : j = i
    · subst hj; exact absurd hw (h s)
    · simp [hj]
  | _ => rfl

theorem traceKeys_isSome (ws : List (Write PK SK Sig M)) (i : Nat) (s : List SK) (h : Write.keys i s ∈ ws) :
    (traceKeys ws i).isSome = true := by
  unfold traceKeys
  rw [List.findSome?_isSome_iff]
  exact ⟨_, h, by simp⟩

theorem diskDirs_mem (n : Nat) (ws : List (Write PK SK Sig M)) (d : Dir PK SK Sig M) (hd : d ∈ diskDirs n ws) :
    ∃ i < n, d.lock = traceLock ws i ∧ d.hasKeys = (traceKeys ws i).isSome ∧ d.isDir = true := by
  simp only [diskDirs, List.mem_map, List.mem_range] at hd
  obtain ⟨i, hi, rfl⟩ := hd
  exact ⟨i, hi, rfl, rfl, rfl⟩

theorem lockSteps_split (n : Nat) (l : Lock PK Sig M) (pre post : List (Step × Write PK SK Sig M)) (s : Step) (w : Write PK SK Sig M)
    (h : lockSteps (SK := SK) n l = pre ++ (s, w) :: post) :
    ∃ j < n, s = .lock j ∧ ∀ l', Write.lock j l' ∉ pre.map (·.2) := by
  have hnd : ((lockSteps (SK := SK) n l).map (·.1)).Nodup := by
    simp only [lockSteps, List.map_map, Function.comp_def]
    exact List.nodup_range.map (fun a b h => by cases h; rfl)
  have hmem : (s, w) ∈ lockSteps (SK := SK) n l := by rw [h]; simp
  simp only [lockSteps, List.mem_map, List.mem_range] at hmem
  obtain ⟨j, hj, hsw⟩ := hmem
  have hs : s = .lock j := (Prod.mk.inj hsw).1.symm
  refine ⟨j, hj, hs, ?_⟩
  intro l' hl'
  obtain ⟨e, he, hew⟩ := List.mem_map.mp hl'
  have hein : e ∈ lockSteps (SK := SK) n l := by rw [h]; exact List.mem_append_left _ he
  simp only [lockSteps, List.mem_map, List.mem_range] at hein
  obtain ⟨j', _, rfl⟩ := hein
  simp only [Write.lock.injEq] at hew
  obtain ⟨rfl, _⟩ := hew
  rw [h, List.map_append, List.map_cons] at hnd
  have := (List.nodup_append.mp hnd).2.2 (Step.lock j') (List.mem_map.mpr ⟨_, he, rfl⟩) s (by simp)
  exact this hs.symm

/-- **A failed `create cluster` leaves nothing `combine` accepts**: whatever write failed, the cluster
directory is refused. -/
theorem failed_create_refused (C : Crypto PK SK Sig M R) (p : Plan SK) (rand : Nat → R) (uuid : Nat) (clock : Nat → Nat)
    (io : Step → Bool) (e : Err) (herr : (runCreate C p rand uuid clock io).2 = .error e) (nv force out : Bool) :
    ∃ ce, combine C nv force (diskDirs p.n (runCreate C p rand uuid clock io).1) out = .error ce := by
  rcases runCreate_cases C p rand uuid clock io with ⟨_, hno⟩ | ⟨pubkeys, sets, dds, regs, vals, _, _, _, _, htr, hres⟩
  · apply combine_error_of_no_locks
    intro d hd _
    obtain ⟨i, _, hl, _, _⟩ := diskDirs_mem _ _ d hd
    rw [hl]
    exact traceLock_none _ i fun l hl' => by simpa [isLockW] using hno _ hl'
  · cases h4 : (writeSeq io (lockSteps (SK := SK) p.n (mkLock C p uuid vals sets))).2 with
    | none => rw [hres, h4] at herr; cases herr
    | some s =>
      obtain ⟨pre, w, post, hsplit, hwr, _⟩ := writeSeq_some io _ s h4
      obtain ⟨j, hj, hs, hpre⟩ := lockSteps_split p.n _ pre post s w hsplit
      have hnolock : ∀ l', Write.lock j l' ∉ (runCreate C p rand uuid clock io).1 := by
        intro l' hmem
        rw [htr, hwr] at hmem
        rcases List.mem_append.mp hmem with hmem | hmem
        · rcases List.mem_append.mp hmem with hmem | hmem
          · rcases List.mem_append.mp hmem with hmem | hmem
            · simpa [isLockW] using p2pSteps_noLock p.n _ hmem
            · simpa [isLockW] using keyPhase_noLock p sets _ hmem
          · simpa [isLockW] using depSteps_noLock p.n dds _ hmem
        · exact hpre l' hmem
      by_cases hkd : p.keysToDisk = true
      · apply combine_error_of_unloadable
        refine ⟨_, List.mem_map.mpr ⟨j, List.mem_range.mpr hj, rfl⟩, ?_, ?_⟩
        · have hk : Write.keys j (nodeSecrets sets j) ∈ (runCreate C p rand uuid clock io).1 := by
            rw [htr]
            apply List.mem_append_left; apply List.mem_append_left; apply List.mem_append_right
            simp only [keyPhase, hkd, if_true, keySteps, List.map_map, List.mem_map, List.mem_range]
            exact ⟨j, hj, rfl⟩
          simp [keyed, traceKeys_isSome _ j _ hk]
        · simp only [traceLock_none _ j hnolock]; rfl
      · apply combine_error_of_no_locks
        intro d hd hk
        obtain ⟨i, _, _, hkeys, hdir⟩ := diskDirs_mem _ _ d hd
        have : traceKeys (runCreate C p rand uuid clock io).1 i = none := by
          apply traceKeys_none
          intro s' hmem
          rw [htr] at hmem
          rcases List.mem_append.mp hmem with hmem | hmem
          · rcases List.mem_append.mp hmem with hmem | hmem
            · rcases List.mem_append.mp hmem with hmem | hmem
              · simp [p2pSteps] at hmem
              · simp [keyPhase, hkd, kmSteps] at hmem
            · simp [depSteps] at hmem
          · have := writeSeq_subset io _ _ hmem
            simp [lockSteps] at this
        simp [keyed, hkeys, this] at hk

/-! #### the successful run -/

theorem writeSeq_all (io : Step → Bool) (hio : ∀ s, io s = true) (steps : List (Step × Write PK SK Sig M)) :
    writeSeq io steps = (steps.map (·.2), none) := by
  induction steps with
  | nil => rfl
  | cons e r ih =>
    obtain ⟨s, w⟩ := e
    simp [writeSeq, hio s, ih]

/-- the gas limit the registrations carry. -/
def regGas (gas : Nat) : Nat := if gas == 0 then defaultGasLimit else gas

/-- the validators of the created cluster. -/
def createdVals (C : Crypto PK SK Sig M R) (p : Plan SK) (rand : Nat → R) (clock : Nat → Nat) : List (DistValidator PK Sig) :=
  (List.range p.secrets.length).map (specVal C rand p.n p.t p.secrets p.wds p.fees p.amounts (regGas p.gas) clock)

/-- the plan is well formed (what `plan` guarantees, see `plan_wf`) and the cryptography admissible. -/
structure GoodRun (C : Crypto PK SK Sig M R) (p : Plan SK) (rand : Nat → R) (good : R → Prop) : Prop where
  laws : Laws C p.n p.t good
  rand_good : ∀ k, good (rand k)
  t_ge : 2 ≤ p.t
  wds_len : p.secrets.length = p.wds.length
  fees_len : p.secrets.length = p.fees.length
  amounts_ne : p.amounts ≠ []
  keys_nodup : (p.secrets.map C.pub).Nodup

theorem createRegs_eq (C : Crypto PK SK Sig M R) (fees : List Nat) (secrets : List SK) (gas : Nat) (clock : Nat → Nat)
    (h : secrets.length = fees.length) :
    createRegs C fees secrets gas clock = .ok (signRegsFrom C (regGas gas) clock 0 (secrets.zip fees)) := by
  unfold createRegs signRegs
  have h1 : (fees.length != secrets.length) = false := by simp [h]
  have h2 : (secrets.length != fees.length) = false := by simp [h]
  simp only [h1, h2, Bool.false_eq_true, if_false]
  rfl

/-- under `GoodRun` the four computations of `runCreateCluster` succeed with the specified values. -/
theorem run_values (C : Crypto PK SK Sig M R) (p : Plan SK) (rand : Nat → R) (good : R → Prop) (g : GoodRun C p rand good)
    (clock : Nat → Nat) :
    tssShares C rand p.n p.t p.secrets = some (p.secrets.map C.pub, createdSets C rand p.n p.t p.secrets) ∧
    createDepositDatas C p.wds p.secrets p.amounts =
      .ok ((dedupAmounts p.amounts).map fun a => (p.secrets.zip p.wds).map fun sw => specDeposit C sw.1 sw.2 a) ∧
    createRegs C p.fees p.secrets p.gas clock = .ok (signRegsFrom C (regGas p.gas) clock 0 (p.secrets.zip p.fees)) ∧
    getValidators C (p.secrets.map C.pub) (createdSets C rand p.n p.t p.secrets)
      ((dedupAmounts p.amounts).map fun a => (p.secrets.zip p.wds).map fun sw => specDeposit C sw.1 sw.2 a)
      (signRegsFrom C (regGas p.gas) clock 0 (p.secrets.zip p.fees)) = .ok (createdVals C p rand clock) :=
  ⟨tssShares_ok C p.n p.t good g.laws rand g.rand_good g.t_ge p.secrets,
   createDepositDatas_eq C p.secrets p.wds p.amounts g.wds_len g.amounts_ne,
   createRegs_eq C p.fees p.secrets p.gas clock g.fees_len,
   getValidators_created C rand p.n p.t p.secrets p.wds p.fees p.amounts (regGas p.gas) clock g.wds_len g.fees_len g.amounts_ne g.keys_nodup⟩

/-- the lock `create cluster` assembles. -/
def createdLock (C : Crypto PK SK Sig M R) (p : Plan SK) (rand : Nat → R) (uuid : Nat) (clock : Nat → Nat) : Lock PK Sig M :=
  mkLock C p uuid (createdVals C p rand clock) (createdSets C rand p.n p.t p.secrets)

/-- what a good run writes when every write succeeds. -/
def fullTrace (C : Crypto PK SK Sig M R) (p : Plan SK) (rand : Nat → R) (uuid : Nat) (clock : Nat → Nat) : List (Write PK SK Sig M) :=
  (p2pSteps p.n).map (·.2) ++ (keyPhase p (createdSets C rand p.n p.t p.secrets)).map (·.2) ++
  (depSteps p.n ((dedupAmounts p.amounts).map fun a => (p.secrets.zip p.wds).map fun sw => specDeposit C sw.1 sw.2 a)).map (·.2) ++
  (lockSteps p.n (createdLock C p rand uuid clock)).map (·.2)

/-- a good run either returns the assembled lock after writing everything, or fails at a write. -/
theorem runCreate_good (C : Crypto PK SK Sig M R) (p : Plan SK) (rand : Nat → R) (good : R → Prop) (g : GoodRun C p rand good)
    (uuid : Nat) (clock : Nat → Nat) (io : Step → Bool) :
    (∀ lock, (runCreate C p rand uuid clock io).2 = .ok lock →
      lock = createdLock C p rand uuid clock ∧ (runCreate C p rand uuid clock io).1 = fullTrace C p rand uuid clock) ∧
    (∀ e, (runCreate C p rand uuid clock io).2 = .error e → ∃ s, e = .io s ∧ io s = false) ∧
    ((∀ s, io s = true) → (runCreate C p rand uuid clock io).2 = .ok (createdLock C p rand uuid clock)) := by
  obtain ⟨h1, h2, h3, h4⟩ := run_values C p rand good g clock
  have hk : (if p.keysToDisk then keySteps p.n (createdSets C rand p.n p.t p.secrets) else kmSteps p.n (createdSets C rand p.n p.t p.secrets)) =
      keyPhase (PK := PK) (Sig := Sig) (M := M) p (createdSets C rand p.n p.t p.secrets) := rfl
  have hrun : runCreate C p rand uuid clock io =
      (let w1 := writeSeq io (p2pSteps (PK := PK) (SK := SK) (Sig := Sig) (M := M) p.n)
       match w1.2 with
       | some s => (w1.1, .error (.io s))
       | none =>
         let w2 := writeSeq io (keyPhase (PK := PK) (Sig := Sig) (M := M) p (createdSets C rand p.n p.t p.secrets))
         match w2.2 with
         | some s => (w1.1 ++ w2.1, .error (.io s))
         | none =>
           let w3 := writeSeq io (depSteps (SK := SK) (M := M) p.n ((dedupAmounts p.amounts).map fun a => (p.secrets.zip p.wds).map fun sw => specDeposit C sw.1 sw.2 a))
           match w3.2 with
           | some s => (w1.1 ++ w2.1 ++ w3.1, .error (.io s))
           | none =>
             let w4 := writeSeq io (lockSteps (SK := SK) p.n (createdLock C p rand uuid clock))
             match w4.2 with
             | some s => (w1.1 ++ w2.1 ++ w3.1 ++ w4.1, .error (.io s))
             | none => (w1.1 ++ w2.1 ++ w3.1 ++ w4.1, .ok (createdLock C p rand uuid clock))) := by
    unfold runCreate
    simp only [h1, h2, h3, h4, hk]
    rfl
  rw [hrun]
  refine ⟨?_, ?_, ?_⟩
  · intro lock hl
    simp only [] at hl ⊢
    cases e1 : (writeSeq io (p2pSteps (PK := PK) (SK := SK) (Sig := Sig) (M := M) p.n)).2 with
    | some s => simp [e1] at hl
    | none =>
      cases e2 : (writeSeq io (keyPhase (PK := PK) (Sig := Sig) (M := M) p (createdSets C rand p.n p.t p.secrets))).2 with
      | some s => simp [e1, e2] at hl
      | none =>
        cases e3 : (writeSeq io (depSteps (SK := SK) (M := M) p.n ((dedupAmounts p.amounts).map fun a => (p.secrets.zip p.wds).map fun sw => specDeposit C sw.1 sw.2 a))).2 with
        | some s => simp [e1, e2, e3] at hl
        | none =>
          cases e4 : (writeSeq io (lockSteps (SK := SK) p.n (createdLock C p rand uuid clock))).2 with
          | some s => simp [e1, e2, e3, e4] at hl
          | none =>
            simp only [e1, e2, e3, e4, Except.ok.injEq] at hl ⊢
            refine ⟨hl.symm, ?_⟩
            simp [fullTrace, (writeSeq_none io _ e1).1, (writeSeq_none io _ e2).1, (writeSeq_none io _ e3).1, (writeSeq_none io _ e4).1]
  · intro e he
    simp only [] at he
    cases e1 : (writeSeq io (p2pSteps (PK := PK) (SK := SK) (Sig := Sig) (M := M) p.n)).2 with
    | some s =>
      simp only [e1, Except.error.injEq] at he
      exact ⟨s, he.symm, (writeSeq_some io _ s e1).choose_spec.choose_spec.choose_spec.2.2⟩
    | none =>
      cases e2 : (writeSeq io (keyPhase (PK := PK) (Sig := Sig) (M := M) p (createdSets C rand p.n p.t p.secrets))).2 with
      | some s =>
        simp only [e1, e2, Except.error.injEq] at he
        exact ⟨s, he.symm, (writeSeq_some io _ s e2).choose_spec.choose_spec.choose_spec.2.2⟩
      | none =>
        cases e3 : (writeSeq io (depSteps (SK := SK) (M := M) p.n ((dedupAmounts p.amounts).map fun a => (p.secrets.zip p.wds).map fun sw => specDeposit C sw.1 sw.2 a))).2 with
        | some s =>
          simp only [e1, e2, e3, Except.error.injEq] at he
          exact ⟨s, he.symm, (writeSeq_some io _ s e3).choose_spec.choose_spec.choose_spec.2.2⟩
        | none =>
          cases e4 : (writeSeq io (lockSteps (SK := SK) p.n (createdLock C p rand uuid clock))).2 with
          | some s =>
            simp only [e1, e2, e3, e4, Except.error.injEq] at he
            exact ⟨s, he.symm, (writeSeq_some io _ s e4).choose_spec.choose_spec.choose_spec.2.2⟩
          | none => simp [e1, e2, e3, e4] at he
  · intro hio
    simp [writeSeq_all io hio]

/-! #### the created lock -/

theorem createdVals_pubKeys (C : Crypto PK SK Sig M R) (p : Plan SK) (rand : Nat → R) (clock : Nat → Nat) :
    (createdVals C p rand clock).map (·.pubKey) = p.secrets.map C.pub := by
  simp only [createdVals, List.map_map, Function.comp_def, specVal]
  have := range_map_getD p.secrets
  conv_rhs => rw [← this]
  simp [List.map_map, Function.comp_def]

theorem createdLock_validators (C : Crypto PK SK Sig M R) (p : Plan SK) (rand : Nat → R) (uuid : Nat) (clock : Nat → Nat) :
    (createdLock C p rand uuid clock).validators = (createdVals C p rand clock).map (projectValidator p.minor) := rfl

theorem createdLock_created (C : Crypto PK SK Sig M R) (p : Plan SK) (rand : Nat → R) (uuid : Nat) (clock : Nat → Nat) :
    CreatedLock C rand p.n p.t p.secrets (createdLock C p rand uuid clock) where
  threshold := rfl
  pubKeys := by
    rw [createdLock_validators, List.map_map]
    have : ((fun v : DistValidator PK Sig => v.pubKey) ∘ projectValidator p.minor) = fun v => v.pubKey := by
      funext v; rfl
    rw [this, createdVals_pubKeys]
  pubShares := by
    rw [createdLock_validators, List.map_map]
    simp [createdVals, List.map_map, Function.comp_def, specVal, projectValidator]

theorem indexed_map_range (g : Nat → PK) (k : Nat) :
    indexed ((List.range k).map g) = (List.range k).map fun i => (i + 1, g i) := by
  unfold indexed
  apply List.ext_getElem
  · simp
  · intro i h1 h2
    simp

theorem take_map_range (g : Nat → PK) (n t : Nat) (h : t ≤ n) : ((List.range n).map g).take t = (List.range t).map g := by
  rw [← List.map_take, List.take_range, Nat.min_eq_left h]

/-- `verifySharesReconstruct` accepts the public shares of one split. -/
theorem sharesReconstruct_created (C : Crypto PK SK Sig M R) (n t : Nat) (good : R → Prop) (laws : Laws C n t good)
    (s : SK) (ρ : R) (hρ : good ρ) (ht : 2 ≤ t) (htn : t ≤ n) (m : List (Nat × SK)) (hm : C.split s ρ n t = some m) :
    sharesReconstruct C (C.pub s) ((List.range n).map fun i => C.pub (shareAt m (i + 1))) t = true := by
  obtain ⟨m', hm', _, hrec⟩ := laws.split_spec s ρ hρ ht
  rw [hm] at hm'
  cases hm'
  unfold sharesReconstruct
  have hc : (decide (t < 1) || decide (t > ((List.range n).map fun i => C.pub (shareAt m (i + 1))).length)) = false := by
    simp; omega
  rw [if_neg (by rw [hc]; simp)]
  rw [Bool.and_eq_true]
  constructor
  · rw [take_map_range _ n t htn, indexed_map_range]
    have : ((List.range t).map fun i => (i + 1, C.pub (shareAt m (i + 1)))) =
        ((List.range t).map (· + 1)).map fun i => (i, C.pub (shareAt m i)) := by simp [List.map_map, Function.comp_def]
    rw [this, (hrec ((List.range t).map (· + 1)) (List.nodup_range.map (fun a b h => by omega))
      (by intro i hi; obtain ⟨j, hj, rfl⟩ := List.mem_map.mp hi; have := List.mem_range.mp hj; omega) (by simp)).2]
    simp
  · rw [List.all_eq_true]
    intro i hi
    have hi' : t ≤ i ∧ i < n := by
      have := List.mem_range'_1.mp hi
      simp at this
      omega
    simp only [List.getElem?_map, List.getElem?_range hi'.2, Option.map_some]
    rw [take_map_range _ n (t - 1) (by omega), indexed_map_range]
    have : ((List.range (t - 1)).map fun j => (j + 1, C.pub (shareAt m (j + 1)))) ++ [(i + 1, C.pub (shareAt m (i + 1)))] =
        ((List.range (t - 1)).map (· + 1) ++ [i + 1]).map fun j => (j, C.pub (shareAt m j)) := by
      simp [List.map_map, Function.comp_def]
    rw [this, (hrec ((List.range (t - 1)).map (· + 1) ++ [i + 1]) ?_ ?_ ?_).2]
    · simp
    · rw [List.nodup_append]
      refine ⟨List.nodup_range.map (fun a b h => by omega), by simp, ?_⟩
      intro a ha b hb
      obtain ⟨j, hj, rfl⟩ := List.mem_map.mp ha
      have := List.mem_range.mp hj
      simp at hb
      omega
    · intro j hj
      rcases List.mem_append.mp hj with hj | hj
      · obtain ⟨j', hj', rfl⟩ := List.mem_map.mp hj
        have := List.mem_range.mp hj'
        omega
      · simp at hj; omega
    · simp; omega

theorem createdVals_getElem (C : Crypto PK SK Sig M R) (p : Plan SK) (rand : Nat → R) (clock : Nat → Nat)
    (v : DistValidator PK Sig) (hv : v ∈ (createdVals C p rand clock).map (projectValidator p.minor)) :
    ∃ k, k < p.secrets.length ∧ v = projectValidator p.minor (specVal C rand p.n p.t p.secrets p.wds p.fees p.amounts (regGas p.gas) clock k) := by
  simp only [createdVals, List.map_map, List.mem_map, List.mem_range] at hv
  obtain ⟨k, hk, rfl⟩ := hv
  exact ⟨k, hk, rfl⟩

theorem verifyLock_created (C : Crypto PK SK Sig M R) (p : Plan SK) (rand : Nat → R) (good : R → Prop) (g : GoodRun C p rand good)
    (uuid : Nat) (clock : Nat → Nat) (htn : p.t ≤ p.n) (hnv : p.numValidators = p.secrets.length)
    (hsn : ∀ k < p.secrets.length, ((List.range p.n).map fun i => C.pub (shareOf C rand p.n p.t p.secrets k (i + 1))).Nodup) :
    verifyLock C (createdLock C p rand uuid clock) = true := by
  unfold verifyLock
  have e_sig : (createdLock C p rand uuid clock).sigAgg =
      some (aggSign C (createdSets C rand p.n p.t p.secrets) (createdLock C p rand uuid clock).hash) := rfl
  rw [e_sig]
  simp only [Bool.and_eq_true]
  refine ⟨⟨⟨rfl, ?_⟩, ?_⟩, ⟨⟨⟨⟨⟨?_, ?_⟩, ?_⟩, ?_⟩, ?_⟩, ?_⟩⟩
  · show (((createdVals C p rand clock).map (projectValidator p.minor)).length == p.numValidators) = true
    simp [createdVals, hnv]
  · exact decide_eq_true rfl
  · rw [List.all_eq_true]
    intro v hv
    obtain ⟨k, _, rfl⟩ := createdVals_getElem C p rand clock v hv
    show (((List.range p.n).map _).length == p.n) = true
    simp
  · rw [(createdLock_created C p rand uuid clock).pubKeys]
    exact decide_eq_true g.keys_nodup
  · rw [List.all_eq_true]
    intro v hv
    obtain ⟨k, hk, rfl⟩ := createdVals_getElem C p rand clock v hv
    obtain ⟨m, hm, _, _⟩ := g.laws.split_spec p.secrets[k] (rand k) (g.rand_good k) g.t_ge
    have hsm : splitMap C rand p.n p.t p.secrets k = m := by simp [splitMap, List.getElem?_eq_getElem hk, hm]
    rw [Bool.and_eq_true]
    refine ⟨decide_eq_true (hsn k hk), ?_⟩
    have := sharesReconstruct_created C p.n p.t good g.laws p.secrets[k] (rand k) (g.rand_good k) g.t_ge htn m hm
    simpa [projectValidator, specVal, shareOf, hsm, List.getElem?_eq_getElem hk, createdLock, mkLock] using this
  · have hflat : (createdLock C p rand uuid clock).validators.flatMap (·.pubShares) =
        (createdSets C rand p.n p.t p.secrets).flatten.map C.pub := by
      simp [createdLock_validators, createdVals, createdSets, List.flatMap, List.map_flatten, List.map_map, specVal,
        projectValidator, Function.comp_def]
    rw [hflat]
    exact g.laws.verify_agg _ _
  · rw [List.all_eq_true]
    intro e he
    obtain ⟨v, k⟩ := e
    have hmem := List.mem_zipIdx he
    simp only [Nat.zero_le, Nat.zero_add, Nat.sub_zero, true_and] at hmem
    obtain ⟨hk, hv⟩ := hmem
    have hk' : k < p.secrets.length := by simpa [createdLock_validators, createdVals] using hk
    have hvk : v = projectValidator p.minor (specVal C rand p.n p.t p.secrets p.wds p.fees p.amounts (regGas p.gas) clock k) := by
      rw [hv]
      simp [createdLock_validators, createdVals]
    subst hvk
    have hfk : k < p.fees.length := by rw [← g.fees_len]; exact hk'
    show verifyReg C p.minor p.fees[k]? _ = true
    unfold verifyReg
    by_cases h7 : p.minor ≥ 7
    · simp only [projectValidator, specVal, h7, if_true, specReg, List.getElem?_eq_getElem hfk, Option.getD_some]
      have : ¬ p.minor < 7 := by omega
      simp only [this, if_false, decide_true, Bool.true_and]
      exact g.laws.verify_sign _ _
    · have : p.minor < 7 := by omega
      simp [projectValidator, h7, this]
  · show verifyNodeSigs p.minor p.n (if p.minor ≥ 7 then List.replicate p.n true else []) = true
    unfold verifyNodeSigs
    by_cases h7 : p.minor ≥ 7
    · have : ¬ p.minor < 7 := by omega
      simp [h7, this]
    · have : p.minor < 7 := by omega
      simp [h7, this]

end Combine

end Laws

/-! ### threshold BLS (`Spec/Tbls`) as the cryptography of the glue -/

open Polynomial Finset CharonV.Tbls

section Algebra
variable {F : Type} [Field F] [Inhabited F] {G1 G2 : Type} [AddCommGroup G1] [Module F G1] [AddCommGroup G2] [Module F G2]
variable [DecidableEq G1] {M : Type}

/-- value filed under identifier `i` (`0` if absent). -/
def lookupA {A : Type} [Zero A] (l : List (ℕ × A)) (i : ℕ) : A := (get? l i).getD 0

/-- Threshold BLS (`Spec/Tbls`) as the `Crypto` of the glue: secrets are scalars, the public key of `s` is `s • g1`,
the signature `s • Hm m`, `Verify` the idealised pairing equation; `ThresholdSplit` with randomness `ρ` hands out the
values of `s + X·ρ` at `1..n`; `RecoverSecret` / `RecoverPubkey` are the Lagrange combinations over the identifiers
present; `Aggregate` is the sum. -/
noncomputable def algCrypto (g1 : G1) (Hm : M → G2) (droot : DepositMsg G1 → M) (rroot : RegMsg G1 → M)
    (lh : Nat → Nat → Nat → Nat → Nat → List Nat → List (DistValidator G1 G2) → M) : Crypto G1 F G2 M F[X] where
  pub s := pk g1 s
  sign s m := sign Hm s m
  verify K m σ := @decide (Verifies F g1 Hm K m σ) (Classical.propDecidable _)
  split s ρ n t := if t ≤ 1 then none else some (Tbls.split (C s + X * ρ) n)
  recover l := some (Tbls.recover (l.map Prod.fst).toFinset (lookupA l))
  recoverPub l := some (recoverG F (l.map Prod.fst).toFinset (lookupA l))
  aggregate sigs := sigs.sum
  verifyAgg pks σ m := @decide (Verifies F g1 Hm pks.sum m σ) (Classical.propDecidable _)
  depositRoot := droot
  regRoot := rroot
  lockHash := lh

theorem sharing_poly (s : F) (ρ : F[X]) (t : ℕ) (ht : 2 ≤ t) (hρ : ρ.degree < ((t - 1 : ℕ) : WithBot ℕ)) :
    (C s + X * ρ).degree < (t : WithBot ℕ) ∧ (C s + X * ρ).eval 0 = s := by
  refine ⟨?_, by simp⟩
  rw [degree_lt_iff_coeff_zero]
  intro m hm
  obtain ⟨m', rfl⟩ : ∃ m', m = m' + 1 := ⟨m - 1, by omega⟩
  rw [coeff_add, coeff_C_succ, coeff_X_mul, zero_add]
  exact (degree_lt_iff_coeff_zero ρ (t - 1)).mp hρ m' (by omega)

theorem get?_split (p : F[X]) (n i : ℕ) (h1 : 1 ≤ i) (hn : i ≤ n) : get? (Tbls.split p n) i = some (share p i) := by
  apply get?_of_mem_nodup
  · simp only [Tbls.split, List.map_map, Function.comp_def]
    exact List.nodup_range.map (fun a b h => by simpa using h)
  · simp only [Tbls.split, List.mem_map, List.mem_range]
    exact ⟨i - 1, by omega, by rw [Nat.sub_add_cancel h1]⟩

theorem lookupA_map {A : Type} [Zero A] (ids : List ℕ) (hnd : ids.Nodup) (f : ℕ → A) (i : ℕ) (hi : i ∈ ids) :
    lookupA (ids.map fun j => (j, f j)) i = f i := by
  unfold lookupA
  rw [get?_of_mem_nodup _ (by simpa [List.map_map, Function.comp_def] using hnd) i (f i) (List.mem_map.mpr ⟨i, hi, rfl⟩)]
  rfl

theorem list_sum_pk (g1 : G1) (sks : List F) : (sks.map fun s => pk g1 s).sum = pk g1 sks.sum := by
  induction sks with
  | nil => simp [pk]
  | cons s r ih =>
    simp only [List.map_cons, List.sum_cons, ih]
    simp [pk, add_smul]

theorem list_sum_sign (Hm : M → G2) (m : M) (sks : List F) : (sks.map fun s => sign Hm s m).sum = sign Hm sks.sum m := by
  induction sks with
  | nil => simp [sign]
  | cons s r ih =>
    simp only [List.map_cons, List.sum_cons, ih]
    simp [sign, add_smul]

/-- recovery from the shares of a polynomial of degree `< t` at `≥ t` pairwise different identifiers of `1..n`. -/
theorem alg_recover_ids (g1 : G1) (p : F[X]) (n t : ℕ) (hdeg : p.degree < (t : WithBot ℕ))
    (hinj : IdsDistinct F (List.range' 1 n).toFinset) (ids : List ℕ) (hnd : ids.Nodup) (hrange : ∀ i ∈ ids, 1 ≤ i ∧ i ≤ n)
    (hlen : t ≤ ids.length) :
    Tbls.recover ((ids.map fun i => (i, shareAt (Tbls.split p n) i)).map Prod.fst).toFinset
      (lookupA (ids.map fun i => (i, shareAt (Tbls.split p n) i))) = p.eval 0 ∧
    recoverG F ((ids.map fun i => (i, pk g1 (shareAt (Tbls.split p n) i))).map Prod.fst).toFinset
      (lookupA (ids.map fun i => (i, pk g1 (shareAt (Tbls.split p n) i)))) = pk g1 (p.eval 0) := by
  have hshare : ∀ i ∈ ids, shareAt (Tbls.split p n) i = share p i := by
    intro i hi
    unfold shareAt
    rw [get?_split _ n i (hrange i hi).1 (hrange i hi).2]
    rfl
  have hS : IdsDistinct F ids.toFinset := by
    intro a ha b hb hab
    have ha' := hrange a (List.mem_toFinset.mp ha)
    have hb' := hrange b (List.mem_toFinset.mp hb)
    exact hinj (by simp; omega) (by simp; omega) hab
  have hcard : ids.toFinset.card = ids.length := List.toFinset_card_of_nodup hnd
  have hrecov : recover ids.toFinset (share p) = p.eval 0 :=
    recover_share _ _ hS (lt_of_lt_of_le hdeg (by rw [hcard]; exact_mod_cast hlen))
  have e1 : (ids.map fun i => (i, shareAt (Tbls.split p n) i)) = ids.map fun i => (i, share p i) :=
    List.map_congr_left fun i hi => by rw [hshare i hi]
  have e2 : (ids.map fun i => (i, pk g1 (shareAt (Tbls.split p n) i))) = ids.map fun i => (i, pk g1 (share p i)) :=
    List.map_congr_left fun i hi => by rw [hshare i hi]
  have hk1 : ((ids.map fun i => (i, share p i)).map Prod.fst) = ids := by simp [List.map_map, Function.comp_def]
  have hk2 : ((ids.map fun i => (i, pk g1 (share p i))).map Prod.fst) = ids := by simp [List.map_map, Function.comp_def]
  constructor
  · rw [e1, hk1, ← hrecov]
    unfold recover
    refine Finset.sum_congr rfl fun j hj => ?_
    rw [lookupA_map ids hnd _ j (List.mem_toFinset.mp hj)]
  · rw [e2, hk2, ← hrecov]
    have : recoverG F ids.toFinset (lookupA (ids.map fun i => (i, pk g1 (share p i)))) =
        recoverG F ids.toFinset (fun j => share p j • g1) := by
      unfold recoverG
      refine Finset.sum_congr rfl fun j hj => ?_
      rw [lookupA_map ids hnd _ j (List.mem_toFinset.mp hj)]
      rfl
    rw [this, recoverG_smul]
    rfl

/-- **Threshold BLS satisfies the laws** for randomness `ρ` of degree `< t-1`, when the identifiers
`1..n` are pairwise different scalars. -/
theorem alg_laws (g1 : G1) (Hm : M → G2) (droot : DepositMsg G1 → M) (rroot : RegMsg G1 → M)
    (lh : Nat → Nat → Nat → Nat → Nat → List Nat → List (DistValidator G1 G2) → M) (n t : ℕ)
    (hinj : IdsDistinct F (List.range' 1 n).toFinset) :
    Laws (algCrypto (F := F) g1 Hm droot rroot lh) n t (fun ρ => ρ.degree < ((t - 1 : ℕ) : WithBot ℕ)) where
  split_spec s ρ hρ ht := by
    obtain ⟨hdeg, hev⟩ := sharing_poly s ρ t ht hρ
    refine ⟨Tbls.split (C s + X * ρ) n, ?_, by simp [Tbls.split], ?_⟩
    · show (if t ≤ 1 then none else some _) = _
      rw [if_neg (by omega)]
    · intro ids hnd hrange hlen
      obtain ⟨h1, h2⟩ := alg_recover_ids g1 (C s + X * ρ) n t hdeg hinj ids hnd hrange hlen
      rw [hev] at h1 h2
      exact ⟨congrArg some h1, congrArg some h2⟩
  split_low s ρ ht := by
    show (if t ≤ 1 then none else some _) = none
    rw [if_pos ht]
  verify_sign sk m := by
    show @decide (Verifies F g1 Hm _ m _) (Classical.propDecidable _) = true
    exact @decide_eq_true _ (Classical.propDecidable _) ⟨sk, rfl, rfl⟩
  verify_agg sks m := by
    show @decide (Verifies F g1 Hm (sks.map fun s => pk g1 s).sum m (sks.map fun s => sign Hm s m).sum) (Classical.propDecidable _) = true
    rw [list_sum_pk, list_sum_sign]
    exact @decide_eq_true _ (Classical.propDecidable _) ⟨sks.sum, rfl, rfl⟩

end Algebra

/-! ### `verifySharesReconstruct` on the algebra -/

section Reconstruct
variable {F : Type} [Field F] {G : Type} [AddCommGroup G] [Module F G]

theorem recover_eq_eval_interpolate (S : Finset ℕ) (y : ℕ → F) :
    recover S y = (Lagrange.interpolate S (idF F) y).eval 0 := by
  rw [Lagrange.interpolate_apply, eval_finsetSum]
  unfold recover lam
  refine Finset.sum_congr rfl fun j _ => ?_
  simp [eval_mul, eval_C, mul_comm]

/-- scalar form: if the first `t` points and every later point together with the first `t-1` interpolate to `k` at 0,
then all `n` points lie on one polynomial of degree `< t` whose value at 0 is `k`. -/
theorem scalar_reconstruct (y : ℕ → F) (k : F) (t n : ℕ) (ht1 : 1 ≤ t) (htn : t ≤ n)
    (hinj : IdsDistinct F (List.range (n + 1)).toFinset)
    (hA : recover (List.range' 1 t).toFinset y = k)
    (hB : ∀ i, t < i → i ≤ n → recover (List.range' 1 (t - 1) ++ [i]).toFinset y = k) :
    ∃ p : F[X], p.degree < (t : WithBot ℕ) ∧ p.eval 0 = k ∧ ∀ j, 1 ≤ j → j ≤ n → y j = p.eval (idF F j) := by
  have hsub : ∀ (S : Finset ℕ), (∀ j ∈ S, j ≤ n) → Set.InjOn (idF F) (S : Set ℕ) := by
    intro S hS a ha b hb hab
    exact hinj (by simp; have := hS a ha; omega) (by simp; have := hS b hb; omega) hab
  set T := (List.range' 1 t).toFinset with hT
  have hTmem : ∀ j, j ∈ T ↔ 1 ≤ j ∧ j ≤ t := by
    intro j; simp [hT, List.mem_range'_1]; omega
  have hTinj : Set.InjOn (idF F) (T : Set ℕ) := hsub T fun j hj => by have := (hTmem j).mp hj; omega
  have hTcard : T.card = t := by
    rw [hT, List.toFinset_card_of_nodup (List.nodup_range' (step := 1))]; simp
  refine ⟨Lagrange.interpolate T (idF F) y, ?_, ?_, ?_⟩
  · have := Lagrange.degree_interpolate_lt (r := y) hTinj
    rwa [hTcard] at this
  · rw [← recover_eq_eval_interpolate]; exact hA
  · intro j hj1 hjn
    by_cases hjt : j ≤ t
    · exact (Lagrange.eval_interpolate_at_node y hTinj ((hTmem j).mpr ⟨hj1, hjt⟩)).symm
    · have hjt' : t < j := by omega
      set U := (List.range' 1 (t - 1) ++ [j]).toFinset with hU
      have hUmem : ∀ x, x ∈ U ↔ (1 ≤ x ∧ x ≤ t - 1) ∨ x = j := by
        intro x; simp [hU, List.mem_range'_1]; omega
      have hUinj : Set.InjOn (idF F) (U : Set ℕ) := hsub U fun x hx => by
        rcases (hUmem x).mp hx with h | h <;> omega
      have hUcard : U.card = t := by
        rw [hU, List.toFinset_card_of_nodup]
        · simp; omega
        · rw [List.nodup_append]
          refine ⟨List.nodup_range' (step := 1), by simp, ?_⟩
          intro a ha b hb
          simp [List.mem_range'_1] at ha hb
          omega
      have hqdeg : (Lagrange.interpolate U (idF F) y).degree < (t : WithBot ℕ) := by
        have := Lagrange.degree_interpolate_lt (r := y) hUinj
        rwa [hUcard] at this
      have hpdeg : (Lagrange.interpolate T (idF F) y).degree < (t : WithBot ℕ) := by
        have := Lagrange.degree_interpolate_lt (r := y) hTinj
        rwa [hTcard] at this
      -- the two interpolants agree at 0 and at 1..t-1
      set Z := (List.range t).toFinset with hZ
      have hZmem : ∀ x, x ∈ Z ↔ x < t := by intro x; simp [hZ]
      have hZinj : Set.InjOn (idF F) (Z : Set ℕ) := hsub Z fun x hx => by have := (hZmem x).mp hx; omega
      have hZcard : Z.card = t := by rw [hZ, List.toFinset_card_of_nodup List.nodup_range]; simp
      have heq : Lagrange.interpolate T (idF F) y = Lagrange.interpolate U (idF F) y := by
        apply Polynomial.eq_of_degrees_lt_of_eval_index_eq Z hZinj (by rwa [hZcard]) (by rwa [hZcard])
        intro x hx
        have hxt := (hZmem x).mp hx
        by_cases hx0 : x = 0
        · subst hx0
          have h0 : idF F 0 = 0 := by simp [idF]
          rw [h0, ← recover_eq_eval_interpolate, ← recover_eq_eval_interpolate, hA, hB j hjt' hjn]
        · rw [Lagrange.eval_interpolate_at_node y hTinj ((hTmem x).mpr ⟨by omega, by omega⟩),
            Lagrange.eval_interpolate_at_node y hUinj ((hUmem x).mpr (Or.inl ⟨by omega, by omega⟩))]
      rw [heq]
      exact (Lagrange.eval_interpolate_at_node y hUinj ((hUmem j).mpr (Or.inr rfl))).symm


theorem dual_recoverG (φ : Module.Dual F G) (S : Finset ℕ) (Y : ℕ → G) :
    φ (recoverG F S Y) = recover S (fun j => φ (Y j)) := by
  unfold recoverG recover
  rw [map_sum]
  exact Finset.sum_congr rfl fun j _ => by rw [map_smul, smul_eq_mul]

/-- **Accepted by `verifySharesReconstruct` ⇒ every threshold subset reconstructs the key** (in the exponent): if the
first `t` public shares and every later one together with the first `t-1` interpolate to `K` at 0, then ANY set of at
least `t` of the `n` public shares does. -/
theorem module_reconstruct (Y : ℕ → G) (K : G) (t n : ℕ) (ht1 : 1 ≤ t) (htn : t ≤ n)
    (hinj : IdsDistinct F (List.range (n + 1)).toFinset)
    (hA : recoverG F (List.range' 1 t).toFinset Y = K)
    (hB : ∀ i, t < i → i ≤ n → recoverG F (List.range' 1 (t - 1) ++ [i]).toFinset Y = K)
    (S : Finset ℕ) (hS : ∀ j ∈ S, 1 ≤ j ∧ j ≤ n) (hcard : t ≤ S.card) : recoverG F S Y = K := by
  rw [← sub_eq_zero, ← Module.forall_dual_apply_eq_zero_iff F]
  intro φ
  rw [map_sub, sub_eq_zero, dual_recoverG]
  obtain ⟨p, hdeg, hev, hall⟩ := scalar_reconstruct (fun j => φ (Y j)) (φ K) t n ht1 htn hinj
    (by rw [← dual_recoverG, hA]) (fun i h1 h2 => by rw [← dual_recoverG, hB i h1 h2])
  have hSinj : IdsDistinct F S := by
    intro a ha b hb hab
    exact hinj (by simp; have := hS a ha; omega) (by simp; have := hS b hb; omega) hab
  have : recover S (fun j => φ (Y j)) = recover S (share p) := by
    unfold recover
    exact Finset.sum_congr rfl fun j hj => by
      show lam S j * φ (Y j) = _
      rw [hall j (hS j hj).1 (hS j hj).2]; rfl
  rw [this, recover_share p S hSinj (lt_of_lt_of_le hdeg (by exact_mod_cast hcard)), hev]


end Reconstruct

section ReconstructModel
variable {F : Type} [Field F] [Inhabited F] {G1 G2 : Type} [AddCommGroup G1] [Module F G1] [AddCommGroup G2] [Module F G2]
variable [DecidableEq G1] {M : Type}

/-- the public share with share index `j` (`1`-based) of a lock validator. -/
def pubShareAt (shares : List G1) (j : ℕ) : G1 := (shares[j - 1]?).getD 0

theorem indexed_eq (l : List G1) : indexed l = (List.range l.length).map fun i => (i + 1, (l[i]?).getD 0) := by
  unfold indexed
  apply List.ext_getElem
  · simp
  · intro i h1 h2
    have : i < l.length := by simpa using h1
    simp [List.getElem?_eq_getElem this]

theorem recoverG_lookupA (ids : List ℕ) (hnd : ids.Nodup) (Y : ℕ → G1) :
    recoverG F ((ids.map fun j => (j, Y j)).map Prod.fst).toFinset (lookupA (ids.map fun j => (j, Y j))) =
      recoverG F ids.toFinset Y := by
  have hk : ((ids.map fun j => (j, Y j)).map Prod.fst) = ids := by simp [List.map_map, Function.comp_def]
  rw [hk]
  unfold recoverG
  exact Finset.sum_congr rfl fun j hj => by rw [lookupA_map ids hnd Y j (List.mem_toFinset.mp hj)]

/-- **What `verifySharesReconstruct` establishes** (model `sharesReconstruct` over the threshold-BLS algebra): if it
accepts the public shares `shares` of a validator for the key `K` and threshold `t`, then EVERY set of at least `t`
share indices reconstructs `K` — all `n` public shares lie on one polynomial of degree `< t` (in the exponent) whose
value at 0 is `K`. (Identifiers `0..n` pairwise different as scalars: `n` below the group order.) -/
theorem sharesReconstruct_alg_sound (g1 : G1) (Hm : M → G2) (droot : DepositMsg G1 → M) (rroot : RegMsg G1 → M)
    (lh : Nat → Nat → Nat → Nat → Nat → List Nat → List (DistValidator G1 G2) → M) (K : G1) (shares : List G1) (t : ℕ)
    (hinj : IdsDistinct F (List.range (shares.length + 1)).toFinset)
    (h : sharesReconstruct (algCrypto (F := F) g1 Hm droot rroot lh) K shares t = true)
    (S : Finset ℕ) (hS : ∀ j ∈ S, 1 ≤ j ∧ j ≤ shares.length) (hcard : t ≤ S.card) :
    recoverG F S (pubShareAt shares) = K := by
  unfold sharesReconstruct at h
  split_ifs at h with hc
  have ht : 1 ≤ t ∧ t ≤ shares.length := by
    simp only [Bool.or_eq_true, decide_eq_true_eq, not_or, not_lt] at hc
    omega
  rw [Bool.and_eq_true] at h
  obtain ⟨h1, h2⟩ := h
  have hY : ∀ (k : ℕ) (l : List G1), (∀ i < k, l[i]? = shares[i]?) → l.length = k →
      indexed l = ((List.range k).map (· + 1)).map fun j => (j, pubShareAt shares j) := by
    intro k l hl hlen
    rw [indexed_eq, hlen, List.map_map]
    apply List.map_congr_left
    intro i hi
    simp [pubShareAt, hl i (List.mem_range.mp hi)]
  have hr1 : (List.range t).map (· + 1) = List.range' 1 t := by
    rw [List.range'_eq_map_range]; simp [Nat.add_comm]
  apply module_reconstruct (pubShareAt shares) K t shares.length ht.1 ht.2 hinj ?_ ?_ S hS hcard
  · rw [hY t (shares.take t) (fun i hi => by simp [List.getElem?_take, hi]) (by simp; omega)] at h1
    have h1' : recoverG F ((((List.range t).map (· + 1)).map fun j => (j, pubShareAt shares j)).map Prod.fst).toFinset
        (lookupA (((List.range t).map (· + 1)).map fun j => (j, pubShareAt shares j))) = K := Option.some.inj (eq_of_beq h1)
    rw [recoverG_lookupA _ (List.nodup_range.map (fun a b h => by omega)), hr1] at h1'
    exact h1'
  · intro i hti hin
    rw [List.all_eq_true] at h2
    have hmem : i - 1 ∈ List.range' t (shares.length - t) := by
      rw [List.mem_range'_1]; omega
    have := h2 (i - 1) hmem
    have hlt : i - 1 < shares.length := by omega
    simp only [List.getElem?_eq_getElem hlt] at this
    rw [hY (t - 1) (shares.take (t - 1)) (fun j hj => by simp [List.getElem?_take, hj]) (by simp; omega)] at this
    have e : ((List.range (t - 1)).map (· + 1)).map (fun j => (j, pubShareAt shares j)) ++ [(i - 1 + 1, shares[i - 1])] =
        ((List.range (t - 1)).map (· + 1) ++ [i]).map fun j => (j, pubShareAt shares j) := by
      have hi : i - 1 + 1 = i := by omega
      simp [pubShareAt, hi, List.getElem?_eq_getElem hlt]
    rw [e] at this
    have h3' : recoverG F ((((List.range (t - 1)).map (· + 1) ++ [i]).map fun j => (j, pubShareAt shares j)).map Prod.fst).toFinset
        (lookupA (((List.range (t - 1)).map (· + 1) ++ [i]).map fun j => (j, pubShareAt shares j))) = K := Option.some.inj (eq_of_beq this)
    rw [recoverG_lookupA _ ?_] at h3'
    · have hr2 : (List.range (t - 1)).map (· + 1) = List.range' 1 (t - 1) := by
        rw [List.range'_eq_map_range]; simp [Nat.add_comm]
      rw [hr2] at h3'
      exact h3'
    · rw [List.nodup_append]
      refine ⟨List.nodup_range.map (fun a b h => by omega), by simp, ?_⟩
      intro a ha b hb
      obtain ⟨j, hj, rfl⟩ := List.mem_map.mp ha
      have := List.mem_range.mp hj
      simp at hb
      omega

end ReconstructModel

/-! ### `plan` -/

section PlanLemmas
variable {SK : Type} [DecidableEq SK]

theorem defaultDepositAmounts_ne (c : Bool) : defaultDepositAmounts c ≠ [] := by
  unfold defaultDepositAmounts; split <;> simp

theorem clusterThreshold_range (n : Nat) (h : 3 ≤ n) : 2 ≤ clusterThreshold n ∧ clusterThreshold n ≤ n := by
  unfold clusterThreshold; omega

theorem validateCreateConfig_ok (c : Config) (ex : Nat → Bool) (h : validateCreateConfig c ex = .ok ()) : minNodes ≤ c.numNodes := by
  unfold validateCreateConfig at h
  generalize (if c.amountsEth.isEmpty then Except.ok () else verifyDepositAmounts (ethsToGweis c.amountsEth) c.compounding) = r at h
  cases r with
  | error e => split_ifs at h <;> cases h
  | ok u => split_ifs at h <;> first | (unfold minNodes at *; omega) | cases h

theorem planTail_ok (c : Config) (env : Env SK) (secrets0 : List SK) (n t nv : Nat) (fees wds amounts0 : List Nat) (gas : Nat)
    (comp : Bool) (minor : Nat) (p : Plan SK)
    (h : planTail c env secrets0 (n, t, nv, fees, wds, amounts0, gas, comp, minor) = .ok p) :
    p.n = n ∧ p.t = t ∧ p.numValidators = nv ∧ p.fees = fees ∧ p.wds = wds ∧ p.amounts ≠ [] ∧ p.secrets.length = nv ∧
    p.useNow = c.splitKeys ∧ p.keysToDisk = c.kmAddrs.isEmpty ∧ (secrets0 ≠ [] → p.secrets = secrets0) ∧ p.gas = gas ∧ p.minor = minor := by
  unfold planTail at h
  by_cases hlen : ((if secrets0.isEmpty then (List.range nv).map env.fresh else secrets0).length != nv) = true
  · simp only [hlen, if_true] at h; cases h
  · simp only [hlen, Bool.false_eq_true, if_false, Except.ok.injEq] at h
    subst h
    refine ⟨rfl, rfl, rfl, rfl, rfl, ?_, ?_, rfl, rfl, ?_, rfl, rfl⟩
    · show (if amounts0.isEmpty then defaultDepositAmounts comp else amounts0) ≠ []
      split
      · exact defaultDepositAmounts_ne _
      · rename_i he; intro h'; simp [h'] at he
    · simpa using hlen
    · intro hne
      show (if secrets0.isEmpty then (List.range nv).map env.fresh else secrets0) = secrets0
      rw [if_neg (by simpa using hne)]

theorem fillAddrs_length (numVals : Nat) (addrs : List Nat) (h : addrs.length = numVals ∨ addrs.length = 1) (hv : 1 ≤ numVals) :
    (fillAddrs numVals addrs).length = numVals := by
  unfold fillAddrs
  match addrs, h with
  | [a], _ => simp; omega
  | [], h => simp at h; omega
  | a :: b :: r, h => simp at h ⊢; omega

theorem validateDef_ok (fx : Fixes) (ins : Bool) (k : Nat) (d : Definition) (h : validateDef fx ins k d = .ok ())
    (hfx : fx.defThreshold = true) : minThreshold ≤ d.threshold ∧ d.threshold ≤ d.numOperators := by
  unfold validateDef at h
  by_cases h0 : (d.numValidators == 0) = true
  · simp [h0] at h
  by_cases h1 : d.numOperators < minNodes
  · simp [h0, h1] at h
  by_cases h2 : (fx.defThreshold && (decide (d.threshold < minThreshold) || decide (d.threshold > d.numOperators))) = true
  · simp [h0, h1, h2] at h
  simp [hfx] at h2
  omega

theorem planDef_ok (fx : Fixes) (c : Config) (d : Definition) (k : Nat) (n t nv : Nat) (fees wds amounts0 : List Nat) (gas : Nat)
    (comp : Bool) (minor : Nat) (h : planDef fx c d k = .ok (n, t, nv, fees, wds, amounts0, gas, comp, minor)) :
    (c.defFile = true → n = d.numOperators ∧ t = d.threshold ∧ nv = d.numValidators ∧ fees = d.fees ∧ wds = d.wds ∧ minor = d.minor ∧
      (fx.defThreshold = true → minThreshold ≤ t ∧ t ≤ n)) ∧
    (c.defFile = false → n = c.numNodes ∧ t = safeThreshold c.numNodes c.threshold ∧ fees.length = nv ∧ wds.length = nv ∧
      nv = (if c.splitKeys then k else c.numDVs) ∧ minor = currentMinor) := by
  unfold planDef at h
  by_cases hdf : c.defFile = true
  · simp only [hdf, if_true] at h
    cases hv : validateDef fx c.insecure c.kmAddrs.length d with
    | error e => simp [hv] at h
    | ok u =>
      simp only [hv, Except.ok.injEq, Prod.mk.injEq] at h
      obtain ⟨rfl, rfl, rfl, rfl, rfl, _, _, _, rfl⟩ := h
      exact ⟨fun _ => ⟨rfl, rfl, rfl, rfl, rfl, rfl, fun hfx => validateDef_ok fx _ _ d hv hfx⟩, fun h' => (by rw [hdf] at h'; cases h')⟩
  · have hdf' : c.defFile = false := by simpa using hdf
    simp only [hdf', Bool.false_eq_true, if_false] at h
    generalize hnd : (if c.splitKeys then k else c.numDVs) = nd at h ⊢
    cases hv : validateAddresses nd c.fees c.wds with
    | error e => simp [hv] at h
    | ok fw =>
      obtain ⟨f, w⟩ := fw
      simp only [hv] at h
      by_cases h1 : (f.length != nd || w.length != nd) = true
      · simp [h1] at h
      · by_cases h2 : (c.gas == 0) = true
        · simp [h1, h2] at h
        · simp only [h1, h2, Bool.false_eq_true, if_false, Except.ok.injEq, Prod.mk.injEq] at h
          obtain ⟨rfl, rfl, rfl, rfl, rfl, _, _, _, rfl⟩ := h
          have h1' : f.length = nd ∧ w.length = nd := by
            constructor
            · by_contra hne; exact h1 (by simp [hne])
            · by_contra hne; exact h1 (by simp [hne])
          exact ⟨fun h' => (by rw [hdf'] at h'; cases h'), fun _ => ⟨rfl, rfl, h1'.1, h1'.2, rfl, rfl⟩⟩

/-- **What `runCreateCluster` has established when it starts to split keys**: one key, one fee recipient and one
withdrawal address per validator, at least one deposit amount, at least three nodes; with flags a threshold in `2..n`
(`--threshold` absent: `ceil(2n/3)`); from a definition file the definition's threshold — UNCHECKED. -/
theorem plan_ok_inv (fx : Fixes) (c : Config) (d : Definition) (env : Env SK) (p : Plan SK) (h : plan fx c d env = .ok p) :
    p.secrets.length = p.numValidators ∧ p.wds.length = p.numValidators ∧ p.fees.length = p.numValidators ∧
    p.amounts ≠ [] ∧ minNodes ≤ p.n ∧ p.keysToDisk = c.kmAddrs.isEmpty ∧ p.useNow = c.splitKeys ∧
    (c.defFile = false → (c.thresholdFlag = false → c.threshold = 0) → 2 ≤ p.t ∧ p.t ≤ p.n) ∧
    (c.defFile = true → p.t = d.threshold ∧ p.n = d.numOperators ∧ (fx.defThreshold = true → 2 ≤ p.t ∧ p.t ≤ p.n)) := by
  unfold plan at h
  cases hpre : preRun c with
  | error e => simp [hpre] at h
  | ok u =>
    simp only [hpre] at h
    by_cases hdl : (c.defFile && (!d.loadOk || !defUnmarshalOk d || d.numValidators == 0)) = true
    · simp [hdl] at h
    simp only [hdl, Bool.false_eq_true, if_false] at h
    generalize hc' : (if c.defFile then { c with numNodes := d.numOperators, threshold := d.threshold } else c) = c' at h
    have hcf : c'.defFile = c.defFile ∧ c'.kmAddrs = c.kmAddrs ∧ c'.splitKeys = c.splitKeys ∧
        (c.defFile = false → c'.numNodes = c.numNodes ∧ c'.threshold = c.threshold) := by
      subst hc'
      by_cases hdf : c.defFile = true
      · simp [hdf]
      · simp [hdf]
    obtain ⟨hcf1, hcf2, hcf3, hcf4⟩ := hcf
    cases hval : validateCreateConfig c' env.existingLock with
    | error e => simp [hval] at h
    | ok u' =>
      simp only [hval] at h
      cases hks : planKeys fx c' d env with
      | error e => simp [hks] at h
      | ok secrets0 =>
        simp only [hks] at h
        cases hdef : planDef fx c' d secrets0.length with
        | error e => simp [hdef] at h
        | ok r =>
          simp only [hdef] at h
          obtain ⟨n, t, nv, fees, wds, amounts0, gas, comp, minor⟩ := r
          obtain ⟨e1, e2, e3, e4, e5, e6, e7, e8, e9, _, _, _⟩ := planTail_ok c' env secrets0 n t nv fees wds amounts0 gas comp minor p h
          obtain ⟨hd1, hd2⟩ := planDef_ok fx c' d _ n t nv fees wds amounts0 gas comp minor hdef
          have hn := validateCreateConfig_ok _ _ hval
          rw [hcf3] at e8
          rw [hcf2] at e9
          by_cases hdf : c.defFile = true
          · obtain ⟨rfl, rfl, rfl, rfl, rfl, _, hthr⟩ := hd1 (by rw [hcf1]; exact hdf)
            have hu : defUnmarshalOk d = true := by
              cases hx : defUnmarshalOk d with
              | true => rfl
              | false => exact absurd (by simp [hdf, hx]) hdl
            unfold defUnmarshalOk at hu
            simp only [Bool.and_eq_true, beq_iff_eq] at hu
            have hnn : c'.numNodes = d.numOperators := by subst hc'; simp [hdf]
            refine ⟨by rw [e7, e3], by rw [e5, e3]; exact hu.1.1, by rw [e4, e3]; exact hu.1.2, e6, by rw [e1, ← hnn]; exact hn, e9, e8,
              fun h' => (by rw [hdf] at h'; cases h'), fun _ => ⟨e2, e1, fun hfx => by
                have := hthr hfx; unfold minThreshold at this; rw [e2, e1]; exact this⟩⟩
          · have hdf' : c.defFile = false := by simpa using hdf
            obtain ⟨rfl, rfl, hf, hw, _, _⟩ := hd2 (by rw [hcf1]; exact hdf')
            obtain ⟨hnn, htt⟩ := hcf4 hdf'
            refine ⟨by rw [e7, e3], by rw [e5, e3]; exact hw, by rw [e4, e3]; exact hf, e6, by rw [e1]; exact hn, e9, e8, ?_,
              fun h' => (by rw [hdf'] at h'; cases h')⟩
            intro _ hcli
            rw [e2, e1, htt]
            unfold safeThreshold
            by_cases ht0 : c.threshold = 0
            · simp only [ht0, beq_self_eq_true, if_true]
              exact clusterThreshold_range _ hn
            · have hflag : c.thresholdFlag = true := by
                cases hf' : c.thresholdFlag with
                | true => rfl
                | false => exact absurd (hcli hf') ht0
              have : (c.threshold == 0) = false := by simpa using ht0
              simp only [this, Bool.false_eq_true, if_false]
              unfold preRun at hpre
              simp only [hflag, if_true] at hpre
              by_cases h1 : c.threshold < minThreshold
              · simp [h1] at hpre
              · by_cases h2 : c.threshold > c.numNodes
                · simp [h1, h2] at hpre
                · unfold minThreshold at h1
                  rw [hnn]
                  omega

end PlanLemmas

section PlanLemmas2
variable {SK : Type} [DecidableEq SK]

/-- `--split-existing-keys`: the validator secrets ARE the keys read from the split-keys directory, in the order the
loader returned them (with a definition file and an empty directory fresh keys are generated instead). -/
theorem plan_split_secrets (fx : Fixes) (c : Config) (d : Definition) (env : Env SK) (p : Plan SK) (h : plan fx c d env = .ok p)
    (hs : c.splitKeys = true) :
    ∃ useSeq ks, env.loadKeys useSeq = some ks ∧ (ks ≠ [] → p.secrets = ks) ∧ (fx.uniqueKeys = true → ks.Nodup) := by
  unfold plan at h
  cases hpre : preRun c with
  | error e => simp [hpre] at h
  | ok u =>
    simp only [hpre] at h
    by_cases hdl : (c.defFile && (!d.loadOk || !defUnmarshalOk d || d.numValidators == 0)) = true
    · simp [hdl] at h
    simp only [hdl, Bool.false_eq_true, if_false] at h
    generalize hc' : (if c.defFile then { c with numNodes := d.numOperators, threshold := d.threshold } else c) = c' at h
    have hcf : c'.splitKeys = c.splitKeys := by
      subst hc'
      by_cases hdf : c.defFile = true <;> simp [hdf]
    cases hval : validateCreateConfig c' env.existingLock with
    | error e => simp [hval] at h
    | ok u' =>
      simp only [hval] at h
      cases hks : planKeys fx c' d env with
      | error e => simp [hks] at h
      | ok secrets0 =>
        simp only [hks] at h
        cases hdef : planDef fx c' d secrets0.length with
        | error e => simp [hdef] at h
        | ok r =>
          simp only [hdef] at h
          obtain ⟨n, t, nv, fees, wds, amounts0, gas, comp, minor⟩ := r
          obtain ⟨_, _, _, _, _, _, _, _, _, e10, _, _⟩ := planTail_ok c' env secrets0 n t nv fees wds amounts0 gas comp minor p h
          unfold planKeys at hks
          simp only [hcf, hs, if_true] at hks
          by_cases hsd : (!c'.splitDirSet) = true
          · simp [hsd] at hks
          · simp only [hsd, Bool.false_eq_true, if_false] at hks
            generalize (if c'.defFile then hasDistinctAddrs d.wds || hasDistinctAddrs d.fees
                else decide (c'.wds.length > 1) || decide (c'.fees.length > 1)) = useSeq at hks
            cases hl : env.loadKeys useSeq with
            | none => simp [hl] at hks
            | some ks =>
              simp only [hl] at hks
              by_cases hdup : (fx.uniqueKeys && !decide ks.Nodup) = true
              · simp [hdup] at hks
              · simp only [hdup, Bool.false_eq_true, if_false, Except.ok.injEq] at hks
                subst hks
                refine ⟨useSeq, ks, hl, e10, fun hfx => ?_⟩
                by_contra hnd
                exact hdup (by simp [hfx, hnd])

/-- the validator secrets are pairwise different: the keys of a split-keys directory by `checkUniqueKeys`, fresh
keys if `tbls.GenerateSecretKey` never repeats (`hfresh`). -/
theorem plan_secrets_nodup (fx : Fixes) (hfx : fx.uniqueKeys = true) (c : Config) (d : Definition) (env : Env SK) (p : Plan SK)
    (h : plan fx c d env = .ok p) (hfresh : ∀ nv, ((List.range nv).map env.fresh).Nodup) : p.secrets.Nodup := by
  unfold plan at h
  cases hpre : preRun c with
  | error e => simp [hpre] at h
  | ok u =>
    simp only [hpre] at h
    by_cases hdl : (c.defFile && (!d.loadOk || !defUnmarshalOk d || d.numValidators == 0)) = true
    · simp [hdl] at h
    simp only [hdl, Bool.false_eq_true, if_false] at h
    generalize (if c.defFile then { c with numNodes := d.numOperators, threshold := d.threshold } else c) = c' at h
    cases hval : validateCreateConfig c' env.existingLock with
    | error e => simp [hval] at h
    | ok u' =>
      simp only [hval] at h
      cases hks : planKeys fx c' d env with
      | error e => simp [hks] at h
      | ok secrets0 =>
        simp only [hks] at h
        cases hdef : planDef fx c' d secrets0.length with
        | error e => simp [hdef] at h
        | ok r =>
          simp only [hdef] at h
          obtain ⟨n, t, nv, fees, wds, amounts0, gas, comp, minor⟩ := r
          have h0 : secrets0.Nodup := by
            unfold planKeys at hks
            by_cases hsk : c'.splitKeys = true
            · simp only [hsk, if_true] at hks
              by_cases hsd : (!c'.splitDirSet) = true
              · simp [hsd] at hks
              · simp only [hsd, Bool.false_eq_true, if_false] at hks
                generalize (if c'.defFile then hasDistinctAddrs d.wds || hasDistinctAddrs d.fees
                    else decide (c'.wds.length > 1) || decide (c'.fees.length > 1)) = useSeq at hks
                cases hl : env.loadKeys useSeq with
                | none => simp [hl] at hks
                | some ks =>
                  simp only [hl] at hks
                  by_cases hdup : (fx.uniqueKeys && !decide ks.Nodup) = true
                  · simp [hdup] at hks
                  · simp only [hdup, Bool.false_eq_true, if_false, Except.ok.injEq] at hks
                    subst hks
                    by_contra hnd
                    exact hdup (by simp [hfx, hnd])
            · simp only [hsk, Bool.false_eq_true, if_false, Except.ok.injEq] at hks
              subst hks
              exact List.nodup_nil
          unfold planTail at h
          by_cases hlen : ((if secrets0.isEmpty then (List.range nv).map env.fresh else secrets0).length != nv) = true
          · simp only [hlen, if_true] at h; cases h
          · simp only [hlen, Bool.false_eq_true, if_false, Except.ok.injEq] at h
            subst h
            show (if secrets0.isEmpty then (List.range nv).map env.fresh else secrets0).Nodup
            split
            · exact hfresh nv
            · exact h0
end PlanLemmas2

/-! ### the single-interpolation variant of `verifySharesReconstruct` -/

/-- public shares (in ℚ, generator 1) of the sharing `3 + 2X` at 1..4 with shares 3 and 4 shifted by 1 and 4. -/
def yEx (j : ℕ) : ℚ := if j = 1 then 5 else if j = 2 then 7 else if j = 3 then 10 else 15

theorem lam_1234 : (lam ({1, 2, 3, 4} : Finset ℕ) 1 : ℚ) = 4 ∧ (lam ({1, 2, 3, 4} : Finset ℕ) 2 : ℚ) = -6 ∧
    (lam ({1, 2, 3, 4} : Finset ℕ) 3 : ℚ) = 4 ∧ (lam ({1, 2, 3, 4} : Finset ℕ) 4 : ℚ) = -1 := by
  refine ⟨?_, ?_, ?_, ?_⟩
  · rw [lam_eq_prod, show ({1, 2, 3, 4} : Finset ℕ).erase 1 = {2, 3, 4} by decide]; norm_num [Finset.prod_insert]
  · rw [lam_eq_prod, show ({1, 2, 3, 4} : Finset ℕ).erase 2 = {1, 3, 4} by decide]; norm_num [Finset.prod_insert]
  · rw [lam_eq_prod, show ({1, 2, 3, 4} : Finset ℕ).erase 3 = {1, 2, 4} by decide]; norm_num [Finset.prod_insert]
  · rw [lam_eq_prod, show ({1, 2, 3, 4} : Finset ℕ).erase 4 = {1, 2, 3} by decide]; norm_num [Finset.prod_insert]

theorem single_interpolation_accepts_inconsistent_shares :
    recoverG ℚ ({1, 2, 3, 4} : Finset ℕ) yEx = 3 ∧ recoverG ℚ ({1, 2} : Finset ℕ) yEx = 3 ∧
    recoverG ℚ ({1, 3} : Finset ℕ) yEx ≠ 3 := by
  refine ⟨?_, ?_, ?_⟩
  · unfold recoverG
    rw [Finset.sum_insert (by decide), Finset.sum_insert (by decide), Finset.sum_insert (by decide), Finset.sum_singleton,
      lam_1234.1, lam_1234.2.1, lam_1234.2.2.1, lam_1234.2.2.2]
    norm_num [yEx]
  · unfold recoverG
    rw [Finset.sum_insert (by decide), Finset.sum_singleton, lam_eq_prod, lam_eq_prod,
      show ({1, 2} : Finset ℕ).erase 1 = {2} by decide, show ({1, 2} : Finset ℕ).erase 2 = {1} by decide]
    norm_num [yEx]
  · unfold recoverG
    rw [Finset.sum_insert (by decide), Finset.sum_singleton, lam_eq_prod, lam_eq_prod,
      show ({1, 3} : Finset ℕ).erase 1 = {3} by decide, show ({1, 3} : Finset ℕ).erase 3 = {1} by decide]
    norm_num [yEx]

/-! ### a computable toy cryptography for the examples -/

section Toy

/-- secrets are lists of numbers; the share of index `i` of `s` is `i :: s`; recovery drops the index of the
first share; a signature records signer and message. Only for `decide`-checked examples. -/
def toyCrypto : Crypto (List Nat) (List Nat) (List (List Nat) × Nat) Nat Unit where
  pub s := s
  sign s m := ([s], m)
  verify pk m σ := σ == ([pk], m)
  split s _ n t := if t ≤ 1 then none else some ((List.range n).map fun i => (i + 1, (i + 1) :: s))
  recover l := match l with
    | (_, sh) :: _ => some sh.tail
    | [] => none
  recoverPub l := match l with
    | (_, sh) :: _ => some sh.tail
    | [] => none
  aggregate sigs := (sigs.flatMap (·.1), (sigs.head?.map (·.2)).getD 0)
  verifyAgg pks σ m := σ.1 == pks && (pks.isEmpty || σ.2 == m)
  depositRoot d := 1000 * d.wd + d.amount
  regRoot r := 500000 + r.fee
  lockHash minor uuid n t nv _ vals := minor + 10 * uuid + 100 * n + 1000 * t + 10000 * nv + 100000 * vals.length

theorem toy_get? (s : List Nat) (n i : Nat) (h1 : 1 ≤ i) (hn : i ≤ n) :
    get? ((List.range n).map fun j => (j + 1, (j + 1) :: s)) i = some (i :: s) := by
  apply get?_of_mem_nodup
  · simp only [List.map_map, Function.comp_def]
    exact List.nodup_range.map (fun a b h => by simpa using h)
  · simp only [List.mem_map, List.mem_range]
    exact ⟨i - 1, by omega, by rw [Nat.sub_add_cancel h1]⟩

theorem toy_laws (n t : Nat) : Laws toyCrypto n t (fun _ => True) where
  split_spec s ρ _ ht := by
    refine ⟨(List.range n).map fun i => (i + 1, (i + 1) :: s), ?_, by simp, ?_⟩
    · show (if t ≤ 1 then none else some _) = _
      rw [if_neg (by omega)]
    · intro ids _ hrange hlen
      cases ids with
      | nil => simp at hlen; omega
      | cons i rest =>
        have hi := hrange i List.mem_cons_self
        have : shareAt ((List.range n).map fun j => (j + 1, (j + 1) :: s)) i = i :: s := by
          unfold shareAt
          rw [toy_get? s n i hi.1 hi.2]; rfl
        simp [toyCrypto, this]
  split_low s ρ ht := by
    show (if t ≤ 1 then none else some _) = none
    rw [if_pos ht]
  verify_sign sk m := by simp [toyCrypto]
  verify_agg sks m := by
    cases sks with
    | nil => simp [toyCrypto]
    | cons s r =>
      simp only [toyCrypto, List.map_cons, List.head?_cons, Option.map_some, Option.getD_some, List.flatMap_cons,
        List.isEmpty_cons, Bool.false_or, beq_self_eq_true, Bool.and_true, List.map_id']
      have : ∀ (l : List (List Nat)), (l.map fun sk => (([sk], m) : List (List Nat) × Nat)).flatMap (·.1) = l := by
        intro l; induction l with
        | nil => rfl
        | cons a b ih => simp [List.flatMap_cons, ih]
      simp [this]

end Toy

end CharonV.CreateGlue
