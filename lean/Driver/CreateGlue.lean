/-
Line driver for the `create` stream of C12 (`drive-create`): the model `Model/CreateGlue.lean` over
*symbolic* cryptography, plus the scalar model `Model/Fr.lean` for the key shares.

Symbolic values: `val c id` the `id`-th validator secret of cluster `c` (0 = the episode's cluster,
1 = the alt cluster); `share c j pos` the share of index `j` made by the `pos`-th split of cluster `c`;
`rnd i` a secret of nobody; public keys `group` / `pshare` / `frn` accordingly. A signature is "made by
secret s over m" or a plain aggregate of such; `verify` accepts exactly the signature the key produces
(BLS signatures are unique); recovery from at least threshold correctly indexed shares of one split
gives the split secret, anything else junk (C08). The lock hash is a digest of the rendered content.

ops (see `harness/cmd/drive-create/main.go`):
  create k=v ...   -> ok | err <class>         art <i>          -> canonical artifacts of node i
  val <k> imp=<hex|-> <j:sk,..> -> x=.. pk=1 imp=b   rec <k> <ids> -> x=.. same=b
  gv pk=.. sets=.. dd=.. regs=.. -> ok <validators> | err <class>
  alt <n> <t> <v>  -> ok                        comb nv= f= out= dirs=  -> ok <secrets> | err <class>
  disk             -> what exists per node      pcomb            -> ok | err <class>
  forge k= kind= i= j= -> accept | reject      (a re-hashed, re-signed lock with shifted public shares)
-/
import CharonV.Model.Fr
import CharonV.Model.CreateGlue
import Driver.Common

open CharonV.Fr CharonV.CreateGlue

namespace Driver.CreateGlue

/-! ### symbolic cryptography -/

inductive SSK where
  | zero
  | val (c id : Nat)
  | share (c j pos : Nat)
  | rnd (i : Nat)
  | junk
  deriving DecidableEq, Repr

instance : Inhabited SSK := ⟨.zero⟩

inductive SPK where
  | pzero
  | group (c id : Nat)
  | pshare (c j pos : Nat)
  | frn (i : Nat)
  | pjunk
  deriving DecidableEq, Repr

inductive SMsg where
  | lockh (d : Nat)
  | dep (pk : SPK) (wd amount : Nat)
  | reg (pk : SPK) (fee gas ts : Nat)
  deriving DecidableEq, Repr

inductive SSig where
  | by (sk : SSK) (m : SMsg)
  | multi (sks : List SSK) (m : SMsg)
  | junk
  deriving DecidableEq, Repr

def spub : SSK → SPK
  | .zero => .pzero
  | .val c id => .group c id
  | .share c j pos => .pshare c j pos
  | .rnd i => .frn i
  | .junk => .pjunk

/-- per cluster: threshold and the secret split at each position. -/
structure CluTbl where
  t       : Nat
  secrets : List SSK

def tblOf (tbls : List CluTbl) (c : Nat) : CluTbl := (tbls[c]?).getD ⟨0, []⟩

/-- all entries are `(j, share c j pos)` of one split with pairwise different `j`. -/
def sameSplit (l : List (Nat × SSK)) : Option (Nat × Nat) :=
  match l with
  | (_, .share c _ pos) :: _ =>
    if l.all (fun e => e.2 == .share c e.1 pos) && decide (l.map (·.1)).Nodup then some (c, pos) else none
  | _ => none

def sameSplitPub (l : List (Nat × SPK)) : Option (Nat × Nat) :=
  match l with
  | (_, .pshare c _ pos) :: _ =>
    if l.all (fun e => e.2 == .pshare c e.1 pos) && decide (l.map (·.1)).Nodup then some (c, pos) else none
  | _ => none

def symCrypto (tbls : List CluTbl) (cur : Nat) : Crypto SPK SSK SSig SMsg Nat where
  pub := spub
  sign sk m := .by sk m
  verify pk m σ :=
    match σ with
    | .by sk m' => spub sk == pk && m' == m
    | _ => false
  split _ pos n t :=
    if t ≤ 1 then none else some ((List.range n).map fun i => (i + 1, SSK.share cur (i + 1) pos))
  recover l :=
    if l.isEmpty then none
    else match sameSplit l with
      | some (c, pos) =>
        if (tblOf tbls c).t ≤ l.length then some (((tblOf tbls c).secrets[pos]?).getD .junk) else some .junk
      | none => some .junk
  recoverPub l :=
    if l.isEmpty then none
    else match sameSplitPub l with
      | some (c, pos) =>
        if (tblOf tbls c).t ≤ l.length then some (spub (((tblOf tbls c).secrets[pos]?).getD .junk)) else some .pjunk
      | none => some .pjunk
  aggregate sigs :=
    match sigs with
    | .by _ m :: _ =>
      match sigs.mapM (fun σ => match σ with | .by sk m' => if m' = m then some sk else none | _ => none) with
      | some sks => .multi sks m
      | none => .junk
    | _ => .junk
  verifyAgg pks σ m :=
    match σ with
    | .multi sks m' => m' == m && (sks.map spub).isPerm pks
    | _ => false
  depositRoot d := .dep d.pubKey d.wd d.amount
  regRoot r := .reg r.pubKey r.fee r.gas r.ts
  lockHash minor uuid n t nv fees vals := .lockh (hash (toString (repr (minor, uuid, n, t, nv, fees, vals)))).toNat

/-! ### state -/

abbrev W := Write SPK SSK SSig SMsg
abbrev L := Lock SPK SSig SMsg
abbrev DV := DistValidator SPK SSig

structure Clu where
  c         : Nat
  n         : Nat
  plan      : Plan SSK
  shareSets : List (List SSK)
  lock      : L
  trace     : List W

structure ValSt where
  k      : Nat
  shares : List (Nat × Nat)
  x      : Nat

structure St where
  own    : Option Clu := none
  alt    : Option Clu := none
  failed : Option (Nat × List W) := none       -- n and the trace of a failed create
  failedTbl : CluTbl := ⟨0, []⟩
  vals   : List ValSt := []

def b01 (b : Bool) : String := if b then "1" else "0"
def join (sep : String) (xs : List String) : String := sep.intercalate xs
def dash (s : String) : String := if s.isEmpty then "-" else s

def insertStr (x : String) : List String → List String
  | [] => [x]
  | y :: ys => if x ≤ y then x :: y :: ys else y :: insertStr x ys

def sortStr (xs : List String) : List String := xs.foldr insertStr []

def parseNats (sep : String) (s : String) : Option (List Nat) :=
  if s == "-" || s.isEmpty then some [] else (s.splitOn sep).mapM String.toNat?

/-- `k=v` fields of an op line. -/
def fieldsOf (ws : List String) : List (String × String) :=
  ws.filterMap fun w => match w.splitOn "=" with
    | k :: rest => if rest.isEmpty then none else some (k, "=".intercalate rest)
    | _ => none

def fget (fs : List (String × String)) (k : String) : String := (get? fs k).getD ""
def fnat (fs : List (String × String)) (k : String) : Nat := (fget fs k).toNat?.getD 0
def fbool (fs : List (String × String)) (k : String) : Bool := fget fs k == "1"

def tbls (s : St) : List CluTbl :=
  let one (o : Option Clu) : CluTbl := match o with
    | some c => ⟨c.plan.t, c.plan.secrets⟩
    | none => ⟨0, []⟩
  [if s.own.isSome then one s.own else s.failedTbl, one s.alt]

/-! ### names -/

def tag (c : Nat) : String := if c == 0 then "" else "a"

/-- position of the first secret of the cluster with that id (`pkID` of the harness looks the key up by position). -/
def firstPos (secrets : List SSK) (c id : Nat) : String :=
  match secrets.findIdx? (· == .val c id) with
  | some p => toString p
  | none => "?"

def secretsOf (s : St) (c : Nat) : List SSK := (tblOf (tbls s) c).secrets

def pkName (s : St) : SPK → String
  | .group c id => match firstPos (secretsOf s c) c id with
    | "?" => "?"
    | p => s!"{tag c}g{p}"
  | _ => "?"

def psName : SPK → String
  | .pshare c j pos => s!"{tag c}s{j}.{pos}"
  | _ => "?"

def skName (s : St) : SSK → String
  | .val c id => match firstPos (secretsOf s c) c id with
    | "?" => "?"
    | p => s!"{tag c}v{p}"
  | _ => "?"

def tsName (ts : Nat) : String := if ts == 0 then "gen" else "now"

def ddStr (C : Crypto SPK SSK SSig SMsg Nat) (dd : DepositData SPK SSig) : String :=
  s!"{dd.amount}/w{dd.wd}/{if C.verify dd.pubKey (C.depositRoot ⟨dd.pubKey, dd.wd, dd.amount⟩) dd.sig then "G" else "B"}"

def dvStr (s : St) (C : Crypto SPK SSK SSig SMsg Nat) (v : DV) : String :=
  let ps := v.pubShares.map psName
  let dd := v.deposits.map fun d => ddStr C d ++ (if d.pubKey = v.pubKey then "" else "/otherkey")
  let reg := match v.reg with
    | none => "-"
    | some r =>
      s!"f{r.fee}/{r.gas}/{tsName r.ts}/{if C.verify v.pubKey (C.regRoot ⟨r.pubKey, r.fee, r.gas, r.ts⟩) r.sig then "G" else "B"}" ++
        (if r.pubKey = v.pubKey then "" else "/otherkey")
  s!"{pkName s v.pubKey} ps={dash (join "," ps)} dd={dash (join "," dd)} reg={reg}"

def dvsStr (s : St) (C : Crypto SPK SSK SSig SMsg Nat) (vs : List DV) : String :=
  dash (join " | " (vs.map (dvStr s C)))

/-! ### create -/

structure CreateSpec where
  cfg   : Config
  defn  : Definition
  env   : Env SSK
  n     : Nat
  io    : Step → Bool

def errName : Err → String
  | .thresholdLow => "thresholdLow" | .thresholdHigh => "thresholdHigh" | .defLoad => "defLoad"
  | .missingNodes => "missingNodes" | .network => "network" | .existingNodeDir => "existingNodeDir"
  | .kmTokens => "kmTokens" | .amountSmall => "amountSmall" | .amountLarge => "amountLarge" | .amountSum => "amountSum"
  | .kmAddr => "kmAddr" | .numValsWithSplit => "numValsWithSplit" | .missingNumVals => "missingNumVals"
  | .tooFewNodes => "tooFewNodes" | .protocol => "protocol" | .splitDir => "splitDir" | .keysLoad => "keysLoad" | .dupKey => "dupKey"
  | .defNoValidators => "defNoValidators" | .defThreshold => "defThreshold" | .kmCount => "kmCount" | .insecureMainnet => "insecureMainnet"
  | .noName => "noName" | .defVerify => "defVerify" | .wdAddr => "wdAddr" | .feeCount => "feeCount" | .wdCount => "wdCount"
  | .defAddrCount => "defAddrCount" | .gasUnset => "gasUnset" | .keyCount => "keyCount" | .split => "split"
  | .io (.p2p _) => "io:p2p" | .io (.keys _) => "io:keys" | .io (.kmPing _) => "io:kmping" | .io (.kmImport _) => "io:kmimp"
  | .io (.dep _ _) => "io:dep" | .io (.lock _) => "io:lock"
  | .wdLen => "wdLen" | .noAmounts => "noAmounts" | .feeLen => "feeLen" | .noreg => "noreg" | .nodd => "nodd" | .panic => "panic"

/-- addresses of a definition made by the harness: entry `i` is address `i` (pairwise different) or address 0. -/
def defAddrs (v addrs : Nat) (distinct : Bool) : List Nat :=
  (List.range addrs).map fun i => if i < v && distinct then i else 0

def parseFail (s : String) : Step → Bool :=
  match s.splitOn ":" with
  | ["p2p", i] => fun st => st != .p2p (i.toNat?.getD 0)
  | ["keys", i] => fun st => st != .keys (i.toNat?.getD 0)
  | ["dep", a, i] => fun st => st != .dep (a.toNat?.getD 0) (i.toNat?.getD 0)
  | ["lock", i] => fun st => st != .lock (i.toNat?.getD 0)
  | _ => fun _ => true

def kmIO (kmr : String) (base : Step → Bool) : Step → Bool := fun st =>
  match st with
  | .kmPing i => (kmr.toList[i]?).getD 'a' != 'd'
  | .kmImport i => (kmr.toList[i]?).getD 'a' == 'a'
  | _ => base st

def parseCreate (c : Nat) (fs : List (String × String)) : CreateSpec :=
  let isDef := fget fs "m" == "def"
  let n := fnat fs "n"
  let v := fnat fs "v"
  let nk := fnat fs "nk"
  let gap := fbool fs "gap"
  let dupk := fbool fs "dupk"
  let minor := fnat fs "ver"
  let net := fget fs "net"
  let order := match parseNats "," (fget fs "order") with
    | some (o :: os) => o :: os
    | _ => List.range nk
  let keyId (i : Nat) : Nat := if dupk && i == 1 then 0 else i
  let keys : List SSK := order.map fun i => SSK.val c (keyId i)
  let ex := (fget fs "ex").toNat?
  let kma := fnat fs "kma"
  let cfg : Config :=
    { defFile := isDef
      numNodes := if isDef then 0 else n
      threshold := if fbool fs "tf" then fnat fs "t" else 0
      thresholdFlag := fbool fs "tf"
      fees := if isDef then [] else List.range (fnat fs "fa")
      wds := if isDef then [] else List.range (fnat fs "wa")
      networkOk := isDef || net != "bogus"
      numDVs := if isDef then 0 else v
      amountsEth := if isDef then [] else (parseNats "+" (fget fs "am")).getD []
      splitKeys := fbool fs "split"
      splitDirSet := fbool fs "sdir"
      insecure := fbool fs "ins"
      kmAddrs := (List.range kma).map fun i => !(i == 0 && fbool fs "kmbad")
      kmTokens := fnat fs "kmt"
      protocolOk := isDef || fbool fs "proto"
      gas := fnat fs "gas"
      compounding := !isDef && fbool fs "comp" }
  let addrs := fnat fs "addrs"
  let distinct := fbool fs "distinct"
  let defn : Definition :=
    { loadOk := fbool fs "defok"
      nameSet := fbool fs "name"
      numValidators := v
      threshold := fnat fs "t"
      numOperators := n
      fees := defAddrs v addrs distinct
      wds := defAddrs v addrs distinct
      amounts := ethsToGweis ((parseNats "+" (fget fs "am")).getD [])
      gas := fnat fs "gas"
      compounding := fbool fs "comp"
      minor := minor
      networkKnown := true
      mainOrGnosis := net == "mainnet" || net == "gnosis"
      protocolOk := fbool fs "proto"
      wdAddrsOk := true }
  let env : Env SSK :=
    { existingLock := fun i => ex == some i
      loadKeys := fun useSeq =>
        if useSeq then (if nk == 0 || gap then none else some keys) else some keys
      fresh := fun k => SSK.val c k }
  let base := parseFail (fget fs "fail")
  let kmr := fget fs "kmr"
  { cfg, defn, env, n := if isDef then n else n, io := if kmr == "-" || kmr.isEmpty then base else kmIO kmr base }

def runSpec (s : St) (c : Nat) (sp : CreateSpec) : Except Err (Plan SSK) × List W × Except Err L :=
  match plan {} sp.cfg sp.defn sp.env with
  | .error e => (.error e, [], .error e)
  | .ok p =>
    -- the crypto needs this cluster's table for `verifyLock` later; `runCreate` itself only splits and signs
    let tb := (tbls s).set c ⟨p.t, p.secrets⟩
    let r := runCreate (symCrypto tb c) p (fun k => k) (1000 * c) (fun _ => if p.useNow then 1 else 0) sp.io
    (.ok p, r.1, r.2)

def mkClu (c : Nat) (p : Plan SSK) (trace : List W) (lock : L) : Clu :=
  let sets := (List.range p.secrets.length).map fun pos => (List.range p.n).map fun i => SSK.share c (i + 1) pos
  { c, n := p.n, plan := p, shareSets := sets, lock, trace }

def opCreate (_s : St) (fs : List (String × String)) : St × String :=
  let s0 : St := {}
  let sp := parseCreate 0 fs
  match runSpec s0 0 sp with
  | (.error e, _, _) => ({ s0 with failed := some (sp.n, []) }, s!"err {errName e}")
  | (.ok p, trace, .error e) => ({ s0 with failed := some (p.n, trace), failedTbl := ⟨p.t, p.secrets⟩ }, s!"err {errName e}")
  | (.ok p, trace, .ok lock) => ({ s0 with own := some (mkClu 0 p trace lock) }, "ok")

def opAlt (s : St) (n t v : Nat) : St × String :=
  let cfg : Config := { numNodes := n, threshold := t, thresholdFlag := true, fees := [0], wds := [0], numDVs := v, insecure := true }
  let sp : CreateSpec := { cfg, defn := {}, env := { existingLock := fun _ => false, loadKeys := fun _ => none, fresh := fun k => SSK.val 1 k },
                           n, io := fun _ => true }
  match runSpec s 1 sp with
  | (.ok p, trace, .ok lock) => ({ s with alt := some (mkClu 1 p trace lock) }, "ok")
  | _ => (s, "err")

/-! ### artifacts -/

def cryptoOf (s : St) (c : Nat) : Crypto SPK SSK SSig SMsg Nat := symCrypto (tbls s) c

def artStr (s : St) (cl : Clu) (i : Nat) : String :=
  let C := cryptoOf s cl.c
  let lockStr := match traceLock cl.trace i with
    | none => "nolock"
    | some l =>
      s!"lock m={l.minor} n={l.numOperators} t={l.threshold} nv={l.numValidators} ver={b01 (verifyLock C l)} ns={l.nodeSigs.length} | {dvsStr s C l.validators}"
  let keys := cl.trace.findSome? fun w => match w with
    | .keys j ks => if j == i then some ks else none
    | .kmImport j ks => if j == i then some ks else none
    | _ => none
  let ks := (keys.getD []).map fun sk => psName (spub sk)
  let deps := cl.trace.filterMap fun w => match w with
    | .dep a j entries => if j == i then some (a, entries) else none
    | _ => none
  let files := deps.map fun (a, entries) =>
    let ents := entries.map fun dd =>
      s!"{pkName s dd.pubKey}/w{dd.wd}/{if C.verify dd.pubKey (C.depositRoot ⟨dd.pubKey, dd.wd, dd.amount⟩) dd.sig then "G" else "B"}"
    s!"{a}:{join "," (sortStr ents)}"
  s!"{lockStr} || ks={dash (join "," ks)} || dep={dash (join ";" files)}"

def opDisk (n : Nat) (trace : List W) : String :=
  let nodes := List.range n
  let p2p := nodes.map fun i => b01 (trace.any fun w => match w with | .p2p j => j == i | _ => false)
  let ks := nodes.map fun i => toString ((traceKeys trace i).getD []).length
  let dep := nodes.map fun i =>
    let amts := trace.filterMap fun w => match w with
      | .dep a j _ => if j == i then some a else none
      | _ => none
    if amts.isEmpty then "-" else join "+" ((sortNat amts).map toString)
  let lock := nodes.map fun i => b01 (traceLock trace i).isSome
  s!"p2p={join "" p2p} ks={join "," ks} dep={join "," dep} lock={join "" lock}"

def cerrName : CErr → String
  | .manifestLoad => "manifestLoad" | .lockMismatch => "lockMismatch" | .noManifest => "noManifest"
  | .loadKeys => "loadKeys" | .sequence => "sequence" | .insufficient => "insufficient" | .panic => "panic"
  | .notFound => "notFound" | .recover => "recover" | .keyMismatch => "keyMismatch" | .exists => "exists"

def combRes (s : St) (r : Except CErr (List SSK)) : String :=
  match r with
  | .error e => s!"err {cerrName e}"
  | .ok secrets => s!"ok {dash (join "," (secrets.map (skName s)))}"

/-! ### scalars -/

def parseSks (s : String) : Option (List (Nat × Nat)) :=
  (s.splitOn ",").mapM fun it =>
    match it.splitOn ":" with
    | [a, h] => match a.toNat?, ofHex? h with
      | some j, some v => if h.length == 64 then some (j, v) else none
      | _, _ => none
    | _ => none

def opVal (s : St) (cl : Clu) (ws : List String) : St × String :=
  match ws with
  | [ks, imp, sks] =>
    match ks.toNat?, parseSks sks with
    | some k, some shares =>
      let n := cl.n
      let t := cl.plan.t
      let impV : Option Nat := if imp == "imp=-" then none else ofHex? ((imp.drop 4).toString)
      if shares.map (·.1) != (List.range n).map (· + 1) then (s, "bad_share_ids")
      else if shares.any (·.2 ≥ r) then (s, "share_not_reduced")
      else if t ≤ n then
        if !degreeLt t shares then (s, "not_shamir")
        else
          let x := lagrangeAt0 (shares.take t)
          let impS := match impV with | none => "-" | some v => b01 (v == x)
          ({ s with vals := ⟨k, shares, x⟩ :: s.vals.filter (·.k != k) }, s!"x={toHex32 x} pk=1 imp={impS}")
      else
        let x := impV.getD 0
        let impS := match impV with | none => "-" | some _ => "1"
        ({ s with vals := ⟨k, shares, x⟩ :: s.vals.filter (·.k != k) }, s!"x={toHex32 x} pk=1 imp={impS}")
    | _, _ => (s, "bad-op")
  | _ => (s, "bad-op")

def opRec (s : St) (cl : Clu) (ws : List String) : String :=
  match ws with
  | [ks, idsS] =>
    match ks.toNat?, parseNats "," idsS with
    | some k, some ids =>
      match s.vals.find? (·.k == k) with
      | none => "bad-op"
      | some v =>
        if ids.isEmpty || ids.any (fun j => j < 1 || j > cl.n) then "bad-op"
        else
          -- a Go map: a repeated identifier is one entry
          let ids := ids.eraseDups
          let pts := ids.filterMap fun j => (get? v.shares j).map fun y => (j, y)
          let x := lagrangeAt0 pts
          s!"x={toHex32 x} same={b01 (x == v.x)}"
    | _, _ => "bad-op"
  | _ => "bad-op"

/-! ### getValidators -/

def wdOf (p : Plan SSK) (k : Nat) : Nat := (p.wds[k]?).getD 0
def feeOf (p : Plan SSK) (k : Nat) : Nat := (p.fees[k]?).getD 0

def opGV (s : St) (cl : Clu) (fs : List (String × String)) : String :=
  let C := cryptoOf s cl.c
  let p := cl.plan
  let nv := p.secrets.length
  if p.t > p.n then "bad-op" else
  let secOf (w : String) : Option (SSK × Nat) :=
    if w == "x" then some (.rnd 99, 0)
    else match w.toNat? with
      | some k => if k < nv then (p.secrets[k]?).map (·, k) else none
      | none => none
  -- the harness builds every deposit and registration with the address of the validator's position in ITS lists
  let hwd (k : Nat) : Nat := wdOf p k
  let hfee (k : Nat) : Nat := feeOf p k
  let pkS := fget fs "pk"
  let pks : Option (List SPK) := if pkS == "-" then some [] else (pkS.splitOn ",").mapM fun w => (secOf w).map fun e => spub e.1
  let sets := cl.shareSets.take (min (fnat fs "sets") nv)
  let ddS := fget fs "dd"
  let dds : Option (List (List (DepositData SPK SSig))) :=
    if ddS == "-" then some [] else (ddS.splitOn ";").mapM fun g =>
      match g.splitOn ":" with
      | [a, ks] => match a.toNat? with
        | none => none
        | some amt =>
          if ks.isEmpty then some []
          else (ks.splitOn ".").mapM fun w => (secOf w).map fun e =>
            let msg : DepositMsg SPK := ⟨spub e.1, hwd e.2, amt⟩
            (⟨msg.pubKey, msg.wd, msg.amount, C.sign e.1 (C.depositRoot msg)⟩ : DepositData SPK SSig)
      | _ => none
  let regS := fget fs "regs"
  let regs : Option (List (Registration SPK SSig)) :=
    if regS == "-" then some [] else (regS.splitOn ",").mapM fun w => (secOf w).map fun e =>
      let msg : RegMsg SPK := ⟨spub e.1, hfee e.2, defaultGasLimit, 0⟩
      (⟨msg.pubKey, msg.fee, msg.gas, msg.ts, C.sign e.1 (C.regRoot msg)⟩ : Registration SPK SSig)
  match pks, dds, regs with
  | some pks, some dds, some regs =>
    match getValidators C pks sets dds regs with
    | .error e => s!"err {errName e}"
    | .ok vals => s!"ok {dvsStr s C vals}"
  | _, _, _ => "bad-op"

/-! ### combine -/

def swap01 : List SPK → List SPK
  | a :: b :: r => b :: a :: r
  | l => l

def lockOfKind (s : St) (own : Clu) (kind : String) : Option (Option L) :=
  match kind with
  | "L" | "K" => some (some own.lock)
  | "A" => s.alt.map fun a => some a.lock
  | "U" => some (some { own.lock with uuid := own.lock.uuid + 1 })
  | "T" => some (some { own.lock with threshold := own.lock.threshold - 1 })
  | "P" => some (some { own.lock with validators := match own.lock.validators with
      | v :: r => { v with pubShares := swap01 v.pubShares } :: r
      | [] => [] })
  | "J" | "-" => some none
  | _ => none

/-- `idx=src` entries; `none` = malformed op, `some none` = the directory's keystores cannot be loaded. -/
def parseKeys (s : St) (own : Clu) (spec : String) : Option (Option (List (KeyFile SSK))) :=
  if spec == "-" then some none
  else
    let ents := (spec.splitOn ",").mapM fun e =>
      match e.splitOn "=" with
      | [i, src] =>
        let idx : Option (Option Nat) := if i == "x" then some none else i.toNat?.map some
        let (wrong, src) := if src.startsWith "!" then (true, (src.drop 1).toString) else (false, src)
        let sec : Option SSK :=
          if src.startsWith "r" then ((src.drop 1).toString.toNat?).map SSK.rnd
          else
            let (c, src) := if src.startsWith "a" then (1, (src.drop 1).toString) else (0, src)
            match src.splitOn "." with
            | [j, k] => match j.toNat?, k.toNat? with
              | some j, some k =>
                let cl : Option Clu := if c == 0 then some own else s.alt
                match cl with
                | some cl => if 1 ≤ j && j ≤ cl.n && k < cl.plan.secrets.length then some (SSK.share c j k) else none
                | none => none
              | _, _ => none
            | _ => none
        match idx, sec with
        | some idx, some sec => some (wrong, (⟨idx, sec⟩ : KeyFile SSK))
        | _, _ => none
      | _ => none
    match ents with
    | none => none
    | some es => if es.any (·.1) then some none else some (some (es.map (·.2)))

def parseDirs (s : St) (own : Clu) (spec : String) : Option (List (Dir SPK SSK SSig SMsg)) :=
  (spec.splitOn "/").mapM fun ds =>
    match ds.splitOn ":" with
    | [kind, keys] =>
      if kind == "N" then some { isDir := false, hasKeys := false, lock := none, files := none }
      else match lockOfKind s own kind with
        | none => none
        | some lock =>
          if kind == "K" then some { isDir := true, hasKeys := false, lock := lock, files := none }
          else match parseKeys s own keys with
            | none => none
            | some files => some { isDir := true, hasKeys := true, lock := lock, files := files }
    | _ => none

def opComb (s : St) (own : Clu) (fs : List (String × String)) : String :=
  match parseDirs s own (fget fs "dirs") with
  | none => "bad-op"
  | some dirs =>
    combRes s (combine (cryptoOf s 0) (fbool fs "nv") (fbool fs "f") dirs (fbool fs "out"))

/-! ### forged locks: public shares off the sharing polynomial, lock re-hashed and re-signed -/

/-- `forge k=<k> kind=<none|one|two> i=<i> j=<j>`: the lock of the episode with share `i` (and `j`) of validator `k`
replaced by shifted shares (symbolically: secrets of nobody), `LockHash` recomputed, aggregate signature made again by
ALL current shares, node signatures made again: does `VerifyHashes` + `VerifySignatures` accept it? -/
def opForge (s : St) (own : Clu) (fs : List (String × String)) : String :=
  let C := cryptoOf s 0
  let k := fnat fs "k"
  let i := fnat fs "i"
  let j := fnat fs "j"
  let kind := fget fs "kind"
  let n := own.n
  if k ≥ own.plan.secrets.length || (kind != "none" && (i < 1 || i > n)) || (kind == "two" && (j < 1 || j > n || j == i)) then "bad-op" else
  -- n-of-n: the two shifts cancel under the Lagrange coefficients of ALL n identifiers, which is the only threshold
  -- subset; the shifted shares are another sharing of the same key (nothing symbolic can see that: decided here)
  if kind == "two" && own.plan.t == n then "accept" else
  let shifted : List Nat := if kind == "one" then [i] else if kind == "two" then [i, j] else []
  let sets := own.shareSets.zipIdx.map fun (set, k') =>
    if k' == k then set.zipIdx.map fun (sk, idx) => if shifted.contains (idx + 1) then SSK.rnd (500 + idx + 1) else sk else set
  let vals := own.lock.validators.zipIdx.map fun (v, k') =>
    if k' == k then { v with pubShares := v.pubShares.zipIdx.map fun (pk, idx) => if shifted.contains (idx + 1) then SPK.frn (500 + idx + 1) else pk } else v
  let l0 := own.lock
  let hash := C.lockHash l0.minor l0.uuid l0.numOperators l0.threshold l0.numValidators l0.fees vals
  let l : L := { l0 with validators := vals, hash := hash, sigAgg := some (aggSign C sets hash) }
  if verifyLock C l then "accept" else "reject"

/-! ### step -/

def step (s : St) (line : String) : St × String :=
  let ws := (line.splitOn " ").filter (· ≠ "")
  match ws with
  | "create" :: rest => opCreate s (fieldsOf rest)
  | ["alt", n, t, v] =>
    match s.own, n.toNat?, t.toNat?, v.toNat? with
    | some _, some n, some t, some v => opAlt s n t v
    | _, _, _, _ => (s, "bad-op")
  | ["disk"] =>
    match s.failed with
    | some (n, trace) => (s, opDisk n trace)
    | none => (s, "bad-op")
  | ["pcomb"] =>
    match s.failed with
    | some (n, trace) => (s, match combine (cryptoOf s 0) false false (diskDirs n trace) false with
        | .ok _ => "ok"
        | .error e => s!"err {cerrName e}")
    | none => (s, "bad-op")
  | op :: rest =>
    match s.own with
    | none => (s, "bad-op")
    | some own =>
      match op, rest with
      | "art", [i] =>
        match i.toNat? with
        | some i => if i < own.n then (s, artStr s own i) else (s, "bad-op")
        | none => (s, "bad-op")
      | "val", _ => opVal s own rest
      | "rec", _ => (s, opRec s own rest)
      | "gv", _ => (s, opGV s own (fieldsOf rest))
      | "comb", _ => (s, opComb s own (fieldsOf rest))
      | "forge", _ => (s, opForge s own (fieldsOf rest))
      | _, _ => (s, "bad-op")
  | _ => (s, "bad-op")

end Driver.CreateGlue

def main : IO Unit := Driver.runLoop Driver.CreateGlue.step {}
