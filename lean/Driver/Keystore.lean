import CharonV.Model.Keystore
import Driver.Common

/-
Line driver for the keystore model (C12, stream `keystore`). Ops (see harness/cmd/drive-keystore/main.go); paths are
relative to the episode's base directory, the model works on the absolute paths (`extractFileIndex` and the
`.json` → `.txt` replacement read the whole path):

  cfg ~ base=<hex>                         new episode: empty base directory (absolute path, observed)
  mkdir <p> | rm <p> | mv <a> <b> | cp <a> <b>
  put <p> ks <secret> <q> | obj | lock | pw <q>       a crafted keystore / JSON object / password text
  store <dir> <ins|sec> <secrets|-> [~ wr=<indices|-> e=<class>]   StoreKeysInsecure / StoreKeys; on failure the
                                           indices whose keystore file was written and the reported error are observed
  load <dir> ~ ord=<i,…> | e=<class>        LoadFilesUnordered, then Keys and SequencedKeys; ord = arrival order as
                                           indices into the sorted glob list
  loadrec <dir> ~ ord=<i:idx,…|-> | e=<class>   LoadFilesRecursively; ord = arrival order (index into the sorted list
                                           of valid files : FileIndex of the atomic counter)
  idx <hex|->                              extractFileIndex of a string
  k2v <vid:share,…;…|-> <shares|->         KeysharesToValidatorPubkey (public share of secret s = id s, secret 0 has none)
  shareidx <ids with x|-> <id>             ShareIdxForCluster
  place <base> <V> <N> <T> <ins|sec> <dir> create-cluster placement, then load + sequence + map per node
  ls                                       the world in full

Answers of ops that can change the world end in ` | W=<entries>:<fnv32 of the dump>`.
-/
open CharonV.Keystore

namespace Driver.Keystore

structure DState where
  base : Str := []
  w : World := []
  nextPw : Nat := 1000000

def hexVal (c : Char) : Option Nat :=
  if '0' ≤ c ∧ c ≤ '9' then some (c.toNat - 48)
  else if 'a' ≤ c ∧ c ≤ 'f' then some (c.toNat - 87)
  else none

def hexBytes : List Char → Option (List UInt8)
  | [] => some []
  | [_] => none
  | a :: b :: r =>
    match hexVal a, hexVal b, hexBytes r with
    | some x, some y, some t => some (UInt8.ofNat (x * 16 + y) :: t)
    | _, _, _ => none

def hexStr (s : String) : Option Str :=
  if s == "-" then some []
  else match hexBytes s.toList with
    | none => none
    | some bs => (String.fromUTF8? (ByteArray.mk bs.toArray)).map String.toList

def strLe : Str → Str → Bool
  | [], _ => true
  | _ :: _, [] => false
  | a :: as, b :: bs => if a.toNat < b.toNat then true else if b.toNat < a.toNat then false else strLe as bs

def sortStrs (l : List Str) : List Str := l.mergeSort strLe

def nats? (s : String) : Option (List Nat) :=
  if s == "-" || s == "" then some []
  else (s.splitOn ",").mapM String.toNat?

def showNats (l : List Nat) : String := if l.isEmpty then "-" else Driver.joinWith "," (l.map toString)

def showInt (i : Int) : String := if i < 0 then "-" ++ toString i.natAbs else toString i.toNat

def oracleOf (line : String) : String × List (String × String) :=
  match line.splitOn " ~ " with
  | [b] => (b, [])
  | b :: o :: _ => (b, (o.splitOn " ").filterMap (fun kv => match kv.splitOn "=" with
      | [k, v] => some (k, v)
      | _ => none))
  | [] => ("", [])

def absP (d : DState) (rel : String) : Str := d.base ++ '/' :: rel.toList

def relP (d : DState) (p : Str) : String :=
  match stripPrefix (d.base ++ ['/']) p with
  | some r => String.ofList r
  | none => "?" ++ String.ofList p

/-! ### canonical dump of the world -/

def intern (tbl : List Nat) (p : Nat) : List Nat × Nat :=
  match tbl.findIdx? (· = p) with
  | some i => (tbl, i)
  | none => (tbl ++ [p], tbl.length)

def dumpWorld (d : DState) : Nat × String :=
  let es := (d.w.filter (fun x => x.1 ≠ d.base)).mergeSort (fun a b => strLe a.1 b.1)
  let present := es.filterMap (fun x => match x.2 with | .file (.txt p) => some p | _ => none)
  let step := fun (acc : List Nat × List String) (x : Str × Entry) =>
    let name := relP d x.1
    match x.2 with
    | .dir => (acc.1, acc.2 ++ [name ++ "=D"])
    | .file .obj => (acc.1, acc.2 ++ [name ++ "=O"])
    | .file (.txt p) => let (t, i) := intern acc.1 p; (t, acc.2 ++ [s!"{name}=T{i}"])
    | .file (.ks s p) =>
      if present.contains p then let (t, i) := intern acc.1 p; (t, acc.2 ++ [s!"{name}=K{s}:{i}"])
      else (acc.1, acc.2 ++ [name ++ "=K?"])
  (es.length, Driver.joinWith " " (es.foldl step ([], [])).2)

def fnv32 (s : String) : Nat :=
  s.toUTF8.foldl (fun h b => ((h ^^^ b.toNat) * 16777619) % 4294967296) 2166136261

def hex8 (n : Nat) : String :=
  let ds := (Nat.toDigits 16 n)
  String.ofList (List.replicate (8 - ds.length) '0' ++ ds)

def digest (d : DState) : String :=
  let (n, s) := dumpWorld d
  s!"W={n}:{hex8 (fnv32 s)}"

def fin (d : DState) (res : String) : DState × String := (d, res ++ " | " ++ digest d)

/-! ### file operations of the test scaffolding (os.Mkdir, os.Rename, os.Remove, copy) -/

def hasChildren (w : World) (p : Str) : Bool := w.any (fun x => hasPrefix (p ++ ['/']) x.1)

def opMkdir (d : DState) (p : Str) : DState × String :=
  if isDir d.w (parentOf p) && (lookup d.w p).isNone then fin { d with w := write d.w p .dir } "ok" else fin d "err"

def opRm (d : DState) (p : Str) : DState × String :=
  match lookup d.w p with
  | some (.file _) => fin { d with w := erase d.w p } "ok"
  | some .dir => if hasChildren d.w p then fin d "err" else fin { d with w := erase d.w p } "ok"
  | none => fin d "err"

def opMv (d : DState) (a b : Str) : DState × String :=
  match lookup d.w a with
  | some (.file c) =>
    if a = b then fin d "ok"
    else match writeFile (erase d.w a) b c with
      | some w' => fin { d with w := w' } "ok"
      | none => fin d "err"
  | some .dir =>
    if (lookup d.w b).isSome || !isDir d.w (parentOf b) then fin d "err"
    else fin { d with w := d.w.map (fun x =>
        if x.1 = a then (b, x.2)
        else match stripPrefix (a ++ ['/']) x.1 with
          | some r => (b ++ '/' :: r, x.2)
          | none => x) } "ok"
  | none => fin d "err"

def opCp (d : DState) (a b : Str) : DState × String :=
  match readFile d.w a with
  | some c =>
    match writeFile d.w b c with
    | some w' => fin { d with w := w' } "ok"
    | none => fin d "err"
  | none => fin d "err"

/-! ### answers -/

def storeErrName : StoreErr → String
  | .dirNotExist => "nodir"
  | .dirNotDir => "notdir"
  | .encrypt => "encrypt"
  | .writeKeystore => "writeks"
  | .storePassword => "storepw"

def loadErrName : LoadErr → String
  | .noKeys => "nokeys"
  | .readFile => "readfile"
  | .unmarshal => "unmarshal"
  | .loadPassword => "loadpw"
  | .decrypt => "decrypt"
  | .extractIndex => "extractidx"
  | .walk => "walk"
  | .noPasswordFiles => "nopw"

def seqErrName : SeqErr → String
  | .unknownIndex => "unknown"
  | .outOfSequence => "outofseq"
  | .duplicate => "dup"

def showFiles (d : DState) (kf : List KeyFile) : String :=
  if kf.isEmpty then "-"
  else Driver.joinWith "," (kf.map (fun k => s!"{relP d k.filename}:{showInt k.fileIndex}:{k.secret}"))

def seqPart (kf : List KeyFile) : String :=
  let sq := match sequencedKeys kf with
    | .ok l => "ok:" ++ showNats l
    | .error e => "err:" ++ seqErrName e
  s!"keys={showNats (keys kf)} seq={sq}"

def isPermIdx (n : Nat) (ord : List Nat) : Bool :=
  ord.length == n && (List.range n).all (fun i => ord.count i == 1)

def pickOrder {α : Type} (l : List α) (ord : List Nat) : List α := ord.filterMap (fun i => l[i]?)

def opStore (d : DState) (dir : Str) (insecure : Bool) (secrets : List Nat) (orc : List (String × String)) :
    DState × String :=
  let pws := (List.range secrets.length).map (· + d.nextPw)
  let d1 := { d with nextPw := d.nextPw + secrets.length + 1 }
  match orc.lookup "e" with
  | none =>
    let r := storeKeys d.w dir insecure secrets pws
    match r.2 with
    | none => fin { d1 with w := r.1 } "ok"
    | some e => fin { d1 with w := r.1 } ("err:" ++ storeErrName e)
  | some e =>
    match checkDir d.w dir, (orc.lookup "wr").bind nats? with
    | some _, _ => fin d1 "impossible:dir"
    | none, none => fin d1 "bad-op"
    | none, some wr =>
      let r := storeSome d.w dir insecure secrets pws (fun i => wr.contains i)
      -- every written index wrote its keystore file: no error, or only the password failed
      let okWritten := r.2.all (fun x => x.2 = .storePassword)
      -- the others were skipped or failed before writing
      let items := (List.range secrets.length).zip (secrets.zip pws)
      let early := items.filterMap (fun x =>
        if wr.contains x.1 then none
        else match (storeOne r.1 dir insecure x.1 x.2.1 x.2.2).2 with
          | some .encrypt => some StoreErr.encrypt
          | some .writeKeystore => some StoreErr.writeKeystore
          | _ => none)
      let classes := (r.2.map (·.2) ++ early).map storeErrName
      if okWritten && wr.all (· < secrets.length) && classes.contains e then fin { d1 with w := r.1 } ("err:" ++ e)
      else fin { d1 with w := r.1 } "impossible"

def opLoad (d : DState) (dir : Str) (orc : List (String × String)) : DState × String :=
  let files := sortStrs (glob d.w dir)
  match orc.lookup "e", (orc.lookup "ord").bind nats? with
  | some e, _ =>
    let classes := if files.isEmpty then ["nokeys"] else files.filterMap (fun f =>
      match loadOne d.w f with
      | .error x => some (loadErrName x)
      | .ok _ => none)
    fin d (if classes.contains e then "err:" ++ e else "impossible")
  | none, some ord =>
    if !isPermIdx files.length ord then fin d "impossible:order"
    else match loadFilesUnordered d.w dir (pickOrder files ord) with
      | .error x => fin d ("err:" ++ loadErrName x)
      | .ok kf => fin d s!"ok files={showFiles d kf} {seqPart kf}"
  | none, none => fin d "bad-op"

def pairs? (s : String) : Option (List (Nat × Nat)) :=
  if s == "-" || s == "" then some []
  else (s.splitOn ",").mapM (fun x => match x.splitOn ":" with
    | [a, b] => match a.toNat?, b.toNat? with
      | some i, some j => some (i, j)
      | _, _ => none
    | _ => none)

def opLoadRec (d : DState) (dir : Str) (orc : List (String × String)) : DState × String :=
  let valid := (validFiles d.w dir).mergeSort (fun a b => strLe a.1 b.1)
  match orc.lookup "e", (orc.lookup "ord").bind pairs? with
  | some e, _ =>
    let classes :=
      if dir ≠ [] ∧ lookup d.w dir = none then ["walk"]
      else valid.filterMap (fun f => match recOne Fixes.current (passwordFiles d.w dir) f 1 with
        | .error x => some (loadErrName x)
        | .ok _ => none)
    fin d (if classes.contains e then "err:" ++ e else "impossible")
  | none, some ord =>
    let n := valid.length
    if !(isPermIdx n (ord.map (·.1)) && isPermIdx n (ord.map (fun x => x.2 - 1)) && ord.all (fun x => x.2 ≥ 1)) then
      fin d "impossible:order"
    else
      let order := ord.filterMap (fun x => (valid[x.1]?).map (fun f => (f, x.2)))
      match loadFilesRecursively d.w dir order with
      | .error x => fin d ("err:" ++ loadErrName x)
      | .ok kf => fin d s!"ok files={showFiles d kf} {seqPart kf}"
  | none, none => fin d "bad-op"

def showIdx : IdxRes → String
  | .idx i => showInt i
  | .err => "err"

def pubSym (s : Nat) : Option Nat := if s = 0 then none else some s

def lock? (s : String) : Option Lock :=
  if s == "-" then some []
  else (s.splitOn ";").mapM (fun v => match v.splitOn ":" with
    | [a, b] => match a.toNat?, nats? b with
      | some vid, some sh => some ⟨vid, sh⟩
      | _, _ => none
    | _ => none)

def showK2V (r : Except MapErr (List (Nat × IndexedKeyShare))) : String :=
  match r with
  | .error .dupPubShare => "err:dupshare"
  | .error (.badShare _) => "err:badshare"
  | .error (.notFound i) => s!"err:notfound@{i}"
  | .error (.multiple i) => s!"err:multi@{i}"
  | .ok l =>
    if l.isEmpty then "ok -"
    else "ok " ++ Driver.joinWith "," ((l.mergeSort (fun a b => a.1 ≤ b.1)).map
      (fun x => s!"{x.1}={x.2.share}@{x.2.index}"))

def opShareIdx (ops : String) (key : Nat) : String :=
  let toks := if ops == "-" then [] else ops.splitOn ","
  match toks.mapM String.toNat? with
  | none => "err:peers"
  | some ids =>
    if (List.range ids.length).any (fun i => (ids.take i).contains (ids.getD i 0)) then "err:peers"
    else match shareIdxForCluster ids key with
      | some n => s!"ok {n}"
      | none => "err:notfound"

def opPlace (d : DState) (base V N : Nat) (insecure : Bool) (dirRel : String) : DState × String :=
  let dir := absP d dirRel
  if !(isDir d.w (parentOf dir) && (lookup d.w dir).isNone) then fin d "err:mkdir"
  else
    let w0 := write d.w dir .dir
    let lock : Lock := (List.range V).map (fun k => ⟨base + 100 * k, (List.range N).map (fun i => base + 100 * k + i + 1)⟩)
    let nodeDir := fun (i : Nat) => dir ++ '/' :: 'n' :: (toString i).toList
    -- writeKeysToDisk
    let (w1, np) := (List.range N).foldl (fun (acc : World × Nat) i =>
      let wd := write acc.1 (nodeDir i) .dir
      let secrets := (List.range V).map (fun k => base + 100 * k + i + 1)
      let pws := (List.range V).map (· + acc.2)
      ((storeKeys wd (nodeDir i) insecure secrets pws).1, acc.2 + V + 1)) (w0, d.nextPw)
    let d1 := { d with w := w1, nextPw := np }
    let outs := (List.range N).map (fun i =>
      let files := sortStrs (glob w1 (nodeDir i))
      match loadFilesUnordered w1 (nodeDir i) files with
      | .error x => "err:" ++ loadErrName x
      | .ok kf =>
        match sequencedKeys kf with
        | .error e => "err:" ++ seqErrName e
        | .ok seq => showK2V (keysharesToValidator pubSym lock seq))
    fin d1 (Driver.joinWith " / " outs)

def step (d : DState) (line : String) : DState × String :=
  let (b, orc) := oracleOf line
  match (b.splitOn " ").filter (· ≠ "") with
  | ["cfg"] =>
    match (orc.lookup "base").bind hexStr with
    | some p => fin { base := p, w := [(p, .dir)], nextPw := 1000000 } "ok"
    | none => (d, "bad-op")
  | ["mkdir", p] => opMkdir d (absP d p)
  | ["rm", p] => opRm d (absP d p)
  | ["mv", a, b2] => opMv d (absP d a) (absP d b2)
  | ["cp", a, b2] => opCp d (absP d a) (absP d b2)
  | ["put", p, "ks", s, q] =>
    match s.toNat?, q.toNat? with
    | some s, some q =>
      match writeFile d.w (absP d p) (.ks s q) with
      | some w' => fin { d with w := w' } "ok"
      | none => fin d "err"
    | _, _ => (d, "bad-op")
  | ["put", p, "pw", q] =>
    match q.toNat? with
    | some q =>
      match writeFile d.w (absP d p) (.txt q) with
      | some w' => fin { d with w := w' } "ok"
      | none => fin d "err"
    | none => (d, "bad-op")
  | ["put", p, k] =>
    if k == "obj" || k == "lock" then
      match writeFile d.w (absP d p) .obj with
      | some w' => fin { d with w := w' } "ok"
      | none => fin d "err"
    else (d, "bad-op")
  | ["store", dir, mode, ss] =>
    match nats? ss with
    | some secrets => if mode == "ins" || mode == "sec" then opStore d (absP d dir) (mode == "ins") secrets orc else (d, "bad-op")
    | none => (d, "bad-op")
  | ["load", dir] => opLoad d (absP d dir) orc
  | ["loadrec", dir] => opLoadRec d (absP d dir) orc
  | ["idx", h] =>
    match hexStr h with
    | some s => (d, showIdx (extractFileIndex s))
    | none => (d, "bad-op")
  | ["k2v", l, ss] =>
    match lock? l, nats? ss with
    | some lock, some shares => (d, showK2V (keysharesToValidator pubSym lock shares))
    | _, _ => (d, "bad-op")
  | ["shareidx", ops, key] =>
    match key.toNat? with
    | some k => (d, opShareIdx ops k)
    | none => (d, "bad-op")
  | ["place", base, v, n, _t, mode, dir] =>
    match base.toNat?, v.toNat?, n.toNat? with
    | some base, some v, some n => opPlace d base v n (mode == "ins") dir
    | _, _, _ => (d, "bad-op")
  | ["ls"] => (d, "ls " ++ (dumpWorld d).2)
  | _ => (d, "bad-op")

end Driver.Keystore

def main : IO Unit := Driver.runLoop Driver.Keystore.step ({} : Driver.Keystore.DState)
