/-
Line driver for C08 (`drive-tbls`): scalar model of `tbls/herumi.go`.

ops (see `harness/cmd/drive-tbls/main.go`):
  new det <n> <t> <secret> <rnd>          -> ok 1:<share> … | err <class>
  new rnd <n> <t> <secret> <id:share,…>   -> ok | inconsistent
  rec <ids>                               -> <recovered> sk=b pk=b rpk=b
  sig <ids> <msg>                         -> agg=b ver=b
  subshare <ids> <j> <scalar> <msg>       -> agg=b ver=b
  subindex <ids> <j> <k> <msg>            -> agg=b ver=b
  submsg <ids> <j> <msg> <msg'>           -> agg=b ver=b
  vfy <ids> <j> <k> <msg> <w1..w4>        -> pre=<12 bits> right=<4 bits> post=<12 bits> again=<2 bits>
-/
import CharonV.Model.Fr
import Driver.Common

open CharonV.Fr CharonV.TblsExec

namespace Driver.Tbls

structure St where
  n      : Nat := 0
  t      : Nat := 0
  secret : Nat := 0
  shares : List (Nat × Nat) := []
  live   : Bool := false

def b01 (b : Bool) : String := if b then "1" else "0"

def parseIds (s : String) : Option (List Nat) :=
  (s.splitOn ",").mapM String.toNat?

def lookupAll (shares : List (Nat × Nat)) (ids : List Nat) : Option (List (Nat × Nat)) :=
  ids.mapM fun i => (shares.find? (·.1 == i)).map fun p => (i, p.2)

def sharesStr (sh : List (Nat × Nat)) : String :=
  " ".intercalate (sh.map fun p => s!"{p.1}:{toHex32 p.2}")

def parsePairs (s : String) : Option (List (Nat × Nat)) :=
  (s.splitOn ",").mapM fun it =>
    match it.splitOn ":" with
    | [a, b] => match a.toNat?, ofHex? b with
      | some i, some v => if b.length == 64 then some (i, v) else none
      | _, _ => none
    | _ => none

/-- consistency of a CSPRNG split: ids 1..n, all shares `< r`, and the points
`(0, secret), (1, y₁), …` lie on one polynomial of degree `< t`. -/
def consistent (n t secret : Nat) (sh : List (Nat × Nat)) : Bool :=
  sh.map (·.1) == (List.range n).map (· + 1) &&
  sh.all (·.2 < r) && degreeLt t ((0, secret) :: sh)

def aggOut (secret : Nat) (pts : Option (List (Nat × Nat))) (extra : Bool) : String :=
  match pts.bind combine with
  | none => "err"
  | some v => let ok := v == secret && extra; s!"agg={b01 ok} ver={b01 ok}"

def step (s : St) (line : String) : St × String :=
  match line.splitOn " " with
  | ["new", "det", n, t, secH, rnd] =>
    match n.toNat?, t.toNat?, ofHex? secH with
    | some n, some t, some sec =>
      if secH.length != 64 then (s, "bad-op") else
      match thresholdSplitInsecure sec n t (chunks32 (if rnd == "-" then "" else rnd)) with
      | .errThreshold => ({ s with live := false }, "err threshold")
      | .errSecret => ({ s with live := false }, "err secret")
      | .errRandom => ({ s with live := false }, "err random")
      | .ok sh => ({ n := n, t := t, secret := sec, shares := sh, live := true }, "ok " ++ sharesStr sh)
    | _, _, _ => (s, "bad-op")
  | ["new", "rnd", n, t, sec, shs] =>
    match n.toNat?, t.toNat?, ofHex? sec, parsePairs shs with
    | some n, some t, some sec, some sh =>
      if consistent n t sec sh then
        ({ n := n, t := t, secret := sec, shares := sh, live := true }, "ok")
      else ({ s with live := false }, "inconsistent")
    | _, _, _, _ => (s, "bad-op")
  | ["rec", ids] =>
    if !s.live then (s, "bad-op") else
    match (parseIds ids).bind (lookupAll s.shares) with
    | none => (s, "bad-op")
    | some pts =>
      match recoverSecret pts with
      | none => (s, "err")
      | some v => let eq := b01 (v == s.secret); (s, s!"{toHex32 v} sk={eq} pk={eq} rpk={eq}")
  | ["sig", ids, _msg] =>
    if !s.live then (s, "bad-op") else
    match (parseIds ids).bind (lookupAll s.shares) with
    | none => (s, "bad-op")
    | some pts => (s, aggOut s.secret (some pts) true)
  | ["subshare", ids, j, sc, _msg] =>
    if !s.live then (s, "bad-op") else
    match (parseIds ids).bind (lookupAll s.shares), j.toNat?, ofHex? sc with
    | some pts, some j, some v =>
      if !(pts.any (·.1 == j)) || sc.length != 64 || v ≥ r then (s, "bad-op") else
      (s, aggOut s.secret (some (pts.map fun p => if p.1 == j then (j, v) else p)) true)
    | _, _, _ => (s, "bad-op")
  | ["subindex", ids, j, k, _msg] =>
    if !s.live then (s, "bad-op") else
    match (parseIds ids).bind (lookupAll s.shares), j.toNat?, k.toNat? with
    | some pts, some j, some k =>
      match s.shares.find? (·.1 == k) with
      | none => (s, "bad-op")
      | some pk =>
        if !(pts.any (·.1 == j)) then (s, "bad-op") else
        (s, aggOut s.secret (some (pts.map fun p => if p.1 == j then (j, pk.2) else p)) true)
    | _, _, _ => (s, "bad-op")
  | ["submsg", ids, j, msg, msg'] =>
    if !s.live then (s, "bad-op") else
    match (parseIds ids).bind (lookupAll s.shares), j.toNat? with
    | some pts, some j =>
      match pts.find? (·.1 == j) with
      | none => (s, "bad-op")
      | some pj =>
        -- the combination changes by λ_j·y_j·(H(m') − H(m)): unchanged iff m' = m or λ_j·y_j = 0
        let same := msg == msg' || mul (lagCoeff0 (pts.map (·.1)) j) pj.2 == 0
        (s, aggOut s.secret (some pts) same)
    | _, _ => (s, "bad-op")
  | ["vfy", ids, j, k, msg, w1, w2, w3, w4] =>
    if !s.live then (s, "bad-op") else
    match (parseIds ids).bind (lookupAll s.shares), j.toNat?, k.toNat? with
    | some pts, some j, some k =>
      match pts.find? (·.1 == j), s.shares.find? (·.1 == k), combine pts with
      | some pj, some pk, some c =>
        -- Verify(key•g1, m*, sig•H(m)) accepts iff m* = m and key = sig (stateless: no history argument)
        let acc (key sig : Nat) (same : Bool) : String := b01 (same && key == sig && key != 0)
        let ws := [w1, w2, w3, w4]
        let neg := String.join (ws.map fun w => acc s.secret c (w == msg))
          ++ String.join (ws.map fun w => acc pj.2 pj.2 (w == msg))
          ++ acc pj.2 c true ++ acc pk.2 c true ++ acc s.secret pj.2 true ++ acc pk.2 pj.2 true
        let ra := acc s.secret c true
        let rb := acc pj.2 pj.2 true
        (s, s!"pre={neg} right={ra}{rb}{ra}{rb} post={neg} again={ra}{rb}")
      | _, _, _ => (s, "bad-op")
    | _, _, _ => (s, "bad-op")
  | _ => (s, "bad-op")

end Driver.Tbls

def main : IO Unit := Driver.runLoop Driver.Tbls.step {}
