import CharonV.Model.Transport
import Driver.Common

/-!
Line driver for the per-instance consensus transport model (`Model/Transport.lean`, C05).

tokens
  hash  z (zero) | h<id> (hash of value <id>) | u<k> (a hash nobody has a value for)
        in a wire core also: n (nil bytes) | s (bytes of another length)
  val   v<id> (the Any `anypb.New` makes of value <id>) | w<id> (another Any with the same inner
        message) | e (an Any that does not unmarshal)
  core  type,slot,dtype,peer,round,pr,vh,pvh

ops
  new <peerIdx> <nodes>                                  fresh transport (episode start)
  prop <id>                                              `propose` feeds valueCh (capacity 8 here)
  bc <type> <slot> <dtype> <peer> <round> <vh> <pr> <pvh> <berr 0|1> {<idx>}
                                                         Broadcast with justification = table[idx]...
  drain                                                  the reader takes every parked own message
  rx M <core> {J <core>} {V <val>}                       valuesByHash + newMsg, outer buffer, ProcessReceives, reader
  mk M <core> {J <core>} {V <val>}                       valuesByHash + newMsg only (a Msg the transport never saw)
  dec <idx> <hash> <round> <nsubs>                       Decide callback with qcommit = [table[idx]]
-/

open CharonV.QbftWire
open CharonV.Transport

namespace Driver.Transport

def chCap : Nat := 8
def unknownBase : Nat := 1000000

structure DState where
  init : Bool := false
  own : Nat := 0
  nodes : Nat := 0
  st : CharonV.Transport.State := {}
  table : List TMsg := []

/-- Val token: id*4 + variant (0 = v, 1 = w, 3 = e). Hash of value id = id + 1. -/
def crypto : Crypto :=
  { Digest := Unit
    digest := fun _ => ()
    recover := fun _ s => if s = 0 then none else some (s - 1)
    unmarshalAny := fun v => if v % 4 ≥ 2 then none else some (v / 4)
    hashInner := fun x => some (x + 1) }

def parseHash (s : String) : Option (Option Hash) :=
  if s = "z" then some none
  else if s.startsWith "h" then (s.drop 1).toNat?.map (fun i => some (i + 1))
  else if s.startsWith "u" then (s.drop 1).toNat?.map (fun k => some (unknownBase + k))
  else none

def parseHBytes (s : String) : Option HBytes :=
  if s = "n" then some (.other 1)
  else if s = "s" then some (.other 2)
  else (parseHash s).map hbytes

def parseVal (s : String) : Option Val :=
  if s = "e" then some 3
  else if s.startsWith "v" then (s.drop 1).toNat?.map (fun i => i * 4)
  else if s.startsWith "w" then (s.drop 1).toNat?.map (fun i => i * 4 + 1)
  else none

def showHashN (h : Hash) : String :=
  if h ≥ unknownBase then s!"u{h - unknownBase}" else s!"h{h - 1}"

def showHash : Option Hash → String
  | none => "z"
  | some h => showHashN h

def showVal (v : Val) : String :=
  if v % 4 = 0 then s!"v{v / 4}" else if v % 4 = 1 then s!"w{v / 4}" else "e"

def parseCore (s : String) : Option Core :=
  match s.splitOn "," with
  | [ty, slot, dty, peer, round, pr, vh, pvh] =>
    match ty.toInt?, slot.toNat?, dty.toInt?, peer.toInt?, round.toInt?, pr.toInt?, parseHBytes vh, parseHBytes pvh with
    | some ty, some sl, some dt, some peer, some round, some pr, some vh, some pvh =>
      some { fields := { type := ty, duty := some { slot := sl, type := dt }, peerIdx := peer, round := round,
                         preparedRound := pr, valueHash := vh, preparedValueHash := pvh }, sig := none }
    | _, _, _, _, _, _, _, _ => none
  | _ => none

structure WireSpec where
  main : Option Core := none
  just : List Core := []
  vals : List Val := []

partial def parseWire (toks : List String) (w : WireSpec) : Option WireSpec :=
  match toks with
  | [] => if w.main.isSome then some w else none
  | "M" :: c :: rest =>
    if w.main.isSome then none else
    match parseCore c with
    | some c => parseWire rest { w with main := some c }
    | none => none
  | "J" :: c :: rest =>
    match parseCore c with
    | some c => parseWire rest { w with just := w.just ++ [c] }
    | none => none
  | "V" :: v :: rest =>
    match parseVal v with
    | some v => parseWire rest { w with vals := w.vals ++ [v] }
    | none => none
  | _ => none

def showCoreView (c : CoreView) : String :=
  s!"{c.type}/{c.duty.slot}/{c.duty.type}/{c.source}/{c.round}/{showHash c.value}/{c.preparedRound}/{showHash c.preparedValue}"

def insertPair (p : Nat × Nat) : List (Nat × Nat) → List (Nat × Nat)
  | [] => [p]
  | x :: xs => if p.1 < x.1 then p :: x :: xs else x :: insertPair p xs

/-- map dump: first binding per hash, sorted by hash. -/
def showVals (m : VMap) : String :=
  let ps := (entries m []).foldl (fun acc p => insertPair p acc) []
  Driver.joinWith "," (ps.map (fun p => s!"{showHashN p.1}:{showVal p.2}"))

def showMsg (m : TMsg) : String :=
  let v := m.view
  showCoreView v.core ++ " J[" ++ Driver.joinWith ";" (v.just.map showCoreView) ++ "] vals=" ++ showVals m.values

def showReason : Reason → String
  | .values => "values"
  | .noValue => "novalue"
  | .noPreparedValue => "nopvalue"
  | _ => "other"

def tail (d : DState) : String :=
  s!"ch={d.st.valueCh.length} pend={d.st.pending.length} cache={showVals d.st.cache}"

/-- the reader takes every parked own message, oldest broadcast first. -/
def drainAll (d : DState) : DState × Nat :=
  let k := d.st.pending.length
  let rec go (s : CharonV.Transport.State) (tbl : List TMsg) : Nat → CharonV.Transport.State × List TMsg
    | 0 => (s, tbl)
    | n + 1 =>
      match s.pending with
      | [] => (s, tbl)
      | m :: _ => go (selfDeliver s 0) (tbl ++ [m]) n
  let (s', t') := go d.st d.table k
  ({ d with st := s', table := t' }, k)

def getJust (tbl : List TMsg) : List String → Option (List TMsg)
  | [] => some []
  | x :: xs =>
    match x.toNat? with
    | none => none
    | some i =>
      match tbl[i]?, getJust tbl xs with
      | some m, some ms => some (m :: ms)
      | _, _ => none

def sigOk (d : DState) (m : TMsg) : Bool :=
  match m.pb.sig with
  | none => false
  | some s =>
    match crypto.recover (crypto.digest m.pb.fields) s, lookupKey (List.range d.nodes) m.pb.fields.peerIdx with
    | some k, some pk => k = pk
    | _, _ => false

def step (d : DState) (line : String) : DState × String :=
  match line.splitOn " " with
  | ["new", p, n] =>
    match p.toNat?, n.toNat? with
    | some p, some n =>
      if n = 0 || p ≥ n then (d, "bad-op") else
      ({ init := true, own := p, nodes := n, st := {}, table := [] }, "ok")
    | _, _ => (d, "bad-op")
  | ["prop", i] =>
    if !d.init then (d, "bad-op") else
    match i.toNat? with
    | some i =>
      if d.st.valueCh.length ≥ chCap then (d, "full " ++ tail d) else
      let d' := { d with st := propose d.st (i + 1) (i * 4) }
      (d', "ok " ++ tail d')
    | none => (d, "bad-op")
  | "bc" :: ty :: slot :: dty :: peer :: round :: vh :: pr :: pvh :: berr :: js =>
    if !d.init then (d, "bad-op") else
    if berr ≠ "0" && berr ≠ "1" then (d, "bad-op") else
    match ty.toInt?, slot.toNat?, dty.toInt?, peer.toInt?, round.toInt?, parseHash vh, pr.toInt?, parseHash pvh, getJust d.table js with
    | some ty, some sl, some dt, some peer, some round, some vh, some pr, some pvh, some just =>
      let a : BArgs := { type := ty, duty := { slot := sl, type := dt }, peerIdx := peer, round := round,
                         value := vh, pr := pr, pvalue := pvh, just := just }
      let (s', r) := broadcast crypto (fun _ => d.own + 1) d.st a
      let d' := { d with st := s' }
      match r with
      | .ok m => (d', s!"ok #{s'.sent.length} {showMsg m} sig={if sigOk d m then 1 else 0} berr={berr} " ++ tail d')
      | .error .unknownValue => (d', "err:unknown " ++ tail d')
      | .error (.create rs) => (d', "err:create:" ++ showReason rs ++ " " ++ tail d')
    | _, _, _, _, _, _, _, _, _ => (d, "bad-op")
  | ["drain"] =>
    if !d.init then (d, "bad-op") else
    let (d', k) := drainAll d
    (d', s!"ok n={k} tbl={d'.table.length}")
  | "rx" :: toks =>
    if !d.init then (d, "bad-op") else
    match parseWire toks {} with
    | some { main := some c, just := js, vals := vs } =>
      match admitMsg crypto c js vs with
      | .error r => (d, "rej:" ++ showReason r)
      | .ok m =>
        let (d1, k) := drainAll d
        let d2 := { d1 with st := receive d1.st m, table := d1.table ++ [m] }
        (d2, s!"ok dr={k} idx={d2.table.length - 1} {showMsg m} " ++ tail d2)
    | _ => (d, "bad-op")
  | "mk" :: toks =>
    if !d.init then (d, "bad-op") else
    match parseWire toks {} with
    | some { main := some c, just := js, vals := vs } =>
      match admitMsg crypto c js vs with
      | .error r => (d, "rej:" ++ showReason r)
      | .ok m =>
        let d2 := { d with table := d.table ++ [m] }
        (d2, s!"ok idx={d2.table.length - 1} {showMsg m}")
    | _ => (d, "bad-op")
  | ["dec", i, h, round, nsubs] =>
    if !d.init then (d, "bad-op") else
    match i.toNat?, parseHash h, round.toInt?, nsubs.toNat? with
    | some i, some h, some round, some nsubs =>
      match d.table[i]? with
      | none => (d, "bad-op")
      | some m =>
        match decideOut crypto m h with
        | none => (d, "none")
        | some x => (d, s!"ok val={x} cb={round} subs={nsubs}")
    | _, _, _, _ => (d, "bad-op")
  | _ => (d, "bad-op")

end Driver.Transport

def main : IO Unit := Driver.runLoop Driver.Transport.step {}
