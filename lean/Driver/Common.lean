/-
Shared line-protocol loop for all model drivers: read one op per line from stdin, print one
canonical output line per op. Core Lean only (compiled as `lean_exe`).
-/
namespace Driver

partial def loop {σ : Type} (h : IO.FS.Stream) (out : IO.FS.Stream) (step : σ → String → σ × String) (s : σ) : IO Unit := do
  let line ← h.getLine
  if line.isEmpty then
    out.flush
    return ()
  let l := line.trimAscii.toString
  if l.isEmpty then
    loop h out step s
  else
    let (s', o) := step s l
    out.putStrLn o
    loop h out step s'

def runLoop {σ : Type} (step : σ → String → σ × String) (init : σ) : IO Unit := do
  let stdin ← IO.getStdin
  let stdout ← IO.getStdout
  loop stdin stdout step init

def joinWith (sep : String) (xs : List String) : String := sep.intercalate xs

end Driver
