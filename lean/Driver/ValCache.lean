import CharonV.Model.ValCache
import Driver.Common

/-
Line driver for the validator cache model (C15, stream `valcache`). Ops (see harness/cmd/drive-valcache/main.go):

  cfg <stack> <pks|->                     new episode: cluster pubkeys; stack d|a|l|m (direct / http adapter /
                                          lazy(adapter) / multi[lazy(adapter)]) for the ops active, complete, sched
  wire                                    SetValidatorCache(valCache.GetByHead) on the stack
  bnset <state> <err|nil|flt|raw> <entries|->   what the scripted node answers for state id "head" / a slot;
                                          entry = key:idx:pk:status/verdict:act | key:nil | key:nv ; flt = the
                                          node honours the pubkey filter of the query, raw = it does not
  bnfail <bits>                           the next node calls fail where the bit is 1
  head | active | complete                GetByHead directly / through the stack (one of the two maps)
  slot <s>                                GetBySlot
  trim                                    Trim
  refresh <slot>                          the slot subscriber of app/app.go (Trim; GetBySlot) with its two flags
  mut adel <i> | aadd <i> <pk> | cstat <key> <status> | cdel <key>    hostile caller writes into the maps it holds
  sched <slot>                            the real Scheduler resolves the slot's epoch through the stack
  race hh|ht|hs:<s> a=<res> b=<res> o=<order> s=<cache>   two racing calls; the observed results, node-call order and final cache are
                                          part of the op: the model looks for an interleaving of its atomic steps
                                          that produces them (`impossible` if none)

Every answer ends in ` | S=a:<nil|A[..]>;c:<nil|C[..]> bn=<calls>` (what the cache holds, node calls so far).
-/
open CharonV.ValCache

namespace Driver.ValCache

structure Spec where
  mode : Nat            -- 0 err, 1 nil Data map, 2 filtered, 3 raw
  es   : List Entry

structure DState where
  cfg      : Cfg := Cfg.current   -- `drv-valcache fixed` compares against the repaired variant
  started  : Bool := false
  stack    : String := "d"
  wired    : Bool := false
  st       : St := St.init []
  states   : List (String × Spec) := []
  failq    : List Bool := []
  calls    : Nat := 0
  held     : Bool := false     -- the caller got maps from a head / slot op of this episode
  heldCNil : Bool := false     -- ... and the complete map it got is a nil map
  firstRefresh : Bool := true  -- app.go's slot subscriber: firstCacheRefresh, refreshedBySlot
  rbs      : Bool := true

def statusCode? (n : String) : Option Nat :=
  let rec go (l : List String) (i : Nat) : Option Nat :=
    match l with
    | [] => none
    | x :: xs => if x == n then some i else go xs (i + 1)
  go statusNames 0

def statusName (s : Nat) : String := statusNames.getD s "unknown"

def sortBy {α : Type} (f : α → Nat) (l : List α) : List α := l.mergeSort (fun a b => f a ≤ f b)

def showA (m : AMap) : String :=
  "A[" ++ Driver.joinWith "," ((sortBy (·.1) m).map (fun p => s!"{p.1}:{p.2}")) ++ "]"

def showEntry (e : Entry) : String :=
  if e.bad == 1 then s!"{e.key}:nil" else if e.bad == 2 then s!"{e.key}:nv"
  else s!"{e.key}:{e.idx}:{e.pk}:{statusName e.status}:{e.act}"

def showC (es : List Entry) : String :=
  "C[" ++ Driver.joinWith "," ((sortBy (·.key) es).map showEntry) ++ "]"

def showRes : Res → String
  | .err true => "err:nilval"
  | .err false => "err:bn"
  | .ok a c => s!"ok/{showA a}/{showC c}"

def snapOf (c : Cache) : String :=
  let a := match c.active with | none => "nil" | some m => showA m
  let cc := match c.complete with | none => "nil" | some es => showC es
  s!"a:{a};c:{cc}"

def digest (d : DState) : String := s!"S={snapOf d.st.c} bn={d.calls}"

def withDigest (d : DState) (o : String) : DState × String := (d, o ++ " | " ++ digest d)

def showQ (q : List String) : String := if q.isEmpty then "-" else Driver.joinWith "+" q

/-- parse one entry; `none` = malformed, `some (e, okVerdict)` -/
def entry? (s : String) : Option (Entry × Option String) :=
  match s.splitOn ":" with
  | [k, "nil"] => k.toNat?.map (fun k => (⟨k, 0, 0, 0, 0, 1⟩, none))
  | [k, "nv"] => k.toNat?.map (fun k => (⟨k, 0, 0, 0, 0, 2⟩, none))
  | [k, i, p, sv, a] =>
    match k.toNat?, i.toNat?, p.toNat?, a.toNat?, sv.splitOn "/" with
    | some k, some i, some p, some a, [sn, v] =>
      match statusCode? sn with
      | some st =>
        let mine := if isActive st then "1" else "0"
        some (⟨k, i, p, st, a, 0⟩, if mine == v then none else some sn)
      | none => none
    | _, _, _, _, _ => none
  | _ => none

/-- `none` = malformed; else entries and the first status whose IsActive verdict differs from the model's table -/
def entries? (s : String) : Option (List Entry × Option String) :=
  if s == "-" then some ([], none)
  else
    (s.splitOn ",").foldl (fun acc x =>
      match acc, entry? x with
      | some (es, bad), some (e, b) => some (es ++ [e], if bad.isSome then bad else b)
      | _, _ => none) (some ([], none))

def parseBits (s : String) : Option (List Bool) :=
  if s == "-" then some []
  else s.toList.mapM (fun c => if c == '1' then some true else if c == '0' then some false else none)

/-- one call of the scripted node -/
def bnCall (d : DState) (state : String) : DState × Ans :=
  let d1 := { d with calls := d.calls + 1 }
  let (fail, d2) := match d1.failq with
    | [] => (false, d1)
    | b :: r => (b, { d1 with failq := r })
  if fail then (d2, .err) else
  match d2.states.find? (fun p => p.1 == state) with
  | none => (d2, .err)
  | some (_, sp) =>
    if sp.mode == 0 then (d2, .err)
    else if sp.mode == 1 then (d2, .nilData)
    else if sp.mode == 2 then
      (d2, .ok (sp.es.filter (fun e => e.bad != 0 || d.st.c.pubkeys.contains e.pk)))
    else (d2, .ok sp.es)

/-- a GetByHead that nobody interleaves with; `keep`: the caller keeps the maps. -/
def doHead (d : DState) (keep : Bool) : DState × Res × List String :=
  let (d1, ans, q) := if willFetch d.st.c then
      let r := bnCall d "head"; (r.1, r.2, ["head"])
    else (d, Ans.err, [])
  let r := step d1.cfg d1.st (if keep then .head ans else .peek ans)
  let d2 := { d1 with st := r.1 }
  match r.2 with
  | .res res _ _ _ => (d2, res, q)
  | .none => (d2, .err false, q)

def doSlot (d : DState) (s : Nat) : DState × Res × Bool × List String :=
  let r1 := bnCall d (toString s)
  let (d2, aH, q) := match r1.2 with
    | .err => let r2 := bnCall r1.1 "head"; (r2.1, r2.2, [toString s, "head"])
    | _ => (r1.1, Ans.err, [toString s])
  let r := step d2.cfg d2.st (.slot r1.2 aH)
  let d3 := { d2 with st := r.1 }
  match r.2 with
  | .res res _ refreshed _ => (d3, res, refreshed, q)
  | .none => (d3, .err false, false, q)

def noteHeld (d : DState) (res : Res) : DState :=
  match res with
  | .ok _ _ => { d with held := true, heldCNil := d.st.c.complete.isNone }
  | .err _ => d

def b2s (b : Bool) : String := if b then "1" else "0"

/-- through the client stack: "no active validator cache" until wired (stack d: the cache itself) -/
def stackReady (d : DState) : Bool := d.stack == "d" || adapterWired d.wired

/-! ### races: interleavings of the atomic steps -/

inductive TStep where
  | r1 | r2 | fin | trim | slot (s : Nat)

structure RState where
  d     : DState
  a     : ASt
  resA  : String := "-"
  resB  : String := "-"
  order : String := ""

def execT (tag : Nat) (x : RState) : TStep → RState
  | .r1 => { x with a := (astep x.a (.r1 tag)).1 }
  | .r2 => { x with a := (astep x.a (.r2 tag)).1 }
  | .trim =>
    let x := { x with a := (astep x.a .trim).1 }
    if tag == 0 then { x with resA := "done" } else { x with resB := "done" }
  | .fin =>
    let r := getRegs x.a.regs tag
    let miss := !(r.rc.isSome && r.ra.isSome)
    let (d1, ans, o) := if miss then
        let c := bnCall { x.d with st := { x.d.st with c := x.a.c } } "head"
        (c.1, c.2, x.order ++ (if tag == 0 then "a" else "b"))
      else (x.d, Ans.err, x.order)
    let s := astep x.a (.fin tag ans)
    let rs := match s.2 with | some r => showRes r | none => "-"
    let x := { x with d := d1, a := s.1, order := o }
    if tag == 0 then { x with resA := rs } else { x with resB := rs }
  | .slot sl =>
    let t := if tag == 0 then "a" else "b"
    let d0 := { x.d with st := { x.d.st with c := x.a.c } }
    let c1 := bnCall d0 (toString sl)
    let (d2, aH, o) := match c1.2 with
      | .err => let c2 := bnCall c1.1 "head"; (c2.1, c2.2, x.order ++ t ++ t)
      | _ => (c1.1, Ans.err, x.order ++ t)
    let s := astep x.a (.slot c1.2 aH)
    let refreshed := match c1.2 with | .err => false | _ => true
    let rs := match s.2 with | some r => showRes r ++ "/r" ++ b2s refreshed | none => "-"
    let x := { x with d := d2, a := s.1, order := o }
    if tag == 0 then { x with resA := rs } else { x with resB := rs }

/-- all complete interleavings of the two programs -/
def explore (fuel : Nat) (pa pb : List TStep) (x : RState) : List RState :=
  match fuel with
  | 0 => []
  | fuel + 1 =>
    match pa, pb with
    | [], [] => [x]
    | _, _ =>
      (match pa with
        | [] => []
        | s :: r => explore fuel r pb (execT 0 x s)) ++
      (match pb with
        | [] => []
        | s :: r => explore fuel pa r (execT 1 x s))

def doRace (d : DState) (pb : List TStep) (oa ob oo os : String) : DState × String :=
  let x0 : RState := { d := d, a := { c := d.st.c, regs := [] } }
  let finals := explore 16 [.r1, .r2, .fin] pb x0
  let want := if oo == "-" then "" else oo
  match finals.find? (fun x => x.resA == oa && x.resB == ob && x.order == want && snapOf x.a.c == os) with
  | none => (d, "impossible")
  | some x =>
    -- the harness drops the maps it held; ghost fields restart from what the cache holds
    let c := x.a.c
    let st : St := { c := c, liveA := false, liveC := false,
                     last := if c.active.isSome then some (c.complete.getD []) else none, taint := x.d.st.taint }
    withDigest { x.d with st := st, held := false, heldCNil := false } "ok"

def kv? (pfx : String) (s : String) : Option String :=
  if s.startsWith pfx then some ((s.drop pfx.length).toString) else none

def slotsPerEpoch : Nat := 16

def step (d : DState) (line : String) : DState × String :=
  match line.splitOn " " with
  | ["cfg", stack, pks] =>
    let pl := if pks == "-" then some [] else (pks.splitOn ",").mapM (fun x => x.toNat?)
    match pl with
    | some l =>
      if stack == "d" || stack == "a" || stack == "l" || stack == "m" then
        ({ cfg := d.cfg, started := true, stack := stack, st := St.init l }, "ok")
      else (d, "bad-op")
    | none => (d, "bad-op")
  | toks =>
    if !d.started then (d, "bad-op") else
    match toks with
    | ["wire"] => withDigest { d with wired := true } "ok"
    | ["bnset", state, mode, ents] =>
      let m := if mode == "err" then some 0 else if mode == "nil" then some 1 else if mode == "flt" then some 2
               else if mode == "raw" then some 3 else none
      match m, entries? ents with
      | some m, some (es, bad) =>
        if state != "head" && state.toNat?.isNone then (d, "bad-op") else
        match bad with
        | some sn => (d, s!"isactive-mismatch:{sn}")
        | none =>
          withDigest { d with states := (state, ⟨m, es⟩) :: d.states.filter (fun p => p.1 != state) } "ok"
      | _, _ => (d, "bad-op")
    | ["bnfail", bits] =>
      match parseBits bits with
      | some b => withDigest { d with failq := b } "ok"
      | none => (d, "bad-op")
    | ["trim"] => withDigest { d with st := (CharonV.ValCache.step d.cfg d.st .trim).1 } "ok"
    | ["head"] =>
      let (d1, res, q) := doHead d true
      withDigest (noteHeld d1 res) s!"{showRes res} q={showQ q}"
    | ["active"] =>
      if !stackReady d then withDigest d "err:nocache q=-" else
      let (d1, res, q) := doHead d false
      match res with
      | .ok a _ => withDigest d1 s!"ok/{showA a} q={showQ q}"
      | r => withDigest d1 s!"{showRes r} q={showQ q}"
    | ["complete"] =>
      if !stackReady d then withDigest d "err:nocache q=-" else
      let (d1, res, q) := doHead d false
      match res with
      | .ok _ c => withDigest d1 s!"ok/{showC c} q={showQ q}"
      | r => withDigest d1 s!"{showRes r} q={showQ q}"
    | ["slot", s] =>
      match s.toNat? with
      | some sl =>
        let (d1, res, refreshed, q) := doSlot d sl
        withDigest (noteHeld d1 res) s!"{showRes res} r={b2s refreshed} q={showQ q}"
      | none => (d, "bad-op")
    | ["refresh", s] =>
      -- the slot subscriber of app/app.go: skip unless first slot of the epoch / first refresh / last refresh fell
      -- back to head; Trim; GetBySlot(this slot, or the epoch's first slot after a fallback)
      match s.toNat? with
      | some sl =>
        if sl % slotsPerEpoch != 0 && !d.firstRefresh && d.rbs then withDigest d "skip" else
        let f := if !d.rbs then (sl / slotsPerEpoch) * slotsPerEpoch else sl
        let d0 := { d with st := (CharonV.ValCache.step d.cfg d.st .trim).1 }
        let (d1, res, refreshed, q) := doSlot d0 f
        let d2 := noteHeld d1 res
        let d3 := match res with
          | .ok _ _ => { d2 with rbs := refreshed, firstRefresh := false }
          | .err _ => d2
        withDigest d3 s!"f={f} {showRes res} r={b2s refreshed} q={showQ q}"
      | none => (d, "bad-op")
    | "mut" :: rest =>
      let m : Option Mut := match rest with
        | ["adel", i] => i.toNat?.map .adel
        | ["aadd", i, p] => match i.toNat?, p.toNat? with
          | some i, some p => some (.aadd i p)
          | _, _ => none
        | ["cstat", k, sn] => match k.toNat?, statusCode? sn with
          | some k, some st => some (.cstat k st)
          | _, _ => none
        | ["cdel", k] => k.toNat?.map .cdel
        | _ => none
      match m with
      | none => (d, "bad-op")
      | some m =>
        if !d.held || (!m.onActive && d.heldCNil) then withDigest d "nohandle"
        else withDigest { d with st := (CharonV.ValCache.step d.cfg d.st (.mutate m)).1 } "ok"
    | ["sched", s] =>
      match s.toNat? with
      | some sl =>
        if sl % slotsPerEpoch == slotsPerEpoch - 1 then (d, "bad-op") else
        if !stackReady d then withDigest d "V[] q=-" else
        let (d1, res, q) := doHead d false
        match res with
        | .ok _ c =>
          let vs := (resolveActive (sl / slotsPerEpoch) c).getD []
          let body := Driver.joinWith "," ((sortBy (·.1) vs).map (fun p => s!"{p.1}:{p.2}"))
          withDigest d1 s!"V[{body}] q={showQ q}"
        | .err _ => withDigest d1 s!"V[] q={showQ q}"
      | none => (d, "bad-op")
    | ["race", kind, a, b, o, sn] =>
      match kv? "a=" a, kv? "b=" b, kv? "o=" o, kv? "s=" sn with
      | some oa, some ob, some oo, some os =>
        if kind == "hh" then doRace d [.r1, .r2, .fin] oa ob oo os
        else if kind == "ht" then doRace d [.trim] oa ob oo os
        else match kv? "hs:" kind with
          | some s => match s.toNat? with
            | some sl => doRace d [.slot sl] oa ob oo os
            | none => (d, "bad-op")
          | none => (d, "bad-op")
      | _, _, _, _ => (d, "bad-op")
    | _ => (d, "bad-op")

end Driver.ValCache

def main (args : List String) : IO Unit :=
  Driver.runLoop Driver.ValCache.step { cfg := if args.contains "fixed" then Cfg.fixed else Cfg.current }
