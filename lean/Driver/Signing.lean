import CharonV.Model.Signing
import Driver.Common

/-!
Line driver for `CharonV.Model.Signing` (stream `signing`). Op syntax (see
`harness/cmd/drive-signing/main.go`); the model reads the whole line:

  cfg client=<mock|adapter> net=<hex4> gvr=<hex32> cap=<none|x|hex4> sched=<prev.cur.epoch,…|-> spec=<nameIdx:hex4|nameIdx:x,…>
  get <nameIdx> <epoch> <objectRoot hex32>      →  <domain hex | err> <data root hex | err>
-/

open CharonV.Signing
open CharonV.Ssz (Bytes)

namespace Driver.Signing

def hexVal (c : Char) : Option Nat :=
  if '0' ≤ c ∧ c ≤ '9' then some (c.toNat - 48)
  else if 'a' ≤ c ∧ c ≤ 'f' then some (c.toNat - 87)
  else if 'A' ≤ c ∧ c ≤ 'F' then some (c.toNat - 55) else none

def unhexChars : List Char → Option Bytes
  | [] => some []
  | [_] => none
  | a :: b :: r => do
    let x ← hexVal a
    let y ← hexVal b
    let rest ← unhexChars r
    pure (UInt8.ofNat (16 * x + y) :: rest)

def unhex (s : String) : Option Bytes := unhexChars s.toList

def hexDigit (n : Nat) : Char := if n < 10 then Char.ofNat (48 + n) else Char.ofNat (87 + n)

def hexOf (b : Bytes) : String :=
  String.ofList (b.flatMap fun x => [hexDigit (x.toNat / 16), hexDigit (x.toNat % 16)])

structure DState where
  chain : Chain := { schedule := [], gvr := [], spec := fun _ => none, capella := none }

def kv (tok key : String) : Option String :=
  if tok.startsWith (key ++ "=") then some ((tok.drop (key.length + 1)).toString) else none

def parseFork (s : String) : Option Fork :=
  match s.splitOn "." with
  | [a, b, c] => do pure ⟨← unhex a, ← unhex b, ← c.toNat?⟩
  | _ => none

def parseSpec (s : String) : Option (List (Nat × Option Bytes)) :=
  (s.splitOn ",").mapM fun t =>
    match t.splitOn ":" with
    | [a, b] => do
      let i ← a.toNat?
      if b == "x" then pure (i, none) else pure (i, some (← unhex b))
    | _ => none

def doCfg (toks : List String) : Option DState :=
  match toks with
  | [_, net, gvr, cap, sched, spec] => do
    let _ ← kv net "net"
    let gvr ← kv gvr "gvr" >>= unhex
    let cap ← kv cap "cap"
    let capella ← (if cap == "none" then some none else if cap == "x" then some (some none)
                   else (unhex cap).map (fun b => some (some b)))
    let sched ← kv sched "sched"
    let forks ← (if sched == "-" then some [] else (sched.splitOn ",").mapM parseFork)
    let spec ← kv spec "spec" >>= parseSpec
    let specFn : DomainName → Option Bytes := fun n =>
      match DomainName.all.findIdx? (· == n) with
      | some i => ((spec.find? (·.1 = i)).map (·.2)).join
      | none => none
    pure { chain := { schedule := forks, gvr := gvr, spec := specFn, capella := capella } }
  | _ => none

def doGet (d : DState) (toks : List String) : Option String :=
  match toks with
  | [n, e, r] => do
    let name ← n.toNat? >>= (DomainName.all[·]?)
    let e ← e.toNat?
    let r ← unhex r
    let dom := match getDomain sha2 d.chain name e with | some c => hexOf c.bytes | none => "err"
    let dr := match getDataRoot sha2 d.chain name e r with | some c => hexOf c.bytes | none => "err"
    pure (dom ++ " " ++ dr)
  | _ => none

def step (d : DState) (line : String) : DState × String :=
  let toks := (line.splitOn " ").filter (· ≠ "")
  match toks with
  | "cfg" :: rest => match doCfg rest with
    | some d' => (d', "ok")
    | none => (d, "bad-op")
  | "get" :: rest => (d, (doGet d rest).getD "bad-op")
  | _ => (d, "bad-op")

end Driver.Signing

def main : IO Unit := Driver.runLoop Driver.Signing.step {}
