/-
Line driver for the C14 model (`drv-sszwrap`). One op per line, one output line per op; see
`harness/cmd/drive-codec/main.go` for the grammar. Lines starting with `x ` are exploration ops
(executed on the real code only): the model answers `x`.
-/
import CharonV.Model.SszWrap
import Driver.Common

open CharonV.SszWrap

namespace Driver.SszWrap

def hexDigit (c : Char) : Option Nat :=
  if '0' ≤ c ∧ c ≤ '9' then some (c.toNat - '0'.toNat)
  else if 'a' ≤ c ∧ c ≤ 'f' then some (c.toNat - 'a'.toNat + 10)
  else none

def unhexAux : List Char → List UInt8 → Option (List UInt8)
  | [], acc => some acc.reverse
  | [_], _ => none
  | a :: b :: r, acc =>
    match hexDigit a, hexDigit b with
    | some x, some y => unhexAux r (UInt8.ofNat (x * 16 + y) :: acc)
    | _, _ => none

/-- `-` is the empty byte string. -/
def unhex (s : String) : Option Bytes :=
  if s == "-" then some [] else unhexAux s.toList []

def hexChar (n : Nat) : Char := if n < 10 then Char.ofNat (48 + n) else Char.ofNat (87 + n)

def hex (b : Bytes) : String :=
  if b.isEmpty then "-" else
  String.ofList (b.foldr (fun x acc => hexChar (x.toNat / 16) :: hexChar (x.toNat % 16) :: acc) [])

def modeErr : String → Option (Option IErr)
  | "ok" => some none
  | "eoff" => some (some .offset)
  | "esize" => some (some .size)
  | "eother" => some (some .other)
  | _ => none

def ierrStr : IErr → String
  | .offset => "eoff" | .size => "esize" | .other => "eother"

def werrStr : WErr → String
  | .size => "size" | .version => "version" | .offset => "offset" | .inner e => "inner:" ++ ierrStr e

/-- class only (real types: the inner error text is not compared) -/
def werrClass : WErr → String
  | .size => "size" | .version => "version" | .offset => "offset" | .inner _ => "inner"

def b01 (b : Bool) : String := if b then "1" else "0"

/-- scripted inner codec: payload type `Bytes`, decoder result fixed by `mode` -/
def scriptB (m : Option IErr) : CodecB Bytes :=
  ⟨fun _ _ b => b, fun _ _ b => match m with | none => .ok b | some e => .error e⟩
def script (m : Option IErr) : Codec Bytes :=
  ⟨fun _ b => b, fun _ b => match m with | none => .ok b | some e => .error e⟩

/-- oracle codec for real types: the decoder's verdict for the suffix it is handed. -/
def oracleB (m : Option IErr) : CodecB Unit :=
  ⟨fun _ _ _ => [], fun _ _ _ => match m with | none => .ok () | some e => .error e⟩
def oracle (m : Option IErr) : Codec Unit :=
  ⟨fun _ _ => [], fun _ _ => match m with | none => .ok () | some e => .error e⟩
/-- two verdicts: for the suffix at offset 20 (first attempt) and for any other suffix. -/
def oracle2 (len : Nat) (m20 mO : Option IErr) : Codec Unit :=
  ⟨fun _ _ => [], fun _ b =>
    match (if b.length + 20 = len then m20 else mO) with | none => .ok () | some e => .error e⟩

def cls (s : String) : Option (Option IErr) := if s == "-" then some (some .other) else modeErr s

def insertSorted (x : String) : List String → List String
  | [] => [x]
  | y :: ys => if x < y then x :: y :: ys else y :: insertSorted x ys

def sortStrs (xs : List String) : List String := xs.foldr insertSorted []

/-- parse `n` triples / pairs of tokens -/
def triples : List String → Option (List (String × (String × String)))
  | [] => some []
  | a :: b :: c :: r => (triples r).map (fun t => (a, (b, c)) :: t)
  | _ => none
def pairs : List String → Option (List (String × String))
  | [] => some []
  | a :: b :: r => (pairs r).map (fun t => (a, b) :: t)
  | _ => none

def setOut (m : Option (AMap String String)) : String :=
  match m with
  | none => "err"
  | some m => "[" ++ Driver.joinWith ";" (sortStrs (m.map (fun e => e.1 ++ "=" ++ e.2))) ++ "]"

def stepLine (line : String) : String :=
  if line.startsWith "x " then "x" else
  match line.splitOn " " with
  -- scripted inner: marshal
  | ["mb", v, b, inner] =>
    match v.toNat?, unhex inner with
    | some vn, some ib =>
      match Ver.ofNat? vn with
      | some ver => hex (marshalBlinded (scriptB none) ⟨ver, b == "1", ib⟩)
      | none => "err"
    | _, _ => "bad-op"
  | ["mv", v, inner] =>
    match v.toNat?, unhex inner with
    | some vn, some ib =>
      match Ver.ofNat? vn with
      | some ver => hex (marshalVersioned (script none) ⟨ver, ib⟩)
      | none => "err"
    | _, _ => "bad-op"
  | ["mi", v, i, inner] =>
    match v.toNat?, i.toNat?, unhex inner with
    | some vn, some idx, some ib =>
      match Ver.ofNat? vn with
      | some ver => hex (marshalValIdx (script none) ⟨ver, idx, ib⟩)
      | none => "err"
    | _, _, _ => "bad-op"
  -- scripted inner: unmarshal
  | ["ub", h, mode] =>
    match unhex h, modeErr mode with
    | some buf, some m =>
      match unmarshalBlinded (scriptB m) buf with
      | .ok r => s!"ok {r.ver.toNat} {b01 r.blinded} {hex r.val}"
      | .error e => "err " ++ werrStr e
    | _, _ => "bad-op"
  | ["uv", h, mode] =>
    match unhex h, modeErr mode with
    | some buf, some m =>
      match unmarshalVersioned (script m) buf with
      | .ok r => s!"ok {r.ver.toNat} {hex r.val}"
      | .error e => "err " ++ werrStr e
    | _, _ => "bad-op"
  | ["ui", h, mode] =>
    match unhex h, modeErr mode with
    | some buf, some m =>
      match unmarshalValIdx (script m) buf with
      | .ok r => s!"ok {r.ver.toNat} {r.idx} {hex r.val}"
      | .error e => "err " ++ werrStr e
    | _, _ => "bad-op"
  -- real types: marshal (inner object bytes opaque)
  | ["tm", t, v, flag, inner] =>
    match v.toNat?, unhex inner with
    | some vn, some ib =>
      match Ver.ofNat? vn with
      | none => "err"
      | some ver =>
        if t == "VSP" || t == "VP" then hex (marshalBlinded (scriptB none) ⟨ver, flag == "1", ib⟩)
        else if t == "VSAP" || t == "VAA" then hex (marshalVersioned (script none) ⟨ver, ib⟩)
        else if t == "VA" then
          if flag == "n" then hex (marshalAtt (script none) ⟨ver, none, ib⟩)
          else match flag.toNat? with
            | some i => hex (marshalAtt (script none) ⟨ver, some i, ib⟩)
            | none => "bad-op"
        else "bad-op"
    | _, _ => "bad-op"
  -- real types: unmarshal (inner decoder verdicts supplied as oracle)
  | ["tu", t, h, c1] =>
    match unhex h, cls c1 with
    | some buf, some m =>
      if t == "VSP" || t == "VP" then
        match unmarshalBlinded (oracleB m) buf with
        | .ok r => s!"ok {r.ver.toNat} {b01 r.blinded}"
        | .error e => "err " ++ werrClass e
      else if t == "VSAP" || t == "VAA" then
        match unmarshalVersioned (oracle m) buf with
        | .ok r => s!"ok {r.ver.toNat}"
        | .error e => "err " ++ werrClass e
      else "bad-op"
    | _, _ => "bad-op"
  | ["tu", "VA", h, c20, cO] =>
    match unhex h, cls c20, cls cO with
    | some buf, some m20, some mO =>
      match unmarshalAtt (oracle2 buf.length m20 mO) buf with
      | .ok r => s!"ok {r.ver.toNat} " ++ (match r.idx with | none => "n" | some i => toString i)
      | .error (.idx e) => "err idx " ++ werrClass e
      | .error (.noidx e) => "err noidx " ++ werrClass e
    | _, _, _ => "bad-op"
  -- AttestationData
  | ["am", d, pk, s, vi, ci, cl, cs, vci] =>
    match unhex d, unhex pk, s.toNat?, vi.toNat?, ci.toNat?, cl.toNat?, cs.toNat?, vci.toNat? with
    | some db, some pkb, some s, some vi, some ci, some cl, some cs, some vci =>
      hex (marshalAttData (⟨fun b => b, fun b => .ok b⟩ : CodecD Bytes) ⟨db, ⟨pkb, s, vi, ci, cl, cs, vci⟩⟩)
    | _, _, _, _, _, _, _, _ => "bad-op"
  | ["au", h, c1] =>
    match unhex h, cls c1 with
    | some buf, some m =>
      let c : CodecD Unit := ⟨fun _ => [], fun _ => match m with | none => .ok () | some e => .error e⟩
      match unmarshalAttData c buf with
      | .ok r =>
        let d := r.duty
        s!"ok {hex d.pubkey} {d.slot} {d.validatorIndex} {d.committeeIndex} {d.committeeLength} {d.committeesAtSlot} {d.validatorCommitteeIndex}"
      | .error .size => "err size"
      | .error .offset0 => "err offset0"
      | .error .offset1 => "err offset1"
      | .error (.data _) => "err data"
      | .error .duty => "err duty"
    | _, _ => "bad-op"
  -- marshal / unmarshal decision logic
  | ["fb", probe, sszmode, h] =>
    match unhex h with
    | some data =>
      let e : Enc Unit := ⟨probe == "s", fun _ => [], fun _ => if sszmode == "ok" then some () else none,
                           fun _ => [], fun _ => some ()⟩
      match unmarshal e data with
      | .sszOk _ => "ssz-ok"
      | .sszErr => "ssz-err"
      | .jsonOk _ | .jsonErr => "json"
    | none => "bad-op"
  | ["mf", probe, en] =>
    let e : Enc Unit := ⟨probe == "s", fun _ => [1], fun _ => none, fun _ => [2], fun _ => none⟩
    if marshal e (en == "1") () == [1] then "ssz" else "json"
  -- set encoders: entries in op order (any order yields the same canonical output)
  | "ps" :: _duty :: rest =>
    match triples rest with
    | some es =>
      let entries : List (String × String) := es.map (fun e => (e.1, e.2.1 ++ ":" ++ e.2.2))
      let enc := encodeSet (fun (v : String) => some v) entries
      let dec := match enc with | none => none | some E => decodeSet (fun (v : String) => some v) E
      setOut enc ++ " | " ++ setOut dec
    | none => "bad-op"
  | "us" :: _duty :: rest =>
    match pairs rest with
    | some es =>
      let enc := encodeSet (fun (v : String) => some v) es
      let dec := match enc with | none => none | some E => decodeSet (fun (v : String) => some v) E
      setOut enc ++ " | " ++ setOut dec
    | none => "bad-op"
  | _ => "bad-op"

def step (_ : Unit) (line : String) : Unit × String := ((), stepLine line)

end Driver.SszWrap

def main : IO Unit := Driver.runLoop Driver.SszWrap.step ()
