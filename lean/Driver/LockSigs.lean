import CharonV.Model.LockSigs
import Driver.Common

/-!
Line driver for `CharonV.Model.LockSigs` (stream `locksigs`). Op syntax: see `harness/cmd/drive-locksigs/main.go`.
Every line is the abstract description of one definition / lock; the model decides `VerifySignatures` and `VerifyHashes`
from it. Hash values are strings here: the canonical rendering of what the hash reads (injective by construction),
`O:<k>` for unrelated bytes number k.
-/

open CharonV.LockSigs

namespace Driver.LockSigs

abbrev H := String

def kvs (toks : List String) : List (String × String) :=
  toks.filterMap fun t =>
    match t.splitOn "=" with
    | k :: v :: rest => some (k, "=".intercalate (v :: rest))
    | _ => none

def look (m : List (String × String)) (k : String) : Option String := (m.find? (·.1 == k)).map (·.2)

def numAfter (s : String) (n : Nat) : Option Nat := (s.drop n).toString.toNat?

def parseAddr (s : String) : Option Addr :=
  if s == "-" then some .empty
  else if s.startsWith "k" then (numAfter s 1).map .key
  else none

/-- ENR token → (id of the string, key inside the record) -/
def parseEnr (s : String) : Option (Nat × Option Key) :=
  if s.startsWith "p" then (numAfter s 1).map fun n => (2 * n, some n)
  else if s.startsWith "x" then (numAfter s 1).map fun n => (2 * n + 1, none)
  else none

/-- a hash context: what `h`, `s`, `n<c>` mean -/
structure Ctx where
  recomputed : Nat → H       -- hash of this artifact with content id c
  content : Nat
  stored : Option H

def Ctx.resolve (c : Ctx) (href : String) : Option H :=
  if href == "h" then some (c.recomputed c.content)
  else if href == "s" then c.stored
  else if href.startsWith "n" then (numAfter href 1).map c.recomputed
  else if href.startsWith "o" then some ("O:" ++ (href.drop 1).toString)
  else none

def parseDigest (cfg : Ctx) (lck : Option Ctx) (s : String) : Option (Digest H) :=
  match s.splitOn "." with
  | ["oc", ch, r] => do pure (.opCfg (← ch.toNat?) (← cfg.resolve r))
  | ["lc", ch, r] => do pure (.legacyCfg (← ch.toNat?) (← cfg.resolve r))
  | ["cc", ch, r] => do pure (.creatorCfg (← ch.toNat?) (← cfg.resolve r))
  | ["en", ch, e] => do pure (.enr (← ch.toNat?) (← parseEnr e).1)
  | ["tc", ch] => do pure (.terms (← ch.toNat?))
  | ["rc", r] => do pure (.raw (← cfg.resolve r))
  | ["rl", r] => do pure (.raw (← (← lck).resolve r))
  | _ => none

def parseSig (cfg : Ctx) (lck : Option Ctx) (s : String) : Option (Sig H) :=
  if s == "-" then some .empty
  else if s.startsWith "b" then (numAfter s 1).map .bytes
  else if s.startsWith "g" || s.startsWith "G" then
    match (s.drop 1).toString.splitOn ":" with
    | [k, d] => do pure (.good (← k.toNat?) (← parseDigest cfg lck d))
    | _ => none
  else none

def parseBKey (s : String) : Option (Option BKey) :=
  if s == "x" then some none
  else if s.startsWith "S" then
    match (s.drop 1).toString.splitOn "." with
    | [p, i] => do pure (some (.share (← p.toNat?) (← i.toNat?)))
    | _ => none
  else if s.startsWith "R" then (numAfter s 1).map fun p => some (.root p)
  else if s.startsWith "F" then (numAfter s 1).map fun n => some (.free n)
  else none

def showBKey : BKey → String
  | .share p i => s!"S{p}.{i}"
  | .root p => s!"R{p}"
  | .free n => s!"F{n}"

def splitList (s : String) (sep : String) : List String := if s == "-" then [] else s.splitOn sep

/-- The symbolic hash functions: the rendering of what is read. -/
def hashes : Hashes H where
  cfg := fun v c ch nv t as a => "C:" ++ reprStr (v, c, ch, nv, t, as, a)
  dfn := fun d => "D:" ++ reprStr d
  lck := fun d vs => "L:" ++ reprStr d ++ reprStr vs

def zDummy : H := ""

/-- `tbls.RecoverPubkey` on shares of polynomials of degree `deg - 1`: the group key if all entries are shares of one
polynomial at their own index and there are at least `deg` of them, otherwise a key equal to nothing (`F0`). -/
def recoverSym (deg : Nat) (l : List (Nat × BKey)) : BKey :=
  match l with
  | (_, .share p _) :: _ =>
    if l.all (fun (i, k) => k == .share p i) && decide (l.length ≥ deg) then .root p else .free 0
  | _ => .free 0

def parseEth1 (s : String) : Option (Option (Eth1 H)) :=
  if s == "nil" then some none
  else if s == "yes" then some (some ⟨fun _ _ _ => .yes⟩)
  else if s == "no" then some (some ⟨fun _ _ _ => .no⟩)
  else if s == "noeng" then some (some ⟨fun _ _ _ => .noEngine⟩)
  else if s == "fail" then some (some ⟨fun _ _ _ => .fail⟩)
  else none

def vrStr : VR → String
  | .ok => "ok" | .bad => "bad" | .addrErr => "addr-err" | .recErr => "rec-err" | .ercErr => "erc-err"

def defErrStr : DefErr → String
  | .oldSigs => "old-sigs"
  | .creatorLen => "sig-len"
  | .chain => "chain"
  | .emptyEnrSig => "empty-enr-sig"
  | .emptyCfgSig => "empty-cfg-sig"
  | .opLen => "sig-len"
  | .sigErr _ r => vrStr r
  | .invalid .opCfg => "invalid-op-cfg"
  | .invalid .opEnr => "invalid-op-enr"
  | .invalid .creator => "invalid-creator"
  | .someSigned => "some-signed"
  | .creatorOld => "creator-old"
  | .opsSignedCreatorNot => "ops-signed-creator-not"
  | .creatorEmpty => "creator-empty"

def defResStr : DefRes → String
  | .ok => "ok"
  | .err e => defErrStr e

def lockErrStr : LockErr → String
  | .defn e => "def:" ++ defErrStr e
  | .emptyAgg => "empty-agg"
  | .aggBytes => "bytes-len"
  | .shareCount => "share-count"
  | .pubkeyBytes => "bytes-len"
  | .dupDvKey => "dup-dvkey"
  | .shareBytes => "share-bytes"
  | .dupShare => "dup-share"
  | .threshold => "threshold"
  | .reconstruct => "reconstruct"
  | .extraShare => "extra-share"
  | .aggInvalid => "agg"
  | .regUnexpected => "reg-unexpected"
  | .regMissing => "reg-missing"
  | .regPanic => "panic"
  | .regNoAddr => "reg-no-addr"
  | .regInvalid => "reg-invalid"
  | .nsUnexpected => "ns-unexpected"
  | .nsCount => "ns-count"
  | .enrParse => "enr-parse"
  | .nsErr => "ns-err"
  | .nsInvalid => "ns-invalid"

def lockResStr : LockRes → String
  | .ok => "ok"
  | .err e => lockErrStr e

def hashResStr : HashRes → String
  | .ok => "ok" | .cfg => "cfg" | .dfn => "dfn" | .count => "count" | .lock => "lock"

def parseRef (c : Ctx) (s : String) : Option H := if s == "s" then none else c.resolve s

/-- the definition of a `def` / `lock` line, and its config-hash context -/
def buildDef (m : List (String × String)) : Option (Definition H × Ctx × Option (Eth1 H)) := do
  let v ← (← look m "v").toNat?
  let nm ← (← look m "nm").toNat?
  let chS ← look m "ch"
  let ch ← (if chS == "x" then some none else chS.toNat?.map some)
  let nv ← (← look m "nv").toNat?
  let th ← (← look m "th").toNat?
  let e1 ← parseEth1 (← look m "e1")
  let (crA, crS) ← (match (← look m "cr").splitOn "/" with
    | [a, s] => some (a, s)
    | _ => none)
  let crAddr ← parseAddr crA
  let opToks ← (splitList (← look m "ops") "|").mapM fun o =>
    match o.splitOn "," with
    | [a, e, c, s] => some (a, e, c, s)
    | _ => none
  let opHeads ← opToks.mapM fun (a, e, _, _) => do
    let addr ← parseAddr a
    let (eid, ek) ← parseEnr e
    pure (addr, eid, ek)
  let cfgRe : Nat → H := fun c => hashes.cfg v c ch nv th (opHeads.map (·.1)) crAddr
  let cfg0 : Ctx := { recomputed := cfgRe, content := nm, stored := none }
  let storedCfg ← parseRef cfg0 (← look m "cfg")
  let cfg : Ctx := { cfg0 with stored := some storedCfg }
  let ops ← (opToks.zip opHeads).mapM fun ((_, _, c, s), (addr, eid, ek)) => do
    let cs ← parseSig cfg none c
    let es ← parseSig cfg none s
    pure ({ addr := addr, enr := eid, enrKey := ek, cfgSig := cs, enrSig := es } : Operator H)
  let crSig ← parseSig cfg none crS
  let cr : Creator H := { addr := crAddr, cfgSig := crSig }
  let d0 : Definition H := { ver := v, content := nm, chain := ch, numVals := nv, threshold := th, ops := ops, creator := cr, cfgHash := storedCfg, defHash := zDummy, numAddrs := nv }
  let dhRe : Nat → H := fun c =>
    let d' : Definition H := { d0 with content := c }
    defHashOf hashes zDummy d'
  let dhCtx : Ctx := { recomputed := dhRe, content := nm, stored := none }
  let dhS ← look m "dh"
  let storedDh ← (if dhS == "-" then some zDummy else parseRef dhCtx dhS)
  pure ({ d0 with defHash := storedDh }, cfg, e1)

def doDef (m : List (String × String)) : Option String := do
  let (d, _, e1) ← buildDef m
  let hs := if look m "dh" == some "-" then "-" else hashResStr (verifyDefHashes hashes zDummy d)
  pure (defResStr (verifyDef e1 d) ++ " " ++ hs)

def parseReg (s : String) : Option Reg :=
  if s == "-" then some .absent else if s == "ok" then some .valid else if s == "bad" then some .invalid else none

def doLock (m : List (String × String)) : Option String := do
  let (d, cfg, e1) ← buildDef m
  let deg ← (← look m "deg").toNat?
  let vals ← (splitList (← look m "vals") "|").mapM fun v =>
    match v.splitOn "~" with
    | [pk, sh, reg] => do
      let pk ← parseBKey pk
      let shares ← (splitList sh "+").mapM parseBKey
      pure ({ pubKey := pk, shares := shares, reg := (← parseReg reg) } : Validator)
    | _ => none
  let l0 : Lock H := { defn := d, vals := vals, lockHash := zDummy, agg := .bytes 0, nodeSigs := [] }
  let lhRe : Nat → H := fun c =>
    let d' : Definition H := { d with content := c }
    let l' : Lock H := { l0 with defn := d' }
    lockHashOf hashes zDummy l'
  let lck0 : Ctx := { recomputed := lhRe, content := d.content, stored := none }
  let storedLh ← parseRef lck0 (← look m "lh")
  let lck : Ctx := { lck0 with stored := some storedLh }
  let aggS ← look m "agg"
  let agg ← (if aggS == "-" then some (Agg.bytes 0)
    else if aggS.startsWith "b" then (numAfter aggS 1).map Agg.bytes
    else if aggS.startsWith "A" then
      match (aggS.drop 1).toString.splitOn ":" with
      | [r, ks] => do
        let msg ← lck.resolve r
        let keys ← ((if ks == "" then [] else ks.splitOn "+").mapM parseBKey)
        let keys ← keys.mapM id
        pure (Agg.agg keys msg)
      | _ => none
    else none)
  let ns ← (splitList (← look m "ns") ",").mapM (parseSig cfg (some lck))
  let l : Lock H := { l0 with lockHash := storedLh, agg := agg, nodeSigs := ns }
  pure (lockResStr (verifyLock e1 hashes zDummy (recoverSym deg) l) ++ " " ++ hashResStr (verifyLockHashes hashes zDummy l))

def boolStr (b : Bool) : String := if b then "true" else "false"

def doDV (m : List (String × String)) : Option String := do
  let i ← (← look m "i").toNat?
  let shares ← (splitList (← look m "shares") "+").mapM parseBKey
  let r ← (match (← look m "reg").splitOn "," with
    | [a, b, c, d, e] => do
      pure ({ sigLen := ← a.toNat?, pkLen := ← b.toNat?, feeLen := ← c.toNat?, gas := ← d.toNat?, tsZero := (← e.toNat?) != 0 } : RegForm)
    | _ => none)
  let v : Validator := { pubKey := none, shares := shares, reg := .absent }
  let sh := match publicShare v i with
    | some k => showBKey k
    | none => "none"
  pure s!"share={sh} zero={boolStr (zeroRegistration r)} eth2={boolStr (eth2RegistrationOk r)} noreg={boolStr (noRegistration r)}"

def step (_ : Unit) (line : String) : Unit × String :=
  let toks := ((line.splitOn " ").filter (· ≠ "")).filter (fun t => !t.startsWith "#")
  match toks with
  | "def" :: rest => ((), (doDef (kvs rest)).getD "bad-op")
  | "lock" :: rest => ((), (doLock (kvs rest)).getD "bad-op")
  | "dv" :: rest => ((), (doDV (kvs rest)).getD "bad-op")
  | _ => ((), "bad-op")

end Driver.LockSigs

def main : IO Unit := Driver.runLoop Driver.LockSigs.step ()
