import CharonV.Model.Cluster
import Driver.Common

/-!
Line driver for the cluster pipeline model (C01).

ops:
  cfg <n> <byzMask>          new cluster; member i is Byzantine iff bit i of byzMask is set;
                             root v = v (the harness interns signing roots as the value ids)
  decide <i> <v>             consensus decision of member i stored in its duty store
  sign <i>                   member i's validator client signs what its duty store serves
  deliver <j> <k> <r>        partial (share k, root r) arrives at member j
output: <result class> [emitted roots of this op]
-/

open CharonV.Cluster

namespace Driver.ClusterSim

structure DState where
  c : Cfg := { n := 0, byz := fun _ => false, root := fun v => v }
  s : State := init

def showRes : Res → String
  | .ok => "ok" | .dup => "dup" | .clash => "clash" | .refused => "refused" | .noop => "noop"

def render (r : Res) (em : List Nat) : String :=
  showRes r ++ " [" ++ Driver.joinWith "," (em.map toString) ++ "]"

def stepLine (st : DState) (line : String) : DState × String :=
  match line.splitOn " " with
  | ["cfg", a, b] =>
    match a.toNat?, b.toNat? with
    | some n, some mask =>
      ({ c := { n := n, byz := fun i => (mask >>> i) % 2 == 1, root := fun v => v }, s := init }, "ok")
    | _, _ => (st, "bad-op")
  | ["decide", a, b] =>
    match a.toNat?, b.toNat? with
    | some i, some v =>
      let r := step st.c st.s (.decide i v)
      ({ st with s := r.1 }, render r.2.1 r.2.2)
    | _, _ => (st, "bad-op")
  | ["sign", a] =>
    match a.toNat? with
    | some i =>
      let r := step st.c st.s (.sign i)
      ({ st with s := r.1 }, render r.2.1 r.2.2)
    | none => (st, "bad-op")
  | ["deliver", a, b, c] =>
    match a.toNat?, b.toNat?, c.toNat? with
    | some j, some k, some r0 =>
      let r := step st.c st.s (.deliver j k r0)
      ({ st with s := r.1 }, render r.2.1 r.2.2)
    | _, _, _ => (st, "bad-op")
  | _ => (st, "bad-op")

end Driver.ClusterSim

def main : IO Unit := Driver.runLoop Driver.ClusterSim.stepLine {}
