import CharonV.Model.SigAgg
import Driver.Common

/-!
Line driver for the C09 model (`CharonV.Model.SigAgg`). Op syntax: see
`harness/cmd/drive-sigagg/main.go`. The model reads only what follows ` | `:

  cfg … | <threshold> <groupkeys>          groupkeys := v.key,v.x,…   (x: the map key is no public key)
  agg … | <nsub> <failAt|-> <obs> <facts|-> <combs|-> <set|->
          obs   := the error class the implementation returned (Go's iteration order over the
                   validator map is an oracle: the driver answers with `obs` iff some order yields it)
          facts := key.dom.epoch.root.sig,…        (tuples on which tbls.Verify said yes)
          combs := idx.sig+idx.sig+…=sig|x,…      (tbls.ThresholdAggregate of the map, sorted by index)
          set   := v=par/par/…;v=…                  par := idx,sigLenOk,isAtt,hasValIdx,setOk,obj
          obj   := id:ty:epoch|x:root|x:sig

Answer: `<class> <calls|->`, call := s<sub>:{v=contentId/sigId,…} (sorted by v).
-/

open CharonV.Admit (Obj VerifyFn Validator Key Sig ShareIdx SigType Domain)
open CharonV.SigAgg

namespace Driver.SigAgg

structure DState where
  thr : Nat := 1
  gks : List (Validator × Option Key) := []

def optNat (s : String) : Option (Option Nat) :=
  if s == "x" || s == "-" then some none else s.toNat?.map some

def parseBool (s : String) : Option Bool :=
  if s == "1" then some true else if s == "0" then some false else none

def sigTypes : List SigType :=
  [.proposal, .attestation, .exit, .registration, .randao, .bcSelection, .aggProof, .vAggProof,
   .syncMessage, .contribution, .syncSelection, .rawSig]

def domains : List Domain :=
  [.beaconProposer, .beaconAttester, .voluntaryExit, .applicationBuilder, .randao, .selectionProof,
   .aggregateAndProof, .syncCommittee, .contributionAndProof, .syncCommitteeSelectionProof]

def parseObj (s : String) : Option Obj :=
  match s.splitOn ":" with
  | [a, b, c, d, e] => do
    let id ← a.toNat?
    let ty ← b.toNat? >>= (sigTypes[·]?)
    let ep ← optNat c
    let rt ← optNat d
    let sg ← e.toNat?
    pure ⟨id, ty, ep, rt, sg⟩
  | _ => none

def parseList {α : Type} (sep : String) (f : String → Option α) (s : String) : Option (List α) :=
  if s == "-" then some [] else (s.splitOn sep).mapM f

def parsePar (s : String) : Option Par :=
  match s.splitOn "," with
  | [a, b, c, d, e, f] => do
    let idx ← a.toInt?
    let l ← parseBool b
    let ia ← parseBool c
    let hv ← parseBool d
    let so ← parseBool e
    let obj ← parseObj f
    pure ⟨obj, idx, l, ia, hv, so⟩
  | _ => none

def parseEntry (s : String) : Option (Validator × List Par) :=
  match s.splitOn "=" with
  | [a, b] => do
    let v ← a.toNat?
    let ps ← parseList "/" parsePar b
    pure (v, ps)
  | _ => none

def parseFact (s : String) : Option (Key × Nat × Nat × Nat × Sig) :=
  match (s.splitOn ".").mapM String.toNat? with
  | some [k, d, e, r, sg] => some (k, d, e, r, sg)
  | _ => none

def domIdx (d : Domain) : Nat := (domains.findIdx? (· == d)).getD 99

def verifyOf (facts : List (Key × Nat × Nat × Nat × Sig)) : VerifyFn :=
  fun k d e r s => facts.contains (k, domIdx d, e, r, s)

def parsePair (s : String) : Option (Int × Sig) :=
  match s.splitOn "." with
  | [a, b] => do pure ((← a.toInt?), (← b.toNat?))
  | _ => none

def parseComb (s : String) : Option (List (Int × Sig) × Option Sig) :=
  match s.splitOn "=" with
  | [a, b] => do
    let m ← parseList "+" parsePair a
    let r ← optNat b
    pure (m, r)
  | _ => none

def insertSorted (e : Int × Sig) : List (Int × Sig) → List (Int × Sig)
  | [] => [e]
  | x :: xs => if e.1 ≤ x.1 then e :: x :: xs else x :: insertSorted e xs

def sortIdx (m : List (Int × Sig)) : List (Int × Sig) := m.foldl (fun acc e => insertSorted e acc) []

/-- `tbls.ThresholdAggregate` as observed by the harness on the maps of this call (anything else: error). -/
def combineOf (tbl : List (List (Int × Sig) × Option Sig)) : CombineFn := fun m =>
  match tbl.find? (·.1 == sortIdx m) with
  | some (_, r) => r
  | none => none

def parseGk (s : String) : Option (Validator × Option Key) :=
  match s.splitOn "." with
  | [a, b] => do pure ((← a.toNat?), (← optNat b))
  | _ => none

def errStr : Err → String
  | .empty => "empty" | .tooFew => "toofew" | .sigBytes => "sigbytes" | .tooFewDistinct => "toofewdistinct"
  | .combine => "combine" | .setSig => "setsig" | .badKey => "badkey" | .notEth2 => "noteth2"
  | .objErr => "objerr" | .zeroSig => "zerosig" | .badSig => "badsig" | .subErr => "suberr"

def insV (e : Validator × Signed) : List (Validator × Signed) → List (Validator × Signed)
  | [] => [e]
  | x :: xs => if e.1 ≤ x.1 then e :: x :: xs else x :: insV e xs

def callStr (c : Call) : String :=
  let es := c.out.foldl (fun acc e => insV e acc) []
  s!"s{c.sub}:" ++ "{" ++ Driver.joinWith "," (es.map fun e => s!"{e.1}={e.2.content.id}/{e.2.sig}") ++ "}"

def render (r : Option Err × List Call) : String :=
  (match r.1 with | none => "ok" | some e => errStr e) ++ " " ++
    (if r.2.isEmpty then "-" else Driver.joinWith ";" (r.2.map callStr))

def perms {α : Type} : List α → List (List α)
  | [] => [[]]
  | x :: xs => (perms xs).flatMap fun p => (List.range (p.length + 1)).map fun i => p.take i ++ [x] ++ p.drop i

def doAgg (d : DState) (toks : List String) : Option String :=
  match toks with
  | [nsub, failAt, obs, facts, combs, set] => do
    let nsub ← nsub.toNat?
    let failAt ← optNat failAt
    let facts ← parseList "," parseFact facts
    let combs ← parseList "," parseComb combs
    let set ← parseList ";" parseEntry set
    let gkOf : Validator → Option Key := fun v => ((d.gks.find? (·.1 = v)).map (·.2)).join
    let run := fun (o : List (Validator × List Par)) =>
      aggregateAll d.thr (combineOf combs) (verifyOf facts) gkOf nsub (fun _ => o) failAt set
    let cands := if set.length ≤ 5 then perms set else [set]
    let results := cands.map run
    let cls := fun (r : Option Err × List Call) => match r.1 with | none => "ok" | some e => errStr e
    match results.find? (fun r => cls r == obs) with
    | some r => pure (render r)
    | none => pure (render (run set))
  | _ => none

def doCfg (toks : List String) : Option DState :=
  match toks with
  | [thr, gks] => do
    let thr ← thr.toNat?
    let gks ← parseList "," parseGk gks
    pure { thr := thr, gks := gks }
  | _ => none

def step (d : DState) (line : String) : DState × String :=
  match line.splitOn " | " with
  | [pre, abs] =>
    let toks := (abs.splitOn " ").filter (· ≠ "")
    match (pre.splitOn " ").head? with
    | some "cfg" => match doCfg toks with
      | some d' => (d', "ok")
      | none => (d, "bad-op")
    | some "agg" => (d, (doAgg d toks).getD "bad-op")
    | _ => (d, "bad-op")
  | _ => (d, "bad-op")

end Driver.SigAgg

def main : IO Unit := Driver.runLoop Driver.SigAgg.step {}
