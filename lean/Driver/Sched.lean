import CharonV.Model.SchedHead
import Driver.Common

/-!
Line driver for the scheduler model (C15). Ops (see `harness/cmd/drive-sched/main.go`):

  cfg <spe> <durMs> <startNs> <reorg 0|1> [<flags>]   new episode; flags: 1 FetchAttOnBlock,
                                              2 FetchAttOnBlockWithDelay, 4 fetch-only function not registered
  val <idx> <pk> <status> <actEpoch> | val <idx> nil | val <idx> del
  att <epoch> <item,..|->     item = vidx:pk:slot:tag | nil
  pro <epoch> <item,..|->     item = vidx:pk:slot     | nil
  syn <epoch> <item,..|->     item = vidx:pk:tag      | nil
  fail <v|a|p|s> <bits>       the next calls to that endpoint fail where the bit is 1
  adv <ns>                    advance the clock (the ticker is created at the first adv)
  reorg <epoch>               chain reorg event
  advl <ns>                   advance the clock; parked attester triggers that become due stay parked
  fire <slot>                 the parked attester trigger of the slot proceeds (if due)
  head <slot> <root> <addr>   SSE head event
  getdef <slot> <type>        GetDutyDefinition
  headrace <nval> <k>         head events racing with resolveDuties in a child process (always `ok`)
  probe <slot> <type> [<k>]   GetDutyDefinition is called from inside the (k+1)-th attester-duties call from now
-/
open CharonV.Sched

namespace Driver.Sched

structure Script where
  vals : List (Nat × Option Val) := []
  att  : List (Nat × List (Option AttDuty)) := []
  pro  : List (Nat × List (Option ProDuty)) := []
  syn  : List (Nat × List (Option SyncDuty)) := []
  failV : List Bool := []
  failA : List Bool := []
  failP : List Bool := []
  failS : List Bool := []

structure DState where
  cfg : Cfg := { spe := 1, slotDur := 1, reorgEnabled := false }
  hs : HSys := {}
  started : Bool := false
  sc : Script := {}
  probe : Option Duty := none
  probeSkip : Nat := 0

def failAt (bits : List Bool) (k base : Nat) : Bool := (bits[k - base]?).getD false

def lookupEp {α : Type} (m : List (Nat × List α)) (e : Nat) : List α :=
  match m.find? (fun p => p.1 == e) with
  | some p => p.2
  | none => []

def setEp {α : Type} (m : List (Nat × List α)) (e : Nat) (l : List α) : List (Nat × List α) :=
  (e, l) :: m.filter (fun p => p.1 != e)

/-- the scripted beacon node, for the calls made from the current counters on. -/
def bnOf (sc : Script) (st : State) : BN where
  vals k _ := if failAt sc.failV k st.nv then none else some (sc.vals.map (fun p => p.2))
  att k e _ := if failAt sc.failA k st.na then none else some (lookupEp sc.att e)
  pro k e _ := if failAt sc.failP k st.np then none else some (lookupEp sc.pro e)
  sync k e _ := if failAt sc.failS k st.ns then none else some (lookupEp sc.syn e)

def consume (sc : Script) (old new : State) : Script :=
  { sc with failV := sc.failV.drop (new.nv - old.nv), failA := sc.failA.drop (new.na - old.na),
            failP := sc.failP.drop (new.np - old.np), failS := sc.failS.drop (new.ns - old.ns) }

/-! rendering -/

def insSorted {α : Type} (lt : α → α → Bool) (x : α) : List α → List α
  | [] => [x]
  | y :: ys => if lt x y then x :: y :: ys else y :: insSorted lt x ys

def sortBy {α : Type} (lt : α → α → Bool) (l : List α) : List α := l.foldl (fun acc x => insSorted lt x acc) []

def defStr : Def → String
  | .att a => s!"a{a.vidx}.{a.pk}.{a.slot}.{a.tag}"
  | .pro p => s!"p{p.vidx}.{p.pk}.{p.slot}"
  | .sync d => s!"s{d.vidx}.{d.pk}.{d.tag}"

def trigStr (t : Trigger) : String :=
  let ds := sortBy (fun (a b : Nat × Def) => a.1 < b.1) t.defs
  s!"{t.duty.ty}@{t.nb}" ++ "{" ++ Driver.joinWith ";" (ds.map (fun p => s!"{p.1}={defStr p.2}")) ++ "}"

def tickStr (p : Nat × List Trigger) : String :=
  let ts := sortBy (fun (a b : Trigger) => a.duty.ty < b.duty.ty) p.2
  s!"t{p.1}[" ++ Driver.joinWith "," (ts.map trigStr) ++ "]"

def digest (cfg : Cfg) (h : HSys) : String :=
  let s := h.sys.st
  let re := if s.resolvedEpoch == maxInt64 then "-" else toString s.resolvedEpoch
  let pairs := s.duties.foldl (fun n p => n + p.2.length) 0
  let ne := s.dutiesByEpoch.foldl (fun n p => n + p.2.length) 0
  let base := s!"re={re} nd={s.duties.length}/{pairs} ne={ne}"
  if earlyFetchOn cfg then
    let lst (l : List Nat) : String :=
      if l.isEmpty then "-" else Driver.joinWith "," ((sortBy (fun (a b : Nat) => a < b) l).map toString)
    base ++ s!" ev={lst h.evt} pd={lst (h.pend.map (fun t => t.duty.slot))}"
  else base

def defsStr (ds : DefSet) : String :=
  let ds := sortBy (fun (a b : Nat × Def) => a.1 < b.1) ds
  "{" ++ Driver.joinWith ";" (ds.map (fun p => s!"{p.1}={defStr p.2}")) ++ "}"

def getDefStr : GetDef → String
  | .deprecated => "deprecated"
  | .unresolved => "unresolved"
  | .trimmed => "trimmed"
  | .notFound => "notfound"
  | .ok ds => "ok" ++ defsStr ds
  | .blocked => "blocked"

/-! the probe: which `resolveDuties` invocation of a slot makes attester-duties call number `k` -/

def scanResolve (bn : BN) (cfg : Cfg) (s : State) (slot' k : Nat) (d : Duty) : Option GetDef :=
  let s' := resolveDuties bn cfg s slot'
  if s.na == k && s'.na == k + 1 then some (probe cfg s s' slot' d) else none

def scanLoop (bn : BN) (cfg : Cfg) (slot k : Nat) (d : Duty) : List Nat → State → Option GetDef
  | [], _ => none
  | ty :: tys, s =>
    match AMap.get? s.duties ⟨slot, ty⟩ with
    | none => scanLoop bn cfg slot k d tys s
    | some _ =>
      if lastInEpoch cfg slot then
        match scanResolve bn cfg s (slot + 1) k d with
        | some r => some r
        | none => scanLoop bn cfg slot k d tys (resolveDuties bn cfg s (slot + 1))
      else scanLoop bn cfg slot k d tys s

def scanSlot (bn : BN) (cfg : Cfg) (s : State) (slot k : Nat) (d : Duty) : Option GetDef :=
  let pre := if s.resolvedEpoch ≠ slot / cfg.spe then scanResolve bn cfg s slot k d else none
  match pre with
  | some r => some r
  | none => scanLoop bn cfg slot k d allDutyTypes (preResolve bn cfg s slot)

def firedStr (t : Trigger) : String := s!"f{t.duty.slot}[{trigStr t}]"

/-- renders the outputs of a clock advance; returns the strings and whether the probe was consumed. -/
def outsStr (bn : BN) (cfg : Cfg) (k : Nat) (pr : Option Duty) : List Out → List String × Bool
  | [] => ([], false)
  | .fired ts :: rest =>
    let r := outsStr bn cfg k pr rest
    (ts.map firedStr ++ r.1, r.2)
  | .tick slot pre ts :: rest =>
    let t := tickStr (slot, ts.filter (fun t => !waits cfg t))
    match pr with
    | none => let r := outsStr bn cfg k none rest; (t :: r.1, r.2)
    | some d =>
      match scanSlot bn cfg pre slot k d with
      | some g => let r := outsStr bn cfg k none rest; (t :: s!"P[{getDefStr g}]" :: r.1, true)
      | none => let r := outsStr bn cfg k pr rest; (t :: r.1, r.2)

def clearGhost (h : HSys) : HSys :=
  { h with sys := { h.sys with hist := [], ticked := [] }, fired := [], fetches := [], stored := [], trimmed := [] }

/-! parsing -/

def nats? (s : String) (n : Nat) : Option (List Nat) :=
  let parts := s.splitOn ":"
  if parts.length != n then none else parts.mapM (fun p => p.toNat?)

def items? {α : Type} (s : String) (f : String → Option (Option α)) : Option (List (Option α)) :=
  if s == "-" then some [] else (s.splitOn ",").mapM f

def attItem? (s : String) : Option (Option AttDuty) :=
  if s == "nil" then some none else
  match nats? s 4 with
  | some [a, b, c, d] => some (some ⟨a, b, c, d⟩)
  | _ => none

def proItem? (s : String) : Option (Option ProDuty) :=
  if s == "nil" then some none else
  match nats? s 3 with
  | some [a, b, c] => some (some ⟨a, b, c⟩)
  | _ => none

def synItem? (s : String) : Option (Option SyncDuty) :=
  if s == "nil" then some none else
  match nats? s 3 with
  | some [a, b, c] => some (some ⟨a, b, c⟩)
  | _ => none

def bits? (s : String) : Option (List Bool) :=
  s.toList.mapM (fun c => if c == '0' then some false else if c == '1' then some true else none)

def setVal (m : List (Nat × Option Val)) (i : Nat) (v : Option (Option Val)) : List (Nat × Option Val) :=
  let m' := m.filter (fun p => p.1 != i)
  match v with
  | none => m'
  | some e => sortBy (fun (a b : Nat × Option Val) => a.1 < b.1) ((i, e) :: m')

def doAdv (d : DState) (ns : Nat) (eager : Bool) : DState × String :=
  let bn := bnOf d.sc d.hs.sys.st
  -- `Run` creates the ticker (which emits the current slot at once) before the clock moves
  let r0 := if d.started then (d.hs, []) else HSys.adv bn d.cfg d.hs 0 eager
  let r1 := HSys.adv bn d.cfg r0.1 ns eager
  let o := outsStr bn d.cfg (d.hs.sys.st.na + d.probeSkip) d.probe (r0.2 ++ r1.2)
  let sc := consume d.sc d.hs.sys.st r1.1.sys.st
  -- ghost histories are not needed by the driver
  let hs := clearGhost r1.1
  let out := if o.1.isEmpty then "-" else Driver.joinWith " " o.1
  -- attester-duties calls made while the probe stayed armed count against its skip
  let skip := if o.2 then 0 else d.probeSkip - (r1.1.sys.st.na - d.hs.sys.st.na)
  ({ d with hs := hs, started := true, sc := sc, probe := if o.2 then none else d.probe, probeSkip := skip }, out ++ " | " ++ digest d.cfg hs)

def mkCfg (spe durMs ro fl : Nat) : Cfg :=
  { spe := spe, slotDur := durMs * 1000000, reorgEnabled := ro != 0,
    fetchAttOnBlock := fl % 2 == 1, fetchAttOnBlockWithDelay := (fl / 2) % 2 == 1,
    fetchOnlyRegistered := (fl / 4) % 2 == 0 }

def doCfg (d : DState) (a b c r f : String) : DState × String :=
  match a.toNat?, b.toNat?, c.toNat?, r.toNat?, f.toNat? with
  | some spe, some durMs, some start, some ro, some fl =>
    if spe == 0 || durMs == 0 || fl ≥ 8 then (d, "bad-op") else
    let cfg := mkCfg spe durMs ro fl
    ({ cfg := cfg, hs := HSys.init cfg start, started := false, sc := {}, probe := none }, "ok")
  | _, _, _, _, _ => (d, "bad-op")

def step (d : DState) (line : String) : DState × String :=
  match line.splitOn " " with
  | ["cfg", a, b, c, r] => doCfg d a b c r "0"
  | ["cfg", a, b, c, r, f] => doCfg d a b c r f
  | ["val", i, "nil"] =>
    match i.toNat? with
    | some i => ({ d with sc := { d.sc with vals := setVal d.sc.vals i (some none) } }, "ok")
    | none => (d, "bad-op")
  | ["val", i, "del"] =>
    match i.toNat? with
    | some i => ({ d with sc := { d.sc with vals := setVal d.sc.vals i none } }, "ok")
    | none => (d, "bad-op")
  | ["val", i, pk, st, ae] =>
    match i.toNat?, pk.toNat?, st.toNat?, ae.toNat? with
    | some i, some pk, some st, some ae =>
      let v : Val := { idx := i, pk := pk, active := st == 3 || st == 4 || st == 5, actEpoch := ae }
      ({ d with sc := { d.sc with vals := setVal d.sc.vals i (some (some v)) } }, "ok")
    | _, _, _, _ => (d, "bad-op")
  | ["att", e, l] =>
    match e.toNat?, items? l attItem? with
    | some e, some l => ({ d with sc := { d.sc with att := setEp d.sc.att e l } }, "ok")
    | _, _ => (d, "bad-op")
  | ["pro", e, l] =>
    match e.toNat?, items? l proItem? with
    | some e, some l => ({ d with sc := { d.sc with pro := setEp d.sc.pro e l } }, "ok")
    | _, _ => (d, "bad-op")
  | ["syn", e, l] =>
    match e.toNat?, items? l synItem? with
    | some e, some l => ({ d with sc := { d.sc with syn := setEp d.sc.syn e l } }, "ok")
    | _, _ => (d, "bad-op")
  | ["fail", ep, b] =>
    match bits? b with
    | some bits =>
      if ep == "v" then ({ d with sc := { d.sc with failV := bits } }, "ok")
      else if ep == "a" then ({ d with sc := { d.sc with failA := bits } }, "ok")
      else if ep == "p" then ({ d with sc := { d.sc with failP := bits } }, "ok")
      else if ep == "s" then ({ d with sc := { d.sc with failS := bits } }, "ok")
      else (d, "bad-op")
    | none => (d, "bad-op")
  | ["adv", a] =>
    match a.toNat? with
    | some ns => doAdv d ns true
    | none => (d, "bad-op")
  | ["advl", a] =>
    match a.toNat? with
    | some ns => doAdv d ns false
    | none => (d, "bad-op")
  | ["reorg", a] =>
    match a.toNat? with
    | some ep =>
      let hs := clearGhost (d.hs.reorg d.cfg ep)
      ({ d with hs := hs }, "ok | " ++ digest d.cfg hs)
    | none => (d, "bad-op")
  | ["fire", a] =>
    match a.toNat? with
    | some slot =>
      let r := d.hs.fire slot
      let hs := clearGhost r.1
      let out := if r.2.isEmpty then "-" else Driver.joinWith " " (r.2.map firedStr)
      ({ d with hs := hs }, out ++ " | " ++ digest d.cfg hs)
    | none => (d, "bad-op")
  | ["head", a, root, addr] =>
    match a.toNat?, root.toNat? with
    | some slot, some root =>
      let r := d.hs.head d.cfg slot
      let hs := clearGhost r.1
      let out := match r.2 with
        | some f => s!"F{f.slot}@{root}/{addr}" ++ defsStr f.defs
        | none => "-"
      ({ d with hs := hs }, out ++ " | " ++ digest d.cfg hs)
    | _, _ => (d, "bad-op")
  | ["headrace", a, k] =>
    -- self-contained racing op (own scheduler in a child process): every interleaving is acceptable, nothing of
    -- the episode is touched; only the monitor (the process must survive) speaks
    match a.toNat?, k.toNat? with
    | some _, some _ => (d, "ok")
    | _, _ => (d, "bad-op")
  | ["getdef", a, t] =>
    match a.toNat?, t.toNat? with
    | some slot, some ty => (d, getDefStr (getDutyDefinition d.cfg d.hs.sys.st ⟨slot, ty⟩))
    | _, _ => (d, "bad-op")
  | ["probe", a, t] =>
    match a.toNat?, t.toNat? with
    | some slot, some ty => ({ d with probe := some ⟨slot, ty⟩, probeSkip := 0 }, "ok")
    | _, _ => (d, "bad-op")
  | ["probe", a, t, k] =>
    match a.toNat?, t.toNat?, k.toNat? with
    | some slot, some ty, some k => ({ d with probe := some ⟨slot, ty⟩, probeSkip := k }, "ok")
    | _, _, _ => (d, "bad-op")
  | _ => (d, "bad-op")

end Driver.Sched

def main : IO Unit := Driver.runLoop Driver.Sched.step {}
