import CharonV.Model.Sched
import Driver.Common

/-!
Line driver for the scheduler model (C15). Ops (see `harness/cmd/drive-sched/main.go`):

  cfg <spe> <durMs> <startNs> <reorg 0|1>     new episode
  val <idx> <pk> <status> <actEpoch> | val <idx> nil | val <idx> del
  att <epoch> <item,..|->     item = vidx:pk:slot:tag | nil
  pro <epoch> <item,..|->     item = vidx:pk:slot     | nil
  syn <epoch> <item,..|->     item = vidx:pk:tag      | nil
  fail <v|a|p|s> <bits>       the next calls to that endpoint fail where the bit is 1
  adv <ns>                    advance the clock (the ticker is created at the first adv)
  reorg <epoch>               chain reorg event
-/
open CharonV.Sched

namespace Driver.Sched

structure Script where
  vals : List (Nat × Option Val) := []
  att  : List (Nat × List (Option AttDuty)) := []
  pro  : List (Nat × List (Option ProDuty)) := []
  syn  : List (Nat × List (Option SyncDuty)) := []
  failV : List Bool := []
  failA : List Bool := []
  failP : List Bool := []
  failS : List Bool := []

structure DState where
  cfg : Cfg := { spe := 1, slotDur := 1, reorgEnabled := false }
  sys : Sys := {}
  started : Bool := false
  sc : Script := {}

def failAt (bits : List Bool) (k base : Nat) : Bool := (bits[k - base]?).getD false

def lookupEp {α : Type} (m : List (Nat × List α)) (e : Nat) : List α :=
  match m.find? (fun p => p.1 == e) with
  | some p => p.2
  | none => []

def setEp {α : Type} (m : List (Nat × List α)) (e : Nat) (l : List α) : List (Nat × List α) :=
  (e, l) :: m.filter (fun p => p.1 != e)

/-- the scripted beacon node, for the calls made from the current counters on. -/
def bnOf (sc : Script) (st : State) : BN where
  vals k _ := if failAt sc.failV k st.nv then none else some (sc.vals.map (fun p => p.2))
  att k e _ := if failAt sc.failA k st.na then none else some (lookupEp sc.att e)
  pro k e _ := if failAt sc.failP k st.np then none else some (lookupEp sc.pro e)
  sync k e _ := if failAt sc.failS k st.ns then none else some (lookupEp sc.syn e)

def consume (sc : Script) (old new : State) : Script :=
  { sc with failV := sc.failV.drop (new.nv - old.nv), failA := sc.failA.drop (new.na - old.na),
            failP := sc.failP.drop (new.np - old.np), failS := sc.failS.drop (new.ns - old.ns) }

/-! rendering -/

def insSorted {α : Type} (lt : α → α → Bool) (x : α) : List α → List α
  | [] => [x]
  | y :: ys => if lt x y then x :: y :: ys else y :: insSorted lt x ys

def sortBy {α : Type} (lt : α → α → Bool) (l : List α) : List α := l.foldl (fun acc x => insSorted lt x acc) []

def defStr : Def → String
  | .att a => s!"a{a.vidx}.{a.pk}.{a.slot}.{a.tag}"
  | .pro p => s!"p{p.vidx}.{p.pk}.{p.slot}"
  | .sync d => s!"s{d.vidx}.{d.pk}.{d.tag}"

def trigStr (t : Trigger) : String :=
  let ds := sortBy (fun (a b : Nat × Def) => a.1 < b.1) t.defs
  s!"{t.duty.ty}@{t.nb}" ++ "{" ++ Driver.joinWith ";" (ds.map (fun p => s!"{p.1}={defStr p.2}")) ++ "}"

def tickStr (p : Nat × List Trigger) : String :=
  let ts := sortBy (fun (a b : Trigger) => a.duty.ty < b.duty.ty) p.2
  s!"t{p.1}[" ++ Driver.joinWith "," (ts.map trigStr) ++ "]"

def digest (s : State) : String :=
  let re := if s.resolvedEpoch == maxInt64 then "-" else toString s.resolvedEpoch
  let pairs := s.duties.foldl (fun n p => n + p.2.length) 0
  let ne := s.dutiesByEpoch.foldl (fun n p => n + p.2.length) 0
  s!"re={re} nd={s.duties.length}/{pairs} ne={ne}"

/-! parsing -/

def nats? (s : String) (n : Nat) : Option (List Nat) :=
  let parts := s.splitOn ":"
  if parts.length != n then none else parts.mapM (fun p => p.toNat?)

def items? {α : Type} (s : String) (f : String → Option (Option α)) : Option (List (Option α)) :=
  if s == "-" then some [] else (s.splitOn ",").mapM f

def attItem? (s : String) : Option (Option AttDuty) :=
  if s == "nil" then some none else
  match nats? s 4 with
  | some [a, b, c, d] => some (some ⟨a, b, c, d⟩)
  | _ => none

def proItem? (s : String) : Option (Option ProDuty) :=
  if s == "nil" then some none else
  match nats? s 3 with
  | some [a, b, c] => some (some ⟨a, b, c⟩)
  | _ => none

def synItem? (s : String) : Option (Option SyncDuty) :=
  if s == "nil" then some none else
  match nats? s 3 with
  | some [a, b, c] => some (some ⟨a, b, c⟩)
  | _ => none

def bits? (s : String) : Option (List Bool) :=
  s.toList.mapM (fun c => if c == '0' then some false else if c == '1' then some true else none)

def setVal (m : List (Nat × Option Val)) (i : Nat) (v : Option (Option Val)) : List (Nat × Option Val) :=
  let m' := m.filter (fun p => p.1 != i)
  match v with
  | none => m'
  | some e => sortBy (fun (a b : Nat × Option Val) => a.1 < b.1) ((i, e) :: m')

def doAdv (d : DState) (ns : Nat) : DState × String :=
  let bn := bnOf d.sc d.sys.st
  -- `Run` creates the ticker (which emits the current slot at once) before the clock moves
  let r0 := if d.started then (d.sys, []) else Sys.step bn d.cfg d.sys (.adv 0)
  let r1 := Sys.step bn d.cfg r0.1 (.adv ns)
  let ticks := r0.2 ++ r1.2
  let sc := consume d.sc d.sys.st r1.1.st
  -- ghost histories are not needed by the driver
  let sys := { r1.1 with hist := [], ticked := [] }
  let out := if ticks.isEmpty then "-" else Driver.joinWith " " (ticks.map tickStr)
  ({ d with sys := sys, started := true, sc := sc }, out ++ " | " ++ digest sys.st)

def step (d : DState) (line : String) : DState × String :=
  match line.splitOn " " with
  | ["cfg", a, b, c, r] =>
    match a.toNat?, b.toNat?, c.toNat?, r.toNat? with
    | some spe, some durMs, some start, some ro =>
      if spe == 0 || durMs == 0 then (d, "bad-op") else
      let cfg : Cfg := { spe := spe, slotDur := durMs * 1000000, reorgEnabled := ro != 0 }
      ({ cfg := cfg, sys := Sys.init cfg start, started := false, sc := {} }, "ok")
    | _, _, _, _ => (d, "bad-op")
  | ["val", i, "nil"] =>
    match i.toNat? with
    | some i => ({ d with sc := { d.sc with vals := setVal d.sc.vals i (some none) } }, "ok")
    | none => (d, "bad-op")
  | ["val", i, "del"] =>
    match i.toNat? with
    | some i => ({ d with sc := { d.sc with vals := setVal d.sc.vals i none } }, "ok")
    | none => (d, "bad-op")
  | ["val", i, pk, st, ae] =>
    match i.toNat?, pk.toNat?, st.toNat?, ae.toNat? with
    | some i, some pk, some st, some ae =>
      let v : Val := { idx := i, pk := pk, active := st == 3 || st == 4 || st == 5, actEpoch := ae }
      ({ d with sc := { d.sc with vals := setVal d.sc.vals i (some (some v)) } }, "ok")
    | _, _, _, _ => (d, "bad-op")
  | ["att", e, l] =>
    match e.toNat?, items? l attItem? with
    | some e, some l => ({ d with sc := { d.sc with att := setEp d.sc.att e l } }, "ok")
    | _, _ => (d, "bad-op")
  | ["pro", e, l] =>
    match e.toNat?, items? l proItem? with
    | some e, some l => ({ d with sc := { d.sc with pro := setEp d.sc.pro e l } }, "ok")
    | _, _ => (d, "bad-op")
  | ["syn", e, l] =>
    match e.toNat?, items? l synItem? with
    | some e, some l => ({ d with sc := { d.sc with syn := setEp d.sc.syn e l } }, "ok")
    | _, _ => (d, "bad-op")
  | ["fail", ep, b] =>
    match bits? b with
    | some bits =>
      if ep == "v" then ({ d with sc := { d.sc with failV := bits } }, "ok")
      else if ep == "a" then ({ d with sc := { d.sc with failA := bits } }, "ok")
      else if ep == "p" then ({ d with sc := { d.sc with failP := bits } }, "ok")
      else if ep == "s" then ({ d with sc := { d.sc with failS := bits } }, "ok")
      else (d, "bad-op")
    | none => (d, "bad-op")
  | ["adv", a] =>
    match a.toNat? with
    | some ns => doAdv d ns
    | none => (d, "bad-op")
  | ["reorg", a] =>
    match a.toNat? with
    | some ep =>
      let bn := bnOf d.sc d.sys.st
      let r := Sys.step bn d.cfg d.sys (.reorg ep)
      ({ d with sys := r.1 }, "ok | " ++ digest r.1.st)
    | none => (d, "bad-op")
  | _ => (d, "bad-op")

end Driver.Sched

def main : IO Unit := Driver.runLoop Driver.Sched.step {}
