/-
Line driver for the `priority` stream of C14 (`drive-priority`): model `Model/Priority.lean`.

ops (see `harness/cmd/drive-priority/main.go`):
  calc m=<int> <msgs>                      -> ok msgs=<peers> topics=<topic results> | err <class>
      msgs   = - | msg;msg;...            msg  = <peer>/<duty>/<topics>     peer = [A-Za-z0-9]+ | ~ (empty string)
      duty   = n (nil) | <nat>            topics = - | t|t|...              t = <hex12>:<prios>
      prios  = - | item.item...           item = <nat> | r<start>x<count> (ascending run) | R<start>x<count> (descending)
  inst n=<n> m=<int> slot=<s> gate=<g> exp=<e> early=<0|1> peers=<id,id,..> own=<topics>
                                           -> started | proposed <result> | abort <class>      (reset op)
  req from=<i> nil                         -> err nilmsg
  req from=<i> claim=<j> sig=<none|mal|other|k> duty=<n|slot> topics=<topics>
                                           -> own | own proposed <result> | own abort <class> | err <class>
  recv limit=<L> dec=<b> nil=<b> h=<err|nores|resp> stream=<hex>   -> called=<b> written=<b>

Peer id strings become `Nat` by the order preserving code `peerCode` (big-endian base 256, zero padded to 64 bytes).
-/
import CharonV.Model.Priority
import Driver.Common

open CharonV.Priority

namespace Driver.Priority

def peerCode (s : String) : Nat :=
  let bs := s.toUTF8.toList.map (·.toNat)
  let padded := (bs ++ List.replicate (64 - bs.length) 0).take 64
  padded.foldl (fun acc b => acc * 256 + b) 0

def hexDigit (c : Char) : Option Nat :=
  if '0' ≤ c ∧ c ≤ '9' then some (c.toNat - '0'.toNat)
  else if 'a' ≤ c ∧ c ≤ 'f' then some (c.toNat - 'a'.toNat + 10)
  else none

def parseHex (s : String) : Option Nat :=
  if s.isEmpty then none else
  s.toList.foldl (fun acc c => match acc, hexDigit c with
    | some a, some d => some (a * 16 + d)
    | _, _ => none) (some 0)

def parseHexBytes (s : String) : Option (List Nat) :=
  let rec go : List Char → Option (List Nat)
    | [] => some []
    | [_] => none
    | a :: b :: r => match hexDigit a, hexDigit b, go r with
      | some x, some y, some t => some ((x * 16 + y) :: t)
      | _, _, _ => none
  if s = "-" then some [] else go s.toList

def hexOf (n : Nat) : String :=
  let ds := (Nat.toDigits 16 n)
  String.ofList (List.replicate (12 - ds.length) '0' ++ ds)

def parseItem (s : String) : Option (List Nat) :=
  if s.startsWith "r" || s.startsWith "R" then
    match (s.drop 1).toString.splitOn "x" with
    | [a, b] => match a.toNat?, b.toNat? with
      | some st, some cnt =>
        if s.startsWith "R" then some ((List.range cnt).map (fun k => st + cnt - 1 - k))
        else some ((List.range cnt).map (· + st))
      | _, _ => none
    | _ => none
  else s.toNat?.map (fun x => [x])

def parsePrios (s : String) : Option (List Nat) :=
  if s = "-" then some [] else
  (s.splitOn ".").foldr (fun it acc => match parseItem it, acc with
    | some l, some r => some (l ++ r)
    | _, _ => none) (some [])

def parseTopic (s : String) : Option Topic :=
  match s.splitOn ":" with
  | [h, ps] => match parseHex h, parsePrios ps with
    | some k, some l => some ⟨k, l⟩
    | _, _ => none
  | _ => none

def parseTopics (s : String) : Option (List Topic) :=
  if s = "-" then some [] else
  (s.splitOn "|").foldr (fun t acc => match parseTopic t, acc with
    | some x, some r => some (x :: r)
    | _, _ => none) (some [])

def parseDuty (s : String) : Option (Option Nat) :=
  if s = "n" then some none else s.toNat?.map some

/-- message with the peer string kept for printing. -/
structure PMsg where
  name : String
  msg  : Msg

def parsePeerName (s : String) : String := if s = "~" then "" else s
def showPeerName (s : String) : String := if s = "" then "~" else s

def parseMsg (s : String) : Option PMsg :=
  match s.splitOn "/" with
  | [p, d, ts] => match parseDuty d, parseTopics ts with
    | some duty, some topics => some ⟨parsePeerName p, ⟨duty, peerCode (parsePeerName p), topics⟩⟩
    | _, _ => none
  | _ => none

def parseMsgs (s : String) : Option (List PMsg) :=
  if s = "-" then some [] else
  (s.splitOn ";").foldr (fun t acc => match parseMsg t, acc with
    | some x, some r => some (x :: r)
    | _, _ => none) (some [])

def errName : Err → String
  | .empty => "empty" | .mismatch => "mismatch" | .dupPeer => "duppeer"
  | .dupTopic => "duptopic" | .maxPrio => "maxprio" | .dupPrio => "dupprio"

def showTopicResult (t : TopicResult) : String :=
  hexOf t.topic ++ ":" ++
    (if t.prios.isEmpty then "-" else ",".intercalate (t.prios.map (fun e => toString e.1 ++ "=" ++ toString e.2)))

def showResult (names : List (Nat × String)) (r : Result) : String :=
  let nm (m : Msg) : String := showPeerName ((names.lookup m.peer).getD "?")
  "msgs=" ++ ",".intercalate (r.msgs.map nm) ++ " topics=" ++
    (if r.topics.isEmpty then "-" else "|".intercalate (r.topics.map showTopicResult))

def kv (fields : List String) (k : String) : Option String :=
  fields.findSome? (fun f => if f.startsWith (k ++ "=") then some (f.drop (k.length + 1)).toString else none)

def parseInt (s : String) : Option Int :=
  if s.startsWith "-" then (s.drop 1).toString.toNat?.map (fun n => - (n : Int)) else s.toNat?.map (fun n => (n : Int))

structure St where
  cfg   : Cfg := ⟨[], 0, 0, 0⟩
  inst  : Option Inst := none
  names : List String := []           -- peer id strings: cluster first, then outsiders
  n     : Nat := 0

def herrName : HErr → String
  | .nilMsg => "nilmsg" | .peerId => "peerid" | .fields => "fields" | .unknownPeer => "unknownpeer"
  | .noSig => "nosig" | .sigRecover => "sigrecover" | .badSig => "badsig" | .gated => "gated"
  | .expired => "expired" | .timeout => "timeout"

def nameTable (st : St) : List (Nat × String) := st.names.map (fun s => (peerCode s, s))

def showOutcome (st : St) (before after : Inst) : String :=
  if before.started then "" else
  match after.aborted, after.proposed with
  | some e, _ => " abort " ++ errName e
  | none, some r => " proposed " ++ showResult (nameTable st) r
  | none, none => ""

def doCalc (fields : List String) : String :=
  match fields with
  | [mf, ms] =>
    match (kv [mf] "m").bind parseInt, parseMsgs ms with
    | some m, some pms =>
      match calculateResult (pms.map (·.msg)) m with
      | .error e => "err " ++ errName e
      | .ok r => "ok " ++ showResult (pms.map (fun p => (p.msg.peer, p.name))) r
    | _, _ => "bad-op"
  | _ => "bad-op"

def doInst (fields : List String) : St × String :=
  match (kv fields "n").bind String.toNat?, (kv fields "m").bind parseInt, (kv fields "slot").bind String.toNat?,
        (kv fields "gate").bind String.toNat?, (kv fields "exp").bind String.toNat?, kv fields "early",
        kv fields "peers", (kv fields "own").bind parseTopics with
  | some n, some m, some slot, some gate, some exp, some early, some peers, some own =>
    let names := peers.splitOn ","
    let cfg : Cfg := ⟨(names.take n).map peerCode, m, gate, exp⟩
    let ownMsg : Msg := ⟨some slot, peerCode (names.headD ""), own⟩
    let i0 := Inst.start slot ownMsg
    let st : St := { cfg := cfg, inst := none, names := names, n := n }
    -- `Prioritise` drops an expired duty silently (returns nil, nothing runs)
    if slot < exp then ({ st with inst := none }, "dropped")
    else
      -- the `len(msgs) == len(peers)` check only runs after an event of the loop
      let i2 := if early = "1" then onTimeout cfg i0 else i0
      let out := showOutcome st i0 i2
      ({ st with inst := some i2 }, if out.isEmpty then "started" else out.trimAscii.toString)
  | _, _, _, _, _, _, _, _ => ({}, "bad-op")

def parseSig (st : St) (s : String) : Option Sig :=
  if s = "none" then some .missing
  else if s = "mal" then some .malformed
  else if s = "other" then some .other
  else s.toNat?.map (fun k => .by (peerCode ((st.names[k]?).getD "")))

def doReq (st : St) (fields : List String) : St × String :=
  match st.inst, (kv fields "from").bind String.toNat? with
  | some i, some from_ =>
    let sender := peerCode ((st.names[from_]?).getD "")
    let w : Option (Option Wire) :=
      if fields.contains "nil" || fields.contains "wrongtype" then some none else
      match (kv fields "claim").bind String.toNat?, (kv fields "sig").bind (parseSig st),
            (kv fields "duty").bind parseDuty, (kv fields "topics").bind parseTopics with
      | some j, some sg, some d, some ts => some (some ⟨⟨d, peerCode ((st.names[j]?).getD ""), ts⟩, sg⟩)
      | _, _, _, _ => none
    match w with
    | none => (st, "bad-op")
    | some w =>
      let (i', rep) := onRequest st.cfg i sender w
      match rep with
      | .err e => ({ st with inst := some i' }, "err " ++ herrName e)
      | .own => ({ st with inst := some i' }, "own" ++ showOutcome st i i')
  | _, _ => (st, "bad-op")

def b01 (b : Bool) : String := if b then "1" else "0"

def doRecv (fields : List String) : String :=
  match (kv fields "limit").bind String.toNat?, kv fields "dec", kv fields "nil", kv fields "h",
        (kv fields "stream").bind parseHexBytes with
  | some limit, some dec, some nl, some h, some bytes =>
    let ho : Option HandlerOut := if h = "err" then some .err else if h = "nores" then some .noResp
      else if h = "resp" then some .resp else none
    match ho with
    | none => "bad-op"
    | some ho =>
      let r := recvStream limit bytes (fun _ => dec = "1") (fun _ => nl = "1") ho
      "called=" ++ b01 r.called ++ " written=" ++ b01 r.written
  | _, _, _, _, _ => "bad-op"

def step (st : St) (line : String) : St × String :=
  match line.splitOn " " with
  | "calc" :: rest => (st, doCalc rest)
  | "inst" :: rest => doInst rest
  | "req" :: rest => doReq st rest
  | "recv" :: rest => (st, doRecv rest)
  | _ => (st, "bad-op")

end Driver.Priority

def main : IO Unit := Driver.runLoop Driver.Priority.step {}
