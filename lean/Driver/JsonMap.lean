import CharonV.Model.JsonMap
import CharonV.Generated.ClusterJson
import Driver.Common

/-
Line driver for the JSON transfer-list model (C12, stream `jsonmap`). One op (see harness/cmd/drive-jsonmap/main.go):

  rt <def|lock> <version> <name>=<val> … H:<name>=<val> …

every in-memory leaf of the artifact (tag path name, the embedded definition's with prefix
`cluster_definition.`) with its COLUMN value, and under `H:` the hashes `MarshalJSON` recomputes (`G:` tokens —
the value itself for the Go side's replay — are skipped).
Values:  s<hex> string | b<hex> bytes | i<int> | t | f | T<sec>.<nsec> | [v,v,…]

Answer: `encerr` (the encoder returns an error) | `decerr` (the decoder rejects the encoder's output) |
`ok <bits>` one bit per leaf in op order: 1 = the decoded value equals the original. The prediction runs
`decodeField (encode …)` over the regenerated rows of the version; a leaf the version does not transfer
comes back as Go zero values below the lists whose length the version preserves.
-/
open CharonV.JsonMap CharonV.Generated

namespace Driver.JsonMap

def hexVal (c : Char) : Option Nat :=
  if '0' ≤ c ∧ c ≤ '9' then some (c.toNat - 48)
  else if 'a' ≤ c ∧ c ≤ 'f' then some (c.toNat - 87)
  else none

def hexBytes : List Char → Option (List UInt8)
  | [] => some []
  | [_] => none
  | a :: b :: r => do
    let x ← hexVal a
    let y ← hexVal b
    let t ← hexBytes r
    pure (UInt8.ofNat (x * 16 + y) :: t)

def parseInt (cs : List Char) : Option Int :=
  match cs with
  | '-' :: r => (String.ofList r).toNat?.map (fun n => - (Int.ofNat n))
  | r => (String.ofList r).toNat?.map Int.ofNat

/-- split the chars of a scalar token from the rest (`,` or `]` ends it). -/
def spanTok (cs : List Char) : List Char × List Char := cs.span (fun c => c != ',' && c != ']')

partial def parseVal (cs : List Char) : Option (MVal × List Char) :=
  match cs with
  | '[' :: ']' :: r => some (.list [], r)
  | '[' :: r =>
    let rec items (cs : List Char) (acc : List MVal) : Option (MVal × List Char) :=
      match parseVal cs with
      | some (v, ',' :: r) => items r (v :: acc)
      | some (v, ']' :: r) => some (.list (v :: acc).reverse, r)
      | _ => none
    items r []
  | 's' :: r => let (t, rest) := spanTok r; (hexBytes t).map (fun b => (.str b, rest))
  | 'b' :: r => let (t, rest) := spanTok r; (hexBytes t).map (fun b => (.bytes b, rest))
  | 'i' :: r => let (t, rest) := spanTok r; (parseInt t).map (fun i => (.int i, rest))
  | 't' :: r => some (.bool true, r)
  | 'f' :: r => some (.bool false, r)
  | 'T' :: r =>
    let (t, rest) := spanTok r
    match (String.ofList t).splitOn "." with
    | [a, b] => match parseInt a.toList, b.toNat? with
      | some s, some n => some (.time s n, rest)
      | _, _ => none
    | _ => none
  | _ => none

partial def mvEq : MVal → MVal → Bool
  | .str a, .str b => a == b
  | .int a, .int b => a == b
  | .bool a, .bool b => a == b
  | .bytes a, .bytes b => a == b
  | .time a n, .time b k => a == b && n == k
  | .list xs, .list ys => xs.length == ys.length && (xs.zip ys).all (fun p => mvEq p.1 p.2)
  | _, _ => false

def zeroOfKind : MKind → MVal
  | .str => .str []
  | .int | .uint => .int 0
  | .bool => .bool false
  | .bytes => .bytes []
  | .time => .time (-62135596800) 0
  | .embed => .int 0

/-- what a leaf the version does not transfer comes back as: the lists of the first `keep` levels keep
their length, below them everything is the Go zero value (`depth` = list levels of the leaf). -/
partial def defaultAt (keep depth : Nat) (z : MVal) (v : MVal) : MVal :=
  match keep, depth, v with
  | _, 0, _ => z
  | 0, _+1, _ => .list []
  | k+1, d+1, .list xs => .list (xs.map (defaultAt k d z))
  | _, _, _ => z

/-- the list prefixes of a tag path: "a[].b[].c" -> ["a", "a[].b"]. -/
def listPrefixes (s : String) : List String :=
  let parts := s.splitOn "[]"
  let n := parts.length - 1
  (List.range n).map (fun i => "[]".intercalate (parts.take (i + 1)))

def sharedLevels (a b : List String) : Nat :=
  ((a.zip b).takeWhile (fun p => p.1 == p.2)).length

structure Ctx where
  enc : List Row
  dec : List Row
  guards : List Guard
  leaves : List (Nat × MKind)

def shiftGuard : Guard → Guard
  | .lenEq a b => .lenEq (a + embedBase) (b + embedBase)
  | .depositAmounts a b => .depositAmounts (a + embedBase) (b.map (· + embedBase))
  | .zero a => .zero (a + embedBase)
  | .empty a => .empty (a + embedBase)

def ctxOf (t : Table) (kind ver : String) : Option Ctx :=
  match versionRows t ver with
  | none => none
  | some r =>
    if kind == "def" then some ⟨r.defEnc.rows, r.defDec.rows, r.defDec.guards, t.memDef⟩
    else if kind == "lock" then
      some ⟨lockEncRows r, lockDecRows r, r.lockDec.guards ++ r.defDec.guards.map shiftGuard,
        t.memLock.flatMap (fun p => if p.2 == .embed then t.memDef.map (fun q => (q.1 + embedBase, q.2)) else [p])⟩
    else none

def answer (t : Table) (line : String) : String :=
  match line.splitOn " " with
  | "rt" :: kind :: ver :: kvs0 =>
    let kvs := kvs0.filter (fun kv => !kv.startsWith "G:")
    match ctxOf t kind ver with
    | none => "bad-op"
    | some c =>
      -- name -> id
      let ids : List (String × Nat) := c.leaves.map (fun p => (pathName t p.1, p.1))
      let parsed : Option (List (Bool × Nat × MVal)) := kvs.mapM (fun kv =>
        match kv.splitOn "=" with
        | [k, v] =>
          let (isH, name) := if k.startsWith "H:" then (true, (k.drop 2).toString) else (false, k)
          match ids.find? (·.1 == name), parseVal v.toList with
          | some (_, i), some (mv, []) => some (isH, i, mv)
          | _, _ => none
        | _ => none)
      match parsed with
      | none => "bad-op"
      | some es =>
        let look (h : Bool) : MRec := fun p =>
          match es.find? (fun e => e.1 == h && e.2.1 == p) with
          | some e => e.2.2
          | none => .list []
        let m := look false
        let hs := look true
        if encodeFails c.enc m then "encerr"
        else
          let j := encode c.enc hs m
          let acc : Codec := ⟨"", "", [], c.guards⟩
          if !accepts acc c.dec j then "decerr"
          else
            let fs := fieldSet c.dec
            let moved : List (List String) := fs.map (fun p => listPrefixes (pathName t p))
            let bits := (es.filter (fun e => !e.1)).map (fun e =>
              let p := e.2.1
              let orig := e.2.2
              let got : MVal :=
                if fs.contains p then (decodeField c.dec j p).getD (.list [])
                else
                  let lp := listPrefixes (pathName t p)
                  let keep := moved.foldl (fun k q => max k (sharedLevels lp q)) 0
                  let kind := ((c.leaves.find? (·.1 == p)).map (·.2)).getD .int
                  defaultAt keep lp.length (zeroOfKind kind) orig
              if mvEq got orig then "1" else "0")
            "ok " ++ String.join bits
  | _ => "bad-op"

def step (t : Table) (_ : Unit) (line : String) : Unit × String := ((), answer t line)

end Driver.JsonMap

def main : IO Unit := Driver.runLoop (Driver.JsonMap.step ClusterJson.table) ()
