import CharonV.Model.ConsWrap
import Driver.Common

/-!
Line driver for the consensus-wrapper model (`CharonV.Model.ConsWrap`; C03 at wrapper level).

The harness runs the real component as a one-member cluster with the real `qbft.Run`. What `Run`
does is not part of the wrapper model; the driver supplies it as the environment ops `decide` /
`ends` according to the single-member semantics of QBFT (leader of every round, quorum 1): a live
instance whose IO is still attached decides — and then returns — as soon as it has a candidate
value (its own proposal, or a buffered PRE-PREPARE / DECIDED from itself). `cancel` makes a live
instance return without decision.

ops:
  cfg <nsubs> <participateEnabled 0|1>
  propose <slot> <type> <v> <dl s|e|x>
  participate <slot> <type> <dl>
  msg <slot> <type> <v> <pp|dec> <dl>
  cancel <slot> <type>
  expire <slot> <type>
  race <slot> <type> <v> <nP> <nQ> <msg 0|1> ;; <observed summary>
        the calls ran concurrently; the driver answers with the observed summary iff some
        linearisation of the calls produces it (and continues from that linearisation's state).

Subscribers with even index were registered with `SubscribePriority`, odd ones with `Subscribe`;
each wrapper silently ignores values of the other kind, so only the matching ones are printed
(attester duties carry `UnsignedDataSet`, all others `PriorityResult`).
-/

open CharonV.QbftWire (Duty Crypto Status VMap)
open CharonV.ConsWrap

namespace Driver.ConsWrap

def crypto : Crypto :=
  { Digest := Unit
    digest := fun _ => ()
    recover := fun _ _ => none
    unmarshalAny := fun v => some v
    hashInner := fun x => some (x + 1000) }

structure DState where
  cfg : Cfg := { subs := 0, participateEnabled := true }
  st : State := {}
  msgVal : List (Duty × Nat) := []
  pend : List (Duty × Nat × Nat) := []     -- blocked Propose / Participate calls per duty

def getPend (d : DState) (du : Duty) : Nat × Nat :=
  match d.pend.find? (fun p => p.1 = du) with | some p => p.2 | none => (0, 0)

def setPend (d : DState) (du : Duty) (v : Nat × Nat) : DState :=
  { d with pend := (du, v) :: d.pend.filter (fun p => p.1 ≠ du) }

def parseDuty (a b : String) : Option Duty :=
  match a.toNat?, b.toInt? with
  | some s, some t => some { slot := s, type := t }
  | _, _ => none

def parseDl : String → Option Status
  | "s" => some .scheduled | "e" => some .expired | "x" => some .exempt | _ => none

def retStr : Ret → String
  | .ok => "ok" | .alreadyProposed => "already-proposed" | .alreadyParticipated => "already-participated"
  | .hashErr => "hash-err" | .chanFull => "chan-full" | .timeout => "timeout"

def insertStr (x : String) : List String → List String
  | [] => [x]
  | y :: ys => if x < y then x :: y :: ys else y :: insertStr x ys

def sortStr (l : List String) : List String := l.foldl (fun acc x => insertStr x acc) []

/-- apply one model op; `fromEnds`: returns produced by this step unblock earlier calls. -/
def apply (d : DState) (du : Duty) (op : Op) (fromEnds : Bool) : DState × List Out :=
  let (s', outs) := step crypto d.cfg d.st op
  let (pp, pq) := getPend d du
  let (pp, pq) := outs.foldl (fun (acc : Nat × Nat) o =>
    match o with
    | .blocked .propose _ => (acc.1 + 1, acc.2)
    | .blocked .participate _ => (acc.1, acc.2 + 1)
    | .ret .propose _ _ => if fromEnds then (acc.1 - 1, acc.2) else acc
    | .ret .participate _ _ => if fromEnds then (acc.1, acc.2 - 1) else acc
    | _ => acc) (pp, pq)
  (setPend { d with st := s' } du (pp, pq), outs)

/-- single-member QBFT: a live attached instance with a candidate value decides it and returns. -/
def settle (d : DState) (du : Duty) : DState × List Out :=
  match liveRun d.st du with
  | none => (d, [])
  | some r =>
    if r.decideCalled || !r.attached then (d, [])
    else
      match findIO d.st du with
      | none => (d, [])
      | some io =>
        let cand : Option Nat :=
          match io.value with
          | some (_, p) => some p
          | none => if io.recv > 0 then (d.msgVal.find? (fun p => p.1 = du)).map (·.2) else none
        match cand with
        | none => (d, [])
        | some v =>
          let vals : VMap := [(v + 500 + 1000, v + 500), (v + 1000, v)]
          let (d1, o1) := apply d du (.decide du (v + 1000) vals) false
          let (d2, o2) := apply d1 du (.ends du) true
          (d2, o1 ++ o2)

def isCoreDuty (du : Duty) : Bool := du.type == 2

def summary (d : DState) (du : Duty) (outs : List Out) : String :=
  let st := (outs.filter (fun o => match o with | .runStarted _ => true | _ => false)).length
  let sk := (outs.filter (fun o => match o with | .skipped _ => true | _ => false)).length
  let ps := sortStr (outs.filterMap (fun o => match o with | .ret .propose _ r => some (retStr r) | _ => none))
  let qs := sortStr (outs.filterMap (fun o => match o with | .ret .participate _ r => some (retStr r) | _ => none))
  let subs := outs.filterMap (fun o => match o with
    | .subCall i _ x => if (i % 2 == 1) == isCoreDuty du then some s!"{i}:{x}" else none
    | _ => none)
  let (pp, pq) := getPend d du
  let f := match findIO d.st du with
    | none => "-"
    | some io => (if io.proposed then "1" else "0") ++ (if io.participated then "1" else "0") ++ (if io.running then "1" else "0")
  s!"st={st} sk={sk} P=[{Driver.joinWith "," ps}] Q=[{Driver.joinWith "," qs}] subs=[{Driver.joinWith "," subs}] " ++
    s!"pend={pp}/{pq} ios={d.st.ios.length} f={f}"

inductive Call where
  | p (v : Nat) | q | m (v : Nat)

def doCall (d : DState) (du : Duty) (dl : Status) : Call → DState × List Out
  | .p v =>
    let (d1, o1) := apply d du (.propose du v dl) false
    let (d2, o2) := settle d1 du
    (d2, o1 ++ o2)
  | .q =>
    let (d1, o1) := apply d du (.participate du dl) false
    let (d2, o2) := settle d1 du
    (d2, o1 ++ o2)
  | .m v =>
    if dl ≠ .scheduled then (d, [])       -- `handle` rejects an expired / exempt duty (C05)
    else
      let d0 := if (d.msgVal.find? (fun p => p.1 = du)).isSome then d else { d with msgVal := (du, v) :: d.msgVal }
      let (d1, o1) := apply d0 du (.message du) false
      let (d2, o2) := settle d1 du
      (d2, o1 ++ o2)

def runCalls (d : DState) (du : Duty) (dl : Status) (cs : List Call) : DState × List Out :=
  cs.foldl (fun (acc : DState × List Out) c =>
    let (d', o) := doCall acc.1 du dl c
    (d', acc.2 ++ o)) (d, [])

def perms {α : Type} : List α → List (List α)
  | [] => [[]]
  | x :: xs => (perms xs).flatMap (fun p => (List.range (p.length + 1)).map (fun i => p.take i ++ [x] ++ p.drop i))

def step (d : DState) (line : String) : DState × String :=
  let (cmd, obs) : String × Option String :=
    match line.splitOn " ;; " with
    | [c, o] => (c, some o)
    | _ => (line, none)
  match cmd.splitOn " " with
  | ["cfg", n, pe] =>
    match n.toNat? with
    | some n => ({ cfg := { subs := n, participateEnabled := pe == "1" } }, "ok")
    | none => (d, "bad-op")
  | ["propose", a, b, v, dl] =>
    match parseDuty a b, v.toNat?, parseDl dl with
    | some du, some v, some dl => let (d', o) := doCall d du dl (.p v); (d', summary d' du o)
    | _, _, _ => (d, "bad-op")
  | ["participate", a, b, dl] =>
    match parseDuty a b, parseDl dl with
    | some du, some dl => let (d', o) := doCall d du dl .q; (d', summary d' du o)
    | _, _ => (d, "bad-op")
  | ["msg", a, b, v, _kind, dl] =>
    match parseDuty a b, v.toNat?, parseDl dl with
    | some du, some v, some dl => let (d', o) := doCall d du dl (.m v); (d', summary d' du o)
    | _, _, _ => (d, "bad-op")
  | ["cancel", a, b] =>
    match parseDuty a b with
    | some du => let (d', o) := apply d du (.ends du) true; (d', summary d' du o)
    | none => (d, "bad-op")
  | ["expire", a, b] =>
    match parseDuty a b with
    | some du => let (d', o) := apply d du (.expire du) false; (d', summary d' du o)
    | none => (d, "bad-op")
  | ["race", a, b, v, np, nq, m] =>
    match parseDuty a b, v.toNat?, np.toNat?, nq.toNat?, obs with
    | some du, some v, some np, some nq, some obs =>
      let calls := List.replicate np (Call.p v) ++ List.replicate nq Call.q ++ (if m == "1" then [Call.m v] else [])
      let results := (perms calls).map (fun cs => let (d', o) := runCalls d du .scheduled cs; (d', summary d' du o))
      match results.find? (fun r => r.2 == obs) with
      | some r => (r.1, obs)
      | none => (d, "MISMATCH " ++ (match results with | r :: _ => r.2 | [] => ""))
    | _, _, _, _, _ => (d, "bad-op")
  | _ => (d, "bad-op")

end Driver.ConsWrap

def main : IO Unit := Driver.runLoop Driver.ConsWrap.step {}
