/-
Line driver `drv-reshare` for the stream `reshare` (C11): the protocol-level glue of the
cluster-changing ceremonies, model `CharonV/Model/ReshareProto.lean`.

ops (see harness/cmd/drive-reshare):
  clu <n> <t> <nv>            -> ok
  plan <spec> <this>          -> ok peers=.. pm=.. this=.. ex=.. ped=.. steps=.. ops=.. ut=.. | err <class>
  cer <spec> <sched>          -> ok n=.. t=.. ops=.. idx=.. | err
  nsh <k> <old> | <new>       -> xo=.. xn=.. do=.. dn=.. same=..
spec: reshare | add:<ids> | rm:<ids>:<part|->:<newT> | repl:<old>:<new>
-/
import Driver.Common
import CharonV.Model.ReshareProto

namespace Driver.ReshareProto

open CharonV CharonV.PedersenGlue CharonV.ReshareProto CharonV.Fr

structure DState where
  lock : Option Lock := none
  newT : Option Nat := none     -- threshold of the new lock of the last successful `cer`

def csvNats? (s : String) : Option (List Nat) :=
  if s == "-" || s == "" then some [] else (s.splitOn ",").mapM (·.toNat?)

def showCsv (l : List Nat) : String :=
  if l.isEmpty then "-" else ",".intercalate (l.map toString)

def showMap (m : List (Nat × NodeIdx)) : String :=
  if m.isEmpty then "-" else
    let sorted := m.mergeSort fun a b => a.1 ≤ b.1
    ";".intercalate (sorted.map fun e => s!"{e.1}:{e.2.peerIdx}/{e.2.shareIdx}")

def int? (s : String) : Option Int :=
  if s.startsWith "-" then (s.drop 1).toNat?.map fun n => -(n : Int) else s.toNat?.map fun n => (n : Int)

def spec? (s : String) : Option Kind :=
  match s.splitOn ":" with
  | ["reshare"] => some .reshare
  | ["add", ids] => (csvNats? ids).map .add
  | ["rm", ids, part, nt] =>
    match csvNats? ids, csvNats? part, int? nt with
    | some a, some b, some c => some (.remove a b c)
    | _, _, _ => none
  | ["repl", o, n] =>
    match o.toNat?, n.toNat? with
    | some a, some b => some (.replace a b)
    | _, _ => none
  | _ => none

def showPlan (p : Plan) : String :=
  let rs := p.cfg.reshare.getD ⟨0, 0, [], []⟩
  let hasU := p.steps.contains .updateLock
  let ops := if hasU then showCsv p.operators else "-"
  let ut : Int := if hasU then p.threshold else 0
  s!"ok peers={showCsv p.peers} pm={showMap p.peerMap} this={p.thisIdx.peerIdx}/{p.thisIdx.shareIdx} " ++
  s!"ex={if p.exchanger then 1 else 0} " ++
  s!"ped={showMap p.cfg.peerMap}|{p.cfg.threshold}|{rs.total}|{rs.newThreshold}|{showCsv rs.added}|{showCsv rs.removed} " ++
  s!"steps={String.join (p.steps.map Step.letter)} ops={ops} ut={ut}"

def showOutcome (o : Outcome) : String :=
  let ws := o.writers.mergeSort fun a b => a ≤ b
  let idx := ws.map fun w =>
    match o.filed.idxOf? w with
    | some p => s!"{w}:{p}"
    | none => s!"{w}:?"
  s!"ok n={o.ops.length} t={o.threshold} ops={showCsv o.ops} idx={if idx.isEmpty then "-" else ",".intercalate idx}"

def pts? (s : String) : Option (List (Nat × Nat)) :=
  if s == "-" then some [] else
  (s.splitOn ",").mapM fun e =>
    match e.splitOn ":" with
    | [p, h] => match p.toNat?, ofHex? h with
      | some a, some b => some (a, b)
      | _, _ => none
    | _ => none

def b01 (b : Bool) : String := if b then "1" else "0"

def step (d : DState) (line : String) : DState × String :=
  match line.splitOn " " with
  | ["clu", n, t, nv] =>
    match n.toNat?, t.toNat?, nv.toNat? with
    | some n, some t, some nv => ({ lock := some ⟨List.range n, t, nv⟩, newT := none }, "ok")
    | _, _, _ => (d, "bad-op")
  | ["plan", sp, this] =>
    match d.lock, spec? sp, this.toNat? with
    | some l, some k, some th =>
      match plan k l th with
      | .ok p => (d, showPlan p)
      | .error e => (d, "err " ++ e.str)
    | _, _, _ => (d, "bad-op")
  | ["cer", sp, _sched] =>
    match d.lock, spec? sp with
    | some l, some k =>
      match ceremony k l with
      | .ok o => ({ d with newT := some o.threshold }, showOutcome o)
      | .error _ => ({ d with newT := none }, "err")
    | _, _ => (d, "bad-op")
  | ["nsh", _k, old, "|", new] =>
    match d.lock, d.newT, pts? old, pts? new with
    | some l, some t', some o, some n =>
      if o.length < l.threshold || n.length < t' || l.threshold == 0 || t' == 0 then (d, "bad-op") else
      let xo := lagrangeAt0 (o.take l.threshold)
      let xn := lagrangeAt0 (n.take t')
      (d, s!"xo={toHex32 xo} xn={toHex32 xn} do={b01 (degreeLt l.threshold o)} dn={b01 (degreeLt t' n)} same={b01 (xo == xn)}")
    | _, _, _, _ => (d, "bad-op")
  | _ => (d, "bad-op")

end Driver.ReshareProto

def main : IO Unit := Driver.runLoop Driver.ReshareProto.step ({} : Driver.ReshareProto.DState)
