import CharonV.Model.Retry
import Driver.Common

/-!
Line driver for the retry layer model (`Model/Retry.lean`, C01).

ops
  cfg                                   the wiring pin: which wireFuncs fields WithAsyncRetry wraps, which stay inline
  new                                   fresh Retryer (episode start)
  call <id> <label 0..4> <dl> <pre> <pc>  go DoAsync; dl: deadline attached, pre: already passed, pc: parent ctx cancelled
  ret <id> ok | ret <id> <kind> <hexmsg|->   the running attempt returns; kind plain|net|wnet|ctxc|ctxd|wctxc
  fire <id> | expire <id> | pcancel <id> | shutdown | sdcancel
  delay <i>                             nominal backoff of iteration i in ms
  wnew                                  fresh Retryer + the real core.WithAsyncRetry wrapping over scripted inner functions
  wcall <id> <edge 0..4> <duty>         call the wrapped edge function with (duty, set <id>)
  wret <id> … | wfire <id> | wexpire <id>   as ret / fire / expire, for a call made with wcall
                                        (start events of these calls also print the pair the inner function was handed)
answer: events of the op (`-` when none) ` | active=` label:count of the active map, sorted by label text
-/

open CharonV.Retry

namespace Driver.Retry

def labelName (l : Nat) : String :=
  match wrappedEdges[l]? with
  | some (_, t, n) => s!"{t}/{n}"
  | none => s!"l{l}"

/-- label indices in the order of their texts (bcast/…, consensus/participate, consensus/propose, fetcher/…, parsigex/…). -/
def labelOrder : List Nat := [4, 1, 2, 0, 3]

def hexVal (c : Char) : Option Nat :=
  if '0' ≤ c ∧ c ≤ '9' then some (c.toNat - '0'.toNat)
  else if 'a' ≤ c ∧ c ≤ 'f' then some (c.toNat - 'a'.toNat + 10)
  else none

def unhex : List Char → Option (List Char)
  | [] => some []
  | a :: b :: rest =>
    match hexVal a, hexVal b, unhex rest with
    | some x, some y, some r => some (Char.ofNat (x * 16 + y) :: r)
    | _, _, _ => none
  | _ => none

def parseMsg (s : String) : Option String :=
  if s = "-" then some "" else (unhex s.toList).map String.ofList

def parseOutcome (kind : String) (msg : String) : Option Outcome :=
  match kind with
  | "plain" => some (.err false false msg)
  | "net"   => some (.err true false msg)
  | "wnet"  => some (.err true false ("wrap: " ++ msg))
  | "ctxc"  => some (.err false true (msg ++ ": context canceled"))
  | "ctxd"  => some (.err false true (msg ++ ": context deadline exceeded"))
  | "wctxc" => some (.err false true (msg ++ ": context canceled"))
  | _ => none

def parseBool (s : String) : Option Bool :=
  if s = "0" then some false else if s = "1" then some true else none

def parseOp (l : String) : Option Op :=
  match l.splitOn " " with
  | ["call", id, lab, dl, pre, pc] =>
    match id.toNat?, lab.toNat?, parseBool dl, parseBool pre, parseBool pc with
    | some id, some lab, some dl, some pre, some _ => if lab < 5 then some (.call id lab dl pre) else none
    | _, _, _, _, _ => none
  | ["ret", id, "ok"] => id.toNat?.map (fun id => .ret id .ok)
  | ["ret", id, kind, msg] =>
    match id.toNat?, parseMsg msg with
    | some id, some m => (parseOutcome kind m).map (fun o => .ret id o)
    | _, _ => none
  | ["fire", id] => id.toNat?.map .fire
  | ["expire", id] => id.toNat?.map .expire
  | ["pcancel", id] => id.toNat?.map .pcancel
  | ["shutdown"] => some .shutdown
  | ["sdcancel"] => some .sdcancel
  | _ => none

def showEv : Ev → String
  | .start id i e => s!"start:{id}:{i}:x{if e then 1 else 0}"
  | .backoff id i => s!"backoff:{id}:{i}"
  | .returned id => s!"ret:{id}"
  | .dropped id => s!"drop:{id}"
  | .sdReturned t => if t then "sd:timeout" else "sd:ok"

def showActive (s : State) : String :=
  Driver.joinWith "," ((labelOrder.filter (fun l => 0 < s.active l)).map (fun l => s!"{labelName l}:{s.active l}"))

def cfgLine : String :=
  "wrapped=" ++ Driver.joinWith "," (wrappedEdges.map (fun e => s!"{e.1}:{e.2.1}/{e.2.2}")) ++
  " sync=" ++ Driver.joinWith "," syncEdges ++
  " new=past:expired,none:nodeadline,future:deadline"

structure DS where
  st : State := init
  cap : List (Nat × WCall) := []
  wire : Bool := false          -- the episode was started with wnew: only w-ops (and cfg / delay / new / wnew)

def capOf (d : DS) (id : Nat) : Option WCall := (d.cap.find? (fun p => p.1 == id)).map (·.2)

def showEvW (d : DS) : Ev → String
  | .start id i e =>
    match capOf d id with
    | some w => s!"start:{id}:{i}:x{if e then 1 else 0}:d{w.duty}/s{w.set}@{labelName w.edge}"
    | none => showEv (.start id i e)
  | e => showEv e

def answer (d : DS) (r : State × List Ev) : String :=
  let evs := if r.2.isEmpty then "-" else Driver.joinWith " " (r.2.map (showEvW d))
  s!"{evs} | active={showActive r.1}"

def stepLine (d : DS) (l : String) : DS × String :=
  if l = "cfg" then (d, cfgLine)
  else if l = "new" then ({}, "ok")
  else if l = "wnew" then ({ wire := true }, "ok")
  else match l.splitOn " " with
  | ["delay", i] =>
    match i.toNat? with
    | some i => (d, s!"delay {nominalDelayMs i}")
    | none => (d, "bad-op")
  | ["wcall", id, edge, duty] =>
    match id.toNat?, edge.toNat?, duty.toNat? with
    | some id, some edge, some duty =>
      if edge < 5 ∧ duty < 1000000 ∧ d.wire then
        let w : WCall := { edge := edge, duty := duty, set := id }
        let fresh := (d.st.calls id).isNone
        let r := step d.st (w.op id)
        let d' : DS := { d with st := r.1, cap := if fresh then (id, w) :: d.cap else d.cap }
        (d', answer d' r)
      else (d, "bad-op")
    | _, _, _ => (d, "bad-op")
  | _ =>
    let isW := l.startsWith "wret " || l.startsWith "wfire " || l.startsWith "wexpire "
    let l' := if isW then (l.drop 1).toString else l
    if l.startsWith "wcall" || isW != d.wire then (d, "bad-op") else
    match parseOp l' with
    | none => (d, "bad-op")
    | some o =>
      let r := step d.st o
      ({ d with st := r.1 }, answer d r)

end Driver.Retry

def main : IO Unit := Driver.runLoop Driver.Retry.stepLine ({} : Driver.Retry.DS)
