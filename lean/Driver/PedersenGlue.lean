/-
Line driver for the `pedglue` stream of C11 (`drive-pedglue`): the model `Model/PedersenGlue.lean`
of the node-side glue of `dkg/pedersen` (dkg.go, reshare.go, utils.go, dkg/share/share.go), driven
function by function. G1 points are discrete logarithms (the Go driver builds every point as `s • G`
from a scalar it knows and maps every resulting point back to a scalar it can justify by `s • G`).

tokens:  PB   = p<hex scalar> | j<id>.<len> (junk; j0.0 = empty) | c<id>.<len> (junk cut / padded to 48)
         peer = small number

ops (see `harness/cmd/drive-pedglue/main.go`):
  cfg this=<p> thr=<int> map=<p>:<peerIdx>:<shareIdx>,..            -> ok                (reset op)
  rb <p,..> <ev>..         ev = m<p>.<tag> | T | C                  -> ok <p>.<tag>,.. | err:<class>
  mk <ev>..                ev = m<p>/<PB>/<PB;..|-> | T | C         -> ok nodes=<i>:<hex>,.. pks=<i>:<PB;..>,.. sorted=<i>,.. t=<n|err:..>
  nonce <iter> <i>:<hex48>,..                                       -> <hex32>
  rc <thr> <PB|-> <i>:<PB>,..                                       -> ok <hex>,.. | err:<class>
  rcs <shareNum> <thr> <PB|-> <i>:<PB;..>,..                        -> ok <hex>,.. | err:<class>
  rd <thr> <nodeIdx> <PB> <secret hex> <shareIdx>:<PB>,..           -> ok i=<n> v=<hex> commits=<hex>,.. | err:<class>
  ks <hex>                                                          -> ok sk=<hex> pk=<PB> | err:<class>
  vpk <hex,..|->                                                    -> ok <PB> | err:panic
  pk <v hex> <commits hex,..|-> <ev>..   ev = m<p>/<PB> | O | T | C -> ok pub=<PB> sk=<hex> ps=<k>:<PB>,.. msg=<PB;..> | err:<class>
  bn <ev>..                                                         -> ok | err:<class>
  vps <total> <i>:<PB;..>,..                                        -> ok | err:<class>
  vrc <old> <new> <thr> <nAdded> <nRemoved>                         -> ok | err:<class>
  thr <n> <t>   -> ok | err:<class>          dthr <n> -> <n>
  msg <k>:<PB>,..                                                   -> <PB;..>
-/
import CharonV.Model.Fr
import CharonV.Model.SszSchema
import CharonV.Model.PedersenGlue
import Driver.Common

open CharonV.Fr CharonV.PedersenGlue

namespace Driver.PedersenGlue

open CharonV.Ssz (Bytes Chunk mkChunk Sha256.hashList)

def sha2 (a b : Chunk) : Chunk := mkChunk (Sha256.hashList (a.bytes ++ b.bytes))

/-! ### printing -/

def hexMin (n : Nat) : String := String.ofList (Nat.toDigits 16 n)

def showPB : PB → String
  | .pt s => "p" ++ hexMin s
  | .junk id l => s!"j{id}.{l}"
  | .cut id l => s!"c{id}.{l}"

def showErr (e : Err) : String := "err:" ++ e.str

def commaOr (xs : List String) : String := if xs.isEmpty then "-" else ",".intercalate xs

def showPBs (xs : List PB) : String := if xs.isEmpty then "-" else ";".intercalate (xs.map showPB)

def byteHex (b : UInt8) : String :=
  String.ofList [hexChar (b.toNat / 16), hexChar (b.toNat % 16)]

def bytesHex (b : Bytes) : String := String.join (b.map byteHex)

/-! ### parsing -/

def parseHex (s : String) : Option Nat := if s.isEmpty then none else ofHex? s

def parsePB (s : String) : Option PB :=
  match s.toList with
  | 'p' :: rest => (parseHex (String.ofList rest)).bind fun v => if v < r then some (.pt v) else none
  | 'j' :: rest =>
    match (String.ofList rest).splitOn "." with
    | [a, b] => do some (.junk (← a.toNat?) (← b.toNat?))
    | _ => none
  | 'c' :: rest =>
    match (String.ofList rest).splitOn "." with
    | [a, b] => do some (.cut (← a.toNat?) (← b.toNat?))
    | _ => none
  | _ => none

def parsePBs (s : String) : Option (List PB) :=
  if s == "-" || s.isEmpty then some [] else (s.splitOn ";").mapM parsePB

def parseOptPB (s : String) : Option (Option PB) :=
  if s == "-" then some none else (parsePB s).map some

def parseList {α : Type} (f : String → Option α) (s : String) : Option (List α) :=
  if s == "-" || s.isEmpty then some [] else (s.splitOn ",").mapM f

def parseBytes (s : String) : Option Bytes :=
  let cs := s.toList
  let rec go : Nat → List Char → List UInt8 → Option (List UInt8)
    | 0, _, acc => some acc.reverse
    | _ + 1, [], acc => some acc.reverse
    | _ + 1, [_], _ => none
    | fuel + 1, a :: b :: rest, acc =>
      match hexDigit? a, hexDigit? b with
      | some x, some y => go fuel rest (UInt8.ofNat (x * 16 + y) :: acc)
      | _, _ => none
  go (cs.length + 1) cs []

def fget (fs : List (String × String)) (k : String) : Option String := (fs.find? (·.1 == k)).map (·.2)

def kvs (ws : List String) : List (String × String) :=
  ws.filterMap fun w => match w.splitOn "=" with
    | [k, v] => some (k, v)
    | _ => none

def parseMapEntry (s : String) : Option (Nat × NodeIdx) :=
  match s.splitOn ":" with
  | [p, a, b] => do some (← p.toNat?, ⟨← a.toNat?, ← b.toNat?⟩)
  | _ => none

def parseCfg (ws : List String) : Option Cfg := do
  let fs := kvs ws
  let this ← (← fget fs "this").toNat?
  let thr ← (← fget fs "thr").toInt?
  let pm ← parseList parseMapEntry (← fget fs "map")
  some { thisPeer := this, peerMap := pm, threshold := thr }

/-- an event with a payload parser; `O` (the node's own broadcast) is resolved by the caller. -/
inductive PEv (M : Type) where
  | ev (e : Ev M)
  | own

def parseEv {M : Type} (f : String → Option M) (s : String) : Option (PEv M) :=
  if s == "T" then some (.ev .timeout)
  else if s == "C" then some (.ev .ctxDone)
  else if s == "O" then some .own
  else match s.toList with
    | 'm' :: rest => (f (String.ofList rest)).map fun m => .ev (.msg m)
    | _ => none

def owns {M : Type} (evs : List (PEv M)) : Nat :=
  (evs.filter fun e => match e with | .own => true | _ => false).length

def resolve {M : Type} (own : Option M) (evs : List (PEv M)) : List (Ev M) :=
  evs.filterMap fun e => match e with
    | .ev e => some e
    | .own => own.map .msg

def parseTag (s : String) : Option (Nat × String) :=
  match s.splitOn "." with
  | [p, t] => p.toNat?.map fun p => (p, t)
  | _ => none

def parseNpk (s : String) : Option NodePubKeys :=
  match s.splitOn "/" with
  | [p, pub, shares] => do some ⟨← p.toNat?, ← parsePB pub, ← parsePBs shares⟩
  | _ => none

def parseVpks (s : String) : Option ValPubKeyShare :=
  match s.splitOn "/" with
  | [p, key] => do some ⟨← p.toNat?, ← parsePB key⟩
  | _ => none

def parseIdxPB (s : String) : Option (Int × PB) :=
  match s.splitOn ":" with
  | [i, pb] => do some (← i.toInt?, ← parsePB pb)
  | _ => none

def parseNatPB (s : String) : Option (Nat × PB) :=
  match s.splitOn ":" with
  | [i, pb] => do some (← i.toNat?, ← parsePB pb)
  | _ => none

def parseNatPBs (s : String) : Option (Nat × List PB) :=
  match s.splitOn ":" with
  | [i, pbs] => do some (← i.toNat?, ← parsePBs pbs)
  | _ => none

def parseNonceNode (s : String) : Option (Nat × Bytes) :=
  match s.splitOn ":" with
  | [i, b] => do some (← i.toNat?, ← parseBytes b)
  | _ => none

/-! ### answers -/

def showCommits (r : Except Err (List Nat)) : String :=
  match r with
  | .ok cs => "ok " ++ commaOr (cs.map hexMin)
  | .error e => showErr e

def showUnit (r : Except Err Unit) : String :=
  match r with
  | .ok () => "ok"
  | .error e => showErr e

def sortAssoc {β : Type} (m : List (Nat × β)) : List (Nat × β) := m.mergeSort fun a b => a.1 ≤ b.1

def showShare (s : Share) : String :=
  let ps := (sortAssoc s.publicShares).map fun e => s!"{e.1}:{showPB e.2}"
  s!"ok pub={showPB s.pubKey} sk={hexMin s.secret} ps={commaOr ps} msg={showPBs (msgPubShares s)}"

def step (c : Cfg) (line : String) : Cfg × String :=
  let ws := (line.splitOn " ").filter (· ≠ "")
  match ws with
  | "cfg" :: rest =>
    match parseCfg rest with
    | some c' => (c', "ok")
    | none => (c, "bad-op")
  | "rb" :: exp :: evs =>
    match parseList String.toNat? exp, evs.mapM (parseEv parseTag) with
    | some exp, some evs =>
      if owns evs ≠ 0 then (c, "bad-op") else
      let out := match (readBoard (·.1) exp (resolve none evs) []).toExcept with
        | .ok msgs => "ok " ++ commaOr (msgs.map fun m => s!"{m.1}.{m.2}")
        | .error e => showErr e
      (c, out)
    | _, _ => (c, "bad-op")
  | "mk" :: evs =>
    match evs.mapM (parseEv parseNpk) with
    | some evs =>
      if owns evs ≠ 0 then (c, "bad-op") else
      let out := match makeNodes c (resolve none evs) with
        | .error e => showErr e
        | .ok (nodes, pks) =>
          let ns := nodes.map fun n => s!"{n.index}:{hexMin n.pub}"
          let ps := (sortAssoc pks).map fun e => s!"{e.1}:{showPBs e.2}"
          let sorted := sortNodes nodes
          let t := match dkgThreshold c sorted with
            | .ok t => toString t
            | .error e => showErr e
          s!"ok nodes={commaOr ns} pks={commaOr ps} sorted={commaOr (sorted.map fun n => toString n.index)} t={t}"
      (c, out)
    | none => (c, "bad-op")
  | ["nonce", iter, nodes] =>
    match iter.toNat?, parseList parseNonceNode nodes with
    | some iter, some nodes => (c, bytesHex (generateNonce sha2 nodes iter).bytes)
    | _, _ => (c, "bad-op")
  | ["rc", thr, exp, m] =>
    match thr.toInt?, parseOptPB exp, parseList parseIdxPB m with
    | some thr, some exp, some m => (c, showCommits (restoreCommitsFromPubShares m thr exp))
    | _, _, _ => (c, "bad-op")
  | ["rcs", sn, thr, exp, m] =>
    match sn.toNat?, thr.toInt?, parseOptPB exp, parseList parseNatPBs m with
    | some sn, some thr, some exp, some m => (c, showCommits (restoreCommits m sn thr exp))
    | _, _, _, _ => (c, "bad-op")
  | ["rd", thr, idx, pub, sk, ps] =>
    match thr.toInt?, idx.toNat?, parsePB pub, parseHex sk, parseList parseNatPB ps with
    | some thr, some idx, some pub, some sk, some ps =>
      let out := match restoreDistKeyShare ⟨pub, sk, ps⟩ thr idx with
        | .ok d => s!"ok i={d.idx} v={hexMin d.v} commits={commaOr (d.commits.map hexMin)}"
        | .error e => showErr e
      (c, out)
    | _, _, _, _, _ => (c, "bad-op")
  | ["ks", v] =>
    match parseHex v with
    | some v =>
      let out := match keyShareToBLS ⟨0, v, []⟩ with
        | .ok (sk, pk) => s!"ok sk={hexMin sk} pk={showPB pk}"
        | .error e => showErr e
      (c, out)
    | none => (c, "bad-op")
  | ["vpk", cs] =>
    match parseList parseHex cs with
    | some cs =>
      let out := match distKeyShareToValidatorPubKey ⟨0, 0, cs⟩ with
        | .ok pk => "ok " ++ showPB pk
        | .error e => showErr e
      (c, out)
    | none => (c, "bad-op")
  | "pk" :: v :: cs :: evs =>
    match parseHex v, parseList parseHex cs, evs.mapM (parseEv parseVpks) with
    | some v, some cs, some evs =>
      if owns evs ≠ 1 then (c, "bad-op") else
      let k : DistKeyShare := ⟨0, v, cs⟩
      let own := (ownBroadcast k).map fun pk => (⟨c.thisPeer, pk⟩ : ValPubKeyShare)
      let out := match processKey c k (resolve own evs) with
        | .ok s => showShare s
        | .error e => showErr e
      (c, out)
    | _, _, _ => (c, "bad-op")
  | "bn" :: evs =>
    match evs.mapM (parseEv parseVpks) with
    | some evs =>
      if owns evs ≠ 1 then (c, "bad-op") else
      let own : ValPubKeyShare := ⟨c.thisPeer, .junk 0 0⟩
      let out := match (readBoard (·.peer) c.peerIDs (resolve (some own) evs) []).toExcept with
        | .ok _ => "ok"
        | .error e => showErr e
      (c, out)
    | none => (c, "bad-op")
  | ["vps", total, m] =>
    match total.toNat?, parseList parseNatPBs m with
    | some total, some m => (c, showUnit (validatePubKeyShares m total))
    | _, _ => (c, "bad-op")
  | ["vrc", o, n, thr, na, nr] =>
    match o.toNat?, n.toNat?, thr.toInt?, na.toNat?, nr.toNat? with
    | some o, some n, some thr, some na, some nr =>
      (c, showUnit (validateReshareNodeCounts o n thr ⟨0, 0, List.replicate na 0, List.replicate nr 0⟩))
    | _, _, _, _, _ => (c, "bad-op")
  | ["thr", n, t] =>
    match n.toNat?, t.toInt? with
    | some n, some t => (c, showUnit (validateThreshold n t))
    | _, _ => (c, "bad-op")
  | ["dthr", n] =>
    match n.toNat? with
    | some n => (c, toString (defaultThreshold n))
    | none => (c, "bad-op")
  | ["msg", ps] =>
    match parseList parseNatPB ps with
    | some ps => (c, showPBs (msgPubShares ⟨.junk 0 0, 0, ps⟩))
    | none => (c, "bad-op")
  | _ => (c, "bad-op")

end Driver.PedersenGlue

def main : IO Unit :=
  Driver.runLoop Driver.PedersenGlue.step { thisPeer := 0, peerMap := [], threshold := 0 }
