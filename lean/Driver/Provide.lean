import Driver.Common

-- placeholder until the C19 model driver is written
def main : IO Unit := Driver.runLoop (fun (s : Unit) (_ : String) => (s, "bad-op")) ()
