import CharonV.Model.Provide
import CharonV.Model.ProxyCall
import Driver.Common

/-
Line driver for the provide/submit model (C19). One op = one complete call:

  call <p|s> sf=<0|1> P=<nodes> F=<nodes|-> ev=<events|->

node  = <class><variant><h|i>   class ∈ ok nk to sy bg er ; variant = one digit (which concrete
        error/value the Go driver uses, irrelevant to the model) ; h = worker honours its context
event = p<i> | f<i> | x

output: <result> n=<events consumed> fb=<0|1>
result: ok:<p|f><i> | nok:<p|f><i> | err:<p|f><i>:<class> | ctx | bug | stuck   (submit: ok | err:… | ctx | bug | stuck)

  proxy <GET|POST> body=<nil|E|<n>.<s>|<n>.<s>.e<k>> P=<nodes> F=<nodes|-> ev=<events|->
      `multi.Proxy` (Model/ProxyCall): byte i of the body = (s + 13 i + i/251) mod 256; e<k>: reading the
      caller's body fails after k bytes; E = http.NoBody
output: <result|rderr> n=… fb=… recv=<node:len.sum|node:nil,…|-> caller=<bytes read>/<closes>|- rb=<len.sum|nil|caller> cl=<ContentLength>

  http <ver|sub|pxy> to=<ms> P=<kinds> F=<kinds|-> cancel=<ms|-> uses=<1|2> [hold=<ms>]    kind = ok | hg | dd | sl
      (hold: a second caller of the same call that gives up after <ms>; its result is appended as bg=…)
      the lazy / http path: scenario and event order of Model/ProxyCall (`httpScen`, `httpEvents`)
output: r=<ok:<node>|ok|err:un|err:er|ctx> fb=<0|1> [ | the same again for the second use ]
-/
open CharonV.Provide

namespace Driver.Provide

def parseNode (s : String) : Option Node :=
  match s.toList with
  | [a, b, v, h] =>
    if !v.isDigit then none else
    let out : Option Outcome :=
      match String.ofList [a, b] with
      | "ok" => some .ok | "nk" => some .nok | "to" => some .timeout
      | "sy" => some .syncing | "bg" => some .badgw | "er" => some .other
      | _ => none
    let hon : Option Bool := if h == 'h' then some true else if h == 'i' then some false else none
    match out, hon with
    | some o, some hn => some ⟨o, hn⟩
    | _, _ => none
  | _ => none

def parseNodes (s : String) : Option (List Node) :=
  if s == "-" then some [] else (s.splitOn ",").mapM parseNode

def parseEv (s : String) : Option Ev :=
  match s.toList with
  | ['x'] => some .cancel
  | 'p' :: rest => (String.ofList rest).toNat?.map (fun i => Ev.rel false i)
  | 'f' :: rest => (String.ofList rest).toNat?.map (fun i => Ev.rel true i)
  | _ => none

def parseEvs (s : String) : Option (List Ev) :=
  if s == "-" then some [] else (s.splitOn ",").mapM parseEv

def clsStr : Outcome → String
  | .ok => "ok" | .nok => "nk" | .timeout => "to" | .syncing => "sy" | .badgw => "bg" | .other => "er"

def grp (fb : Bool) : String := if fb then "f" else "p"

def resStr (submit : Bool) : Res → String
  | .okFrom fb i => if submit then "ok" else s!"ok:{grp fb}{i}"
  | .nokFrom fb i => if submit then "ok" else s!"nok:{grp fb}{i}"
  | .errFrom fb i c => s!"err:{grp fb}{i}:{clsStr c}"
  | .ctxErr => "ctx"
  | .bug => "bug"
  | .stuck => "stuck"

def dropPrefix (pre s : String) : Option String :=
  if s.startsWith pre then some (s.drop pre.length).toString else none

def step (u : Unit) (line : String) : Unit × String :=
  match line.splitOn " " with
  | ["call", style, sf, p, f, ev] =>
    match dropPrefix "sf=" sf, dropPrefix "P=" p, dropPrefix "F=" f, dropPrefix "ev=" ev with
    | some sfv, some ps, some fs, some es =>
      match parseNodes ps, parseNodes fs, parseEvs es with
      | some prim, some fb, some evs =>
        if style != "p" && style != "s" then (u, "bad-op") else
        if sfv != "0" && sfv != "1" then (u, "bad-op") else
        let submitStyle := style == "s"
        -- a submit work function has no output to reject
        if submitStyle && (sfv == "1" || (prim ++ fb).any (fun n => n.out == .nok)) then (u, "bad-op") else
        let sc : Scen := { prim := prim, fb := fb, sf := sfv == "1" }
        let r := if submitStyle then submit sc evs else provide sc evs
        let usedFb := usedFallback { sc with sf := if submitStyle then false else sc.sf } evs
        (u, s!"{resStr submitStyle r.1} n={r.2} fb={if usedFb then 1 else 0}")
      | _, _, _ => (u, "bad-op")
    | _, _, _, _ => (u, "bad-op")
  | _ => (u, "bad-op")

/-! ### proxy ops -/

def bodyBytes (n s : Nat) : List Nat := (List.range n).map (fun i => (s + 13 * i + i / 251) % 256)

def digest (b : List Nat) : String :=
  s!"{b.length}.{b.foldl (fun acc x => (acc * 131 + x + 1) % 1000003) 7}"

inductive BodySpec where
  | nil | noBody
  | bytes (n s : Nat) (failAt : Option Nat)

def parseBody (s : String) : Option BodySpec :=
  if s == "nil" then some .nil
  else if s == "E" then some .noBody
  else
    match s.splitOn "." with
    | [a, b] =>
      match a.toNat?, b.toNat? with
      | some n, some sd => if n > 1048576 then none else some (.bytes n sd none)
      | _, _ => none
    | [a, b, c] =>
      match a.toNat?, b.toNat?, dropPrefix "e" c with
      | some n, some sd, some ks =>
        match ks.toNat? with
        | some k => if k > n || n > 1048576 then none else some (.bytes n sd (some k))
        | none => none
      | _, _, _ => none
    | _ => none

def keyStr (k : Key) : String := s!"{grp k.1}{k.2}"

def stepProxy (method body p f ev : String) : String :=
  match dropPrefix "body=" body, dropPrefix "P=" p, dropPrefix "F=" f, dropPrefix "ev=" ev with
  | some bs, some ps, some fs, some es =>
    match parseBody bs, parseNodes ps, parseNodes fs, parseEvs es with
    | some spec, some prim, some fb, some evs =>
      if method != "GET" && method != "POST" then "bad-op" else
      if (prim ++ fb).any (fun n => n.out == .nok) then "bad-op" else
      let sc : Scen := { prim := prim, fb := fb, sf := false }
      -- the caller's request: its body reader (if any) is reader 0 of the heap
      let (h0, req0) : Heap × Req :=
        match spec with
        | .nil => ([], { post := method == "POST", body := none, clen := 0, getBody := none })
        | .noBody => ([freshReader []], { post := method == "POST", body := some 0, clen := 0, getBody := none })
        | .bytes n sd fa =>
          ([{ data := bodyBytes n sd, pos := 0, failAt := fa, closes := 0 }],
           { post := method == "POST", body := some 0, clen := if sd % 2 == 0 then n else 0, getBody := none })
      let run := proxy sc evs h0 req0
      let rs := match run.res with
        | .readErr => "rderr"
        | .ret r => resStr false r
      let (h1, got) := nodesRead run.heap run.handed
      let recv := got.map (fun (k, b) => match b with
        | none => s!"{keyStr k}:nil"
        | some bytes => s!"{keyStr k}:{digest bytes}")
      let caller := match spec, h1[0]? with
        | .bytes _ _ _, some r => s!"{r.pos}/{r.closes}"
        | _, _ => "-"
      let rb := match run.req.body with
        | none => "nil"
        | some id =>
          if id == 0 then "caller" else digest (readAll h1 id).2.1
      let recvStr := if recv.isEmpty then "-" else ",".intercalate recv
      s!"{rs} n={run.consumed} fb={if run.usedFb then 1 else 0} recv={recvStr} caller={caller} rb={rb} cl={run.req.clen}"
    | _, _, _, _ => "bad-op"
  | _, _, _, _ => "bad-op"

/-! ### http ops -/

def parseKind (s : String) : Option Kind :=
  match s with
  | "ok" => some .healthy | "hg" => some .hung | "dd" => some .dead | "sl" => some .slow
  | _ => none

def parseKinds (s : String) : Option (List Kind) :=
  if s == "-" then some [] else (s.splitOn ",").mapM parseKind

def stepHttp (style to p f cancel uses : String) (hold : Option String := none) : String :=
  match dropPrefix "to=" to, dropPrefix "P=" p, dropPrefix "F=" f, dropPrefix "cancel=" cancel, dropPrefix "uses=" uses with
  | some tos, some ps, some fs, some cs, some us =>
    match tos.toNat?, parseKinds ps, parseKinds fs, us.toNat? with
    | some t, some prim, some fb, some u =>
      if style != "ver" && style != "sub" && style != "pxy" then "bad-op" else
      if t < 50 || t > 60000 || u < 1 || u > 2 || ps == "-" then "bad-op" else
      let cancelled : Option Bool :=
        if cs == "-" then some false else
        match cs.toNat? with
        | some c => if c < t then some true else none
        | none => none
      match cancelled with
      | none => "bad-op"
      | some cn =>
        let sc := httpScen prim fb
        let evs := httpEvents prim fb cn
        let r := provide sc evs
        let rs := match r.1 with
          | .okFrom g i => if style == "sub" then "ok" else s!"ok:{grp g}{i}"
          | .errFrom _ _ c => if unavailable c then "err:un" else "err:er"
          | .ctxErr => "ctx"
          | .nokFrom _ _ => "nok" | .bug => "bug" | .stuck => "stuck"
        let fbSeen := usedFallback sc evs && fb.any (fun k => k != .dead)
        let one := s!"r={rs} fb={if fbSeen then 1 else 0}"
        match hold with
        | none => if u == 2 then s!"{one} | {one}" else one
        | some hs =>
          -- the background caller is a cancelled call of its own over the same nodes
          match (dropPrefix "hold=" hs).bind String.toNat? with
          | some hms =>
            if hms ≥ t || u != 1 || !cn || style == "pxy" then "bad-op" else
            let rb := provide sc (httpEvents prim fb true)
            let bs := match rb.1 with
              | .okFrom _ _ => "ok" | .ctxErr => "ctx" | _ => "err"
            s!"{one} | bg={bs}"
          | none => "bad-op"
    | _, _, _, _ => "bad-op"
  | _, _, _, _, _ => "bad-op"

def stepAll (u : Unit) (line : String) : Unit × String :=
  match line.splitOn " " with
  | ["proxy", method, body, p, f, ev] => (u, stepProxy method body p f ev)
  | ["http", style, to, p, f, cancel, uses] => (u, stepHttp style to p f cancel uses)
  | ["http", style, to, p, f, cancel, uses, hold] => (u, stepHttp style to p f cancel uses (some hold))
  | _ => step u line

end Driver.Provide

def main : IO Unit := Driver.runLoop Driver.Provide.stepAll ()
