import CharonV.Model.Provide
import Driver.Common

/-
Line driver for the provide/submit model (C19). One op = one complete call:

  call <p|s> sf=<0|1> P=<nodes> F=<nodes|-> ev=<events|->

node  = <class><variant><h|i>   class ∈ ok nk to sy bg er ; variant = one digit (which concrete
        error/value the Go driver uses, irrelevant to the model) ; h = worker honours its context
event = p<i> | f<i> | x

output: <result> n=<events consumed> fb=<0|1>
result: ok:<p|f><i> | nok:<p|f><i> | err:<p|f><i>:<class> | ctx | bug | stuck   (submit: ok | err:… | ctx | bug | stuck)
-/
open CharonV.Provide

namespace Driver.Provide

def parseNode (s : String) : Option Node :=
  match s.toList with
  | [a, b, v, h] =>
    if !v.isDigit then none else
    let out : Option Outcome :=
      match String.ofList [a, b] with
      | "ok" => some .ok | "nk" => some .nok | "to" => some .timeout
      | "sy" => some .syncing | "bg" => some .badgw | "er" => some .other
      | _ => none
    let hon : Option Bool := if h == 'h' then some true else if h == 'i' then some false else none
    match out, hon with
    | some o, some hn => some ⟨o, hn⟩
    | _, _ => none
  | _ => none

def parseNodes (s : String) : Option (List Node) :=
  if s == "-" then some [] else (s.splitOn ",").mapM parseNode

def parseEv (s : String) : Option Ev :=
  match s.toList with
  | ['x'] => some .cancel
  | 'p' :: rest => (String.ofList rest).toNat?.map (fun i => Ev.rel false i)
  | 'f' :: rest => (String.ofList rest).toNat?.map (fun i => Ev.rel true i)
  | _ => none

def parseEvs (s : String) : Option (List Ev) :=
  if s == "-" then some [] else (s.splitOn ",").mapM parseEv

def clsStr : Outcome → String
  | .ok => "ok" | .nok => "nk" | .timeout => "to" | .syncing => "sy" | .badgw => "bg" | .other => "er"

def grp (fb : Bool) : String := if fb then "f" else "p"

def resStr (submit : Bool) : Res → String
  | .okFrom fb i => if submit then "ok" else s!"ok:{grp fb}{i}"
  | .nokFrom fb i => if submit then "ok" else s!"nok:{grp fb}{i}"
  | .errFrom fb i c => s!"err:{grp fb}{i}:{clsStr c}"
  | .ctxErr => "ctx"
  | .bug => "bug"
  | .stuck => "stuck"

def dropPrefix (pre s : String) : Option String :=
  if s.startsWith pre then some (s.drop pre.length).toString else none

def step (u : Unit) (line : String) : Unit × String :=
  match line.splitOn " " with
  | ["call", style, sf, p, f, ev] =>
    match dropPrefix "sf=" sf, dropPrefix "P=" p, dropPrefix "F=" f, dropPrefix "ev=" ev with
    | some sfv, some ps, some fs, some es =>
      match parseNodes ps, parseNodes fs, parseEvs es with
      | some prim, some fb, some evs =>
        if style != "p" && style != "s" then (u, "bad-op") else
        if sfv != "0" && sfv != "1" then (u, "bad-op") else
        let submitStyle := style == "s"
        -- a submit work function has no output to reject
        if submitStyle && (sfv == "1" || (prim ++ fb).any (fun n => n.out == .nok)) then (u, "bad-op") else
        let sc : Scen := { prim := prim, fb := fb, sf := sfv == "1" }
        let r := if submitStyle then submit sc evs else provide sc evs
        let usedFb := usedFallback { sc with sf := if submitStyle then false else sc.sf } evs
        (u, s!"{resStr submitStyle r.1} n={r.2} fb={if usedFb then 1 else 0}")
      | _, _, _ => (u, "bad-op")
    | _, _, _, _ => (u, "bad-op")
  | _ => (u, "bad-op")

end Driver.Provide

def main : IO Unit := Driver.runLoop Driver.Provide.step ()
