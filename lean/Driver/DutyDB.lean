import CharonV.Model.DutyDB
import Driver.Common

/-!
Line driver for the duty store model (C06). Same op lines as `harness/cmd/drive-dutydb`
(see the protocol description there); prints the model's canonical result per op.
The model runs with `defaultCfg` (the code AS IT IS) unless the stream contains
`cfg <keepFirstAgg 0|1> <checkSlot 0|1>` (used to try a tree that carries a proposed fix).
-/

open CharonV.DutyDB

namespace Driver.DutyDB

/-- The configuration the tree under test is expected to have. FLIP HERE when a proposed fix is
applied to /repo: `⟨true, false⟩` after fixes/C06-agg-keep-first.diff, `⟨_, true⟩` after
fixes/C06-slot-check.diff (fields: keepFirstAgg, checkSlot). -/
def defaultCfg : Cfg := { keepFirstAgg := true, checkSlot := false }  -- D-4 fixed in /repo (6cb0484); D-5 recorded

structure DState where
  cfg : Cfg := defaultCfg
  st : State := {}

def nats (xs : List String) : Option (List Nat) := xs.mapM (·.toNat?)

def keyStr : Key → String
  | .att s c => s!"A{s}.{c}"
  | .pro s => s!"P{s}"
  | .agg s r c => s!"G{s}.{r}.{c}"
  | .con s b r => s!"C{s}.{b}.{r}"
  | .pk s c v => s!"K{s}.{c}.{v}"

def valStr : Val → String
  | .att d => s!"a({d.slot}.{d.index}.{d.head}.{d.src}.{d.tgt})"
  | .pro r p => s!"p({r}.{p})"
  | .agg p => s!"g({p})"
  | .con p => s!"c({p})"
  | .pk p => s!"k({p})"

def errStr : Err → String
  | .expired => "expired" | .len => "len" | .deprecated => "deprecated" | .unsupported => "unsupported"
  | .invalid => "invalid" | .slot => "slot" | .clashPk => "clashPk" | .clashAtt => "clashAtt"
  | .clashSrc => "clashSrc" | .clashTgt => "clashTgt" | .clashPro => "clashPro" | .clashCon => "clashCon"
  | .unknownDuty => "unknownDuty"

def insertSorted (x : String) : List String → List String
  | [] => [x]
  | y :: ys => if x < y then x :: y :: ys else y :: insertSorted x ys

def sortStrs (xs : List String) : List String := xs.foldl (fun acc x => insertSorted x acc) []

def pendStr (s : State) : String :=
  let f (k : Kind) : String :=
    let qs := s.pend.filter (fun q => q.key.kind == k)
    s!"{(qs.filter (fun q => !q.cancelled)).length}/{qs.length}"
  "pend{a:" ++ f .att ++ ",p:" ++ f .pro ++ ",g:" ++ f .agg ++ ",c:" ++ f .con ++ "}"

def idxStr (e : Duty × Key) : String :=
  let t := match e.1.type with
    | .attester => "a" | .aggregator => "g" | .sync => "c" | .proposer => "p" | .builder => "b" | .other => "o"
  s!"{t}{e.1.slot}:{keyStr e.2}"

def snapStr (s : State) : String :=
  "kv{" ++ Driver.joinWith "," (sortStrs (s.kv.map (fun e => keyStr e.1 ++ "=" ++ valStr e.2))) ++ "} idx{" ++
    Driver.joinWith "," (sortStrs (s.idx.map idxStr)) ++ "} " ++ pendStr s

def resolvedStr (r : List (Nat × Key × Val)) : String :=
  "r[" ++ Driver.joinWith "," (r.map (fun a => s!"q{a.1}={valStr a.2.2}")) ++ "]"

def dtype? : String → Option DType
  | "att" => some .attester | "pro" => some .proposer | "agg" => some .aggregator | "con" => some .sync
  | "bld" => some .builder | "oth" => some .other | _ => none

def conOf (t : String) : Option ConDatum :=
  match nats (t.splitOn ".") with
  | some [s, b, r, p] => some ⟨s, b, r, p⟩
  | _ => none

def entry? (tok : String) : Option Datum :=
  match tok.splitOn ":" with
  | ["A", pk, slot, index, head, src, tgt, dslot, comm, val] =>
    match nats [pk, slot, index, head, src, tgt, dslot, comm, val] with
    | some [pk, slot, index, head, src, tgt, dslot, comm, val] =>
      some (.att ⟨pk, ⟨slot, index, head, src, tgt⟩, dslot, comm, val⟩)
    | _ => none
  | ["P", slot, root, pay] =>
    match nats [slot, root, pay] with
    | some [slot, root, pay] => some (.pro ⟨slot, root, pay⟩)
    | _ => none
  | ["G", slot, r, comm, pay] =>
    match nats [slot, r, comm, pay] with
    | some [slot, r, comm, pay] => some (.agg ⟨slot, slot * 100 + r, comm, pay⟩)
    | _ => none
  | ["C", rest] =>
    if rest.isEmpty then some (.con []) else ((rest.splitOn ",").mapM conOf).map Datum.con
  | ["S", rest] => (conOf rest).map (fun c => Datum.con [c])
  | _ => none

def resStr : Res → String
  | .ok => "ok" | .err e => "err:" ++ errStr e | .qid n => s!"q{n}" | .found v => "found:" ++ valStr v
  | .notFound => "notfound" | .none => "-" | .bad => "bad-op"

/-- one sub-operation of a race: the atomic model op (only the kinds that may race). -/
def subOp? : List String → Option Op
  | "store" :: ty :: slot :: st :: toks =>
    match dtype? ty, slot.toNat?, toks.mapM entry? with
    | some t, some sl, some set => if st == "a" then some (.store ⟨sl, t⟩ false set) else none
    | _, _, _ => none
  | "await" :: kind :: args =>
    match kind, nats args with
    | "att", some [s, c] => some (.await (.att s c))
    | "pro", some [s] => some (.await (.pro s))
    | "agg", some [s, rs, r, c] => some (.await (.agg s (rs * 100 + r) c))
    | "con", some [s, b, r] => some (.await (.con s b r))
    | _, _ => none
  | ["cancel", q] => q.toNat?.map Op.cancel
  | ["pubkey", a, b, c] =>
    match nats [a, b, c] with
    | some [a, b, c] => some (.pubkey a b c)
    | _ => none
  | _ => none

/-- split a token list at every occurrence of `sep`. -/
def splitToks (sep : String) (toks : List String) : List (List String) :=
  let r := toks.foldl (fun (acc : List (List String) × List String) t =>
    if t == sep then (acc.1 ++ [acc.2], []) else (acc.1, acc.2 ++ [t])) ([], [])
  r.1 ++ [r.2]

def insertAll {α : Type} (x : α) : List α → List (List α)
  | [] => [[x]]
  | y :: ys => (x :: y :: ys) :: (insertAll x ys).map (fun l => y :: l)

def perms {α : Type} : List α → List (List α)
  | [] => [[]]
  | x :: xs => (perms xs).flatMap (insertAll x)

def insertByQid (a : Nat × Key × Val) : List (Nat × Key × Val) → List (Nat × Key × Val)
  | [] => [a]
  | b :: bs => if a.1 < b.1 then a :: b :: bs else b :: insertByQid a bs

/-- run the sub-operations in the given order (indices into `ops`); the canonical outcome lists the
results in the order of the op line, all queries answered on the way (by id) and the final snapshot. -/
def runOrder (cfg : Cfg) (s : State) (ops : List Op) (order : List Nat) : State × String :=
  let r := order.foldl (fun (acc : State × List (Nat × String) × List (Nat × Key × Val)) i =>
    match ops[i]? with
    | none => acc
    | some op =>
      let x := CharonV.DutyDB.step cfg acc.1 op
      (x.1, (i, resStr x.2.res) :: acc.2.1, acc.2.2 ++ x.2.resolved)) (s, [], [])
  let results := (List.range ops.length).map (fun i =>
    match r.2.1.find? (fun e => e.1 == i) with
    | some e => e.2
    | none => "?")
  let resolved := r.2.2.foldl (fun acc a => insertByQid a acc) []
  (r.1, Driver.joinWith " " results ++ " " ++ resolvedStr resolved ++ " " ++ snapStr r.1)

def step (d : DState) (line : String) : DState × String :=
  let run (op : Op) (fmt : State → Out → String) : DState × String :=
    let r := CharonV.DutyDB.step d.cfg d.st op
    ({ d with st := r.1 }, fmt r.1 r.2)
  match line.splitOn " " with
  | ["new"] => ({ d with st := {} }, "ok")
  | ["cfg", a, b] =>
    match a.toNat?, b.toNat? with
    | some a, some b => ({ cfg := ⟨a == 1, b == 1⟩, st := {} }, "ok")
    | _, _ => (d, "bad-op")
  | "race" :: rest =>
    -- `race <sub> ; <sub> [; <sub>] => <observed outcome>`: accepted iff SOME sequential order of the
    -- atomic sub-operations produces exactly the observed results and final state (linearisability);
    -- the model continues from the state of the first such order.
    match splitToks "=>" rest with
    | [lhs, obs] =>
      match (splitToks ";" lhs).mapM subOp? with
      | some ops =>
        if ops.length == 0 || ops.length > 3 then (d, "bad-op") else
        let observed := Driver.joinWith " " obs
        let cands := (perms (List.range ops.length)).map (runOrder d.cfg d.st ops)
        match cands.find? (fun c => c.2 == observed) with
        | some c => ({ d with st := c.1 }, "lin " ++ observed)
        | none =>
          match cands with
          | c :: _ => ({ d with st := c.1 }, "nolin " ++ c.2)
          | [] => (d, "bad-op")
      | none => (d, "bad-op")
    | _ => (d, "bad-op")
  | "addrace" :: rest =>
    -- `addrace <store D> ; <store E> => <observed>`: D's deadline fires while Store(D) is inside deadliner.Add(D)
    -- (answer already decided), Store(E) is issued at that instant. With db.mu held during Add, Store(D) completes
    -- first and consumes D in its own expiry loop, then Store(E) runs. Accepted outcomes: that exact execution
    -- (D queued on C() but not yet refused for the first call), or the op sequence `store D; expire D; store E`
    -- (same result unless E writes into D's index).
    match splitToks "=>" rest with
    | [lhs, obs] =>
      match (splitToks ";" lhs).mapM subOp? with
      | some [Op.store dD _ setD, Op.store dE _ setE] =>
        let observed := Driver.joinWith " " obs
        let render (r1 r2 : State × Out) : State × String :=
          let resolved := (r1.2.resolved ++ r2.2.resolved).foldl (fun acc a => insertByQid a acc) []
          (r2.1, resStr r1.2.res ++ " " ++ resStr r2.2.res ++ " " ++ resolvedStr resolved ++ " " ++ snapStr r2.1)
        -- exact: D is on C() when Store(D) runs, and refused from then on
        let a1 := CharonV.DutyDB.step d.cfg { d.st with chan := d.st.chan ++ [dD] } (.store dD false setD)
        let a2 := CharonV.DutyDB.step d.cfg { a1.1 with expired := dD :: a1.1.expired } (.store dE false setE)
        -- as a sequence of model ops
        let b1 := CharonV.DutyDB.step d.cfg d.st (.store dD false setD)
        let b2 := CharonV.DutyDB.step d.cfg (CharonV.DutyDB.step d.cfg b1.1 (.expire dD true)).1 (.store dE false setE)
        let cands := [render a1 a2, render b1 b2]
        match cands.find? (fun c => c.2 == observed) with
        | some c => ({ d with st := c.1 }, "lin " ++ observed)
        | none =>
          match cands with
          | c :: _ => ({ d with st := c.1 }, "nolin " ++ c.2)
          | [] => (d, "bad-op")
      | _ => (d, "bad-op")
    | _ => (d, "bad-op")
  | "store" :: ty :: slot :: st :: toks =>
    match dtype? ty, slot.toNat?, toks.mapM entry? with
    | some t, some sl, some set =>
      if st != "a" && st != "x" then (d, "bad-op") else
      run (.store ⟨sl, t⟩ (st == "x") set)
        (fun s o => resStr o.res ++ " " ++ resolvedStr o.resolved ++ " " ++ snapStr s)
    | _, _, _ => (d, "bad-op")
  | "await" :: kind :: args =>
    match subOp? ("await" :: kind :: args) with
    | some op => run op (fun s o => resStr o.res ++ " " ++ resolvedStr o.resolved ++ " " ++ pendStr s)
    | none => (d, "bad-op")
  | ["cancel", q] =>
    match q.toNat? with
    | some q => run (.cancel q) (fun s _ => "- " ++ pendStr s)
    | none => (d, "bad-op")
  | ["expire", ty, slot, n] =>
    match dtype? ty, slot.toNat?, n.toNat? with
    | some t, some sl, some n => run (.expire ⟨sl, t⟩ (n == 1)) (fun _ _ => "-")
    | _, _, _ => (d, "bad-op")
  | ["pubkey", a, b, c] =>
    match nats [a, b, c] with
    | some [a, b, c] => run (.pubkey a b c) (fun _ o => resStr o.res)
    | _ => (d, "bad-op")
  | _ => (d, "bad-op")

end Driver.DutyDB

def main : IO Unit := Driver.runLoop Driver.DutyDB.step {}
