import CharonV.Model.LazyMulti
import Driver.Common

/-!
Line driver for the lazy client / multi client model (`Model/LazyMulti.lean`, C19, stream `lazymulti`).

tokens   node: p<i> (primary i) | f<j> (fallback j);  address: p<i> | f<j> | - (empty) | x (nobody's)
         kind: nv | av | pd;  class: to | er

ops
  new <P> <F>                          fresh multi over P + F lazy clients without client (episode start)
  call <node> <c> <kind>               caller c enters an endpoint of the lazy client (providers of callers with
                                       c % 4 = 0 ignore their context)
  ok <node> <c> <act> <syn>            the provider parked for c returns a client; every spinner then returns
  err <node> <c> ~ <d|->               … returns an error; observed: spinner d is the next to call the provider
  cancel <node> <c> ~ <d|->            c's context is cancelled
  fork|val|dut <node> <v>              setters on the lazy client
  get <node>                           every getter + the state of the inner client
  mfork|mval|mdut <v>                  setters on the multi
  mget ~ <addr>                        getters of the multi; observed Address()
  mcfa <addr>                          ClientForAddress: what the scoped multi consists of
  mcall <kind> <class> <P-scripts> <F-scripts> <P-order> <F-order>
                                       a call through the multi; script per node: o (fine) c (creation fails) a (node
                                       answers an error); orders: comma separated completion order (or -)
-/

open CharonV.LazyMulti
open CharonV

namespace Driver.LazyMulti

structure DState where
  init : Bool := false
  m : Multi := ⟨[], [], []⟩

def parseNode (s : String) : Option (Bool × Nat) :=
  if s.startsWith "p" then (s.drop 1).toNat?.map (fun i => (false, i))
  else if s.startsWith "f" then (s.drop 1).toNat?.map (fun i => (true, i))
  else none

def parseAddr (s : String) : Option Nat :=
  if s = "-" then some 0
  else if s = "x" then some 999
  else (parseNode s).map (fun p => if p.1 then 101 + p.2 else 1 + p.2)

def showAddr (a : Nat) : String :=
  if a = 0 then "-" else if a ≥ 999 then "x" else if a ≥ 101 then s!"f{a - 101}" else s!"p{a - 1}"

def parseKind (s : String) : Option Kind :=
  if s = "nv" then some .nv else if s = "av" then some .av else if s = "pd" then some .pd else none

def getNode (m : Multi) (n : Bool × Nat) : Option Lazy := if n.1 then m.fb[n.2]? else m.prim[n.2]?

def setNode (m : Multi) (n : Bool × Nat) (l : Lazy) : Multi :=
  if n.1 then { m with fb := m.fb.set n.2 l } else { m with prim := m.prim.set n.2 l }

def showAns : Ans → String
  | .node => "node"
  | .cache v => s!"v{v}"
  | .nocache => "nocache"

def showRes : CallRes → String
  | .got k a => s!"got:{k}:{showAns a}"
  | .err => "err"
  | .ctxErr => "ctx"

def showRet (r : Nat × CallRes) : String := s!"{r.1}:{showRes r.2}"

def insertSorted (r : Nat × CallRes) : List (Nat × CallRes) → List (Nat × CallRes)
  | [] => [r]
  | x :: xs => if r.1 ≤ x.1 then r :: x :: xs else x :: insertSorted r xs

def sortRets (rs : List (Nat × CallRes)) : List (Nat × CallRes) := rs.foldr insertSorted []

def spinners (l : Lazy) : List Nat := (l.callers.filter (fun x => l.lock != some x.id)).map (·.id)

/-- after the lock was released without a client: the observed spinner calls the provider. -/
def handOver (l : Lazy) (d : String) : Option (Lazy × String) :=
  let sp := spinners l
  if sp.isEmpty then
    if d = "-" then some (l, "-") else none
  else match d.toNat? with
    | some dd => if sp.contains dd then some ((step l (.acquire dd)).1, s!"{dd}") else none
    | none => none

def showOpt : Option Nat → String
  | none => "-"
  | some v => s!"{v}"

def showB (b : Bool) : String := if b then "1" else "0"

def showGet (l : Lazy) : String :=
  let inn := match l.client with
    | none => "none"
    | some i => s!"{i.id},{showOpt i.fork},{showOpt i.val},{showOpt i.dut}"
  s!"act={showB l.isActive} syn={showB l.isSynced} addr={showAddr l.address} name={l.name} hdr={match l.headers with | none => "nil" | some a => showAddr a} cfa={if l.cfaIsInner then "inner" else "self"} created={l.created} prov={l.provCalls} in={inn}"

def parseScripts (s : String) : Option (List Script) :=
  if s = "-" then some []
  else s.toList.mapM (fun c =>
    if c = 'o' then some ⟨true, true⟩ else if c = 'c' then some ⟨false, true⟩
    else if c = 'a' then some ⟨true, false⟩ else none)

def parseOrder (s : String) : Option (List Nat) :=
  if s = "-" then some [] else (s.splitOn ",").mapM (·.toNat?)

def isPerm (xs : List Nat) (n : Nat) : Bool :=
  xs.length == n && (List.range n).all (fun i => xs.contains i)

def clBits (ls : List Lazy) : String := String.ofList (ls.map (fun l => if l.client.isSome then '1' else '0'))

def busy (m : Multi) : Bool := (m.prim ++ m.fb).any (fun l => !l.callers.isEmpty || l.lock.isSome)

def cacheOf (l : Lazy) (k : Kind) : String :=
  match l.client with
  | none => "?"
  | some i => match answer i k with
    | .cache v => s!"v{v}"
    | _ => "?"

def stepOp (s : DState) (line : String) : DState × String :=
  let ws := (line.splitOn " ").filter (· ≠ "")
  match ws with
  | ["new", p, f] =>
    match p.toNat?, f.toNat? with
    | some p, some f =>
      if p = 0 ∨ p > 8 ∨ f > 8 then (s, "bad-op")
      else ({ init := true,
              m := ⟨(List.range p).map (fun i => Lazy.init (1 + i)), (List.range f).map (fun j => Lazy.init (101 + j)), []⟩ }, "ok")
    | _, _ => (s, "bad-op")
  | _ =>
  if !s.init then (s, "bad-op") else
  let m := s.m
  match ws with
  | ["call", n, c, k] =>
    match parseNode n, c.toNat?, parseKind k with
    | some n, some c, some k =>
      match getNode m n with
      | none => (s, "bad-op")
      | some l =>
        if (findCaller l c).isSome then (s, "dup") else
        let (l1, r) := step l (.call c k)
        let out := match r with
          | some r => s!"ret {showRet r}"
          | none => if l1.lock = some c then "parked" else "spin"
        ({ s with m := setNode m n l1 }, out)
    | _, _, _ => (s, "bad-op")
  | ["ok", n, c, a, sy] =>
    match parseNode n, c.toNat? with
    | some n, some c =>
      match getNode m n with
      | none => (s, "bad-op")
      | some l =>
        if l.lock ≠ some c then (s, "noop") else
        let (l1, r) := step l (.provOk c (a = "1") (sy = "1"))
        let (l2, rs) := run l1 ((spinners l1).map LEv.acquire)
        ({ s with m := setNode m n l2 }, "ret " ++ " ".intercalate ((sortRets (r.toList ++ rs)).map showRet))
    | _, _ => (s, "bad-op")
  | ["err", n, c, "~", d] =>
    match parseNode n, c.toNat? with
    | some n, some c =>
      match getNode m n with
      | none => (s, "bad-op")
      | some l =>
        if l.lock ≠ some c then (s, "noop") else
        let (l1, _) := step l (.provErr c)
        match handOver l1 d with
        | some (l2, dd) => ({ s with m := setNode m n l2 }, s!"ret {c}:err acq {dd}")
        | none => (s, "impossible")
    | _, _ => (s, "bad-op")
  | ["cancel", n, c, "~", d] =>
    match parseNode n, c.toNat? with
    | some n, some c =>
      match getNode m n with
      | none => (s, "bad-op")
      | some l =>
        if (findCaller l c).isNone then (s, "noop") else
        let (l1, _) := step l (.cancel c)
        if l1.lock = some c then
          if c % 4 = 0 then
            if d = "-" then ({ s with m := setNode m n l1 }, "none") else (s, "impossible")
          else
            let (l2, _) := step l1 (.provCtx c)
            match handOver l2 d with
            | some (l3, dd) => ({ s with m := setNode m n l3 }, s!"ret {c}:ctx acq {dd}")
            | none => (s, "impossible")
        else
          let (l2, _) := step l1 (.ctxRet c)
          if d = "-" then ({ s with m := setNode m n l2 }, s!"ret {c}:ctx") else (s, "impossible")
    | _, _ => (s, "bad-op")
  | [op, n, v] =>
    if op = "fork" ∨ op = "val" ∨ op = "dut" then
      match parseNode n, v.toNat? with
      | some n, some v =>
        match getNode m n with
        | none => (s, "bad-op")
        | some l =>
          let ev := if op = "fork" then LEv.setFork v else if op = "val" then LEv.setVal v else LEv.setDut v
          ({ s with m := setNode m n (step l ev).1 }, "ok")
      | _, _ => (s, "bad-op")
    else if op = "mget" ∧ n = "~" then
      match parseAddr v with
      | some a =>
        (s, if m.addressOk a then
              s!"act={showB m.isActive} syn={showB m.isSynced} hdr={match m.headers with | none => "nil" | some a => showAddr a} addr={showAddr a}"
            else "impossible")
      | none => (s, "bad-op")
    else (s, "bad-op")
  | ["get", n] =>
    match parseNode n with
    | some n => match getNode m n with
      | some l => (s, showGet l)
      | none => (s, "bad-op")
    | none => (s, "bad-op")
  | [op, v] =>
    if op = "mfork" ∨ op = "mval" ∨ op = "mdut" then
      match v.toNat? with
      | some v =>
        let m' := if op = "mfork" then m.setFork v else if op = "mval" then m.setVal v else m.setDut v
        ({ s with m := m' }, "ok")
      | none => (s, "bad-op")
    else if op = "mcfa" then
      match parseAddr v with
      | some a =>
        let c := m.cfa a
        let sc := m.scoped c
        let names := match c with
          | .same => (List.range m.prim.length).map (fun i => s!"p{i}")
          | .prim i => [s!"p{i}"]
          | .fb j => [s!"f{j}"]
        (s, s!"clients={",".intercalate names} fallbacks={sc.fb.length}")
      | none => (s, "bad-op")
    else (s, "bad-op")
  | ["mcall", k, cls, ps, fs, po, fo] =>
    match parseKind k, parseScripts ps, parseScripts fs, parseOrder po, parseOrder fo with
    | some k, some ps, some fs, some po, some fo =>
      if cls ≠ "to" ∧ cls ≠ "er" then (s, "bad-op")
      else if ps.length ≠ m.prim.length ∨ fs.length ≠ m.fb.length ∨ !isPerm po m.prim.length ∨ !isPerm fo m.fb.length then (s, "bad-op")
      else if busy m then (s, "busy")
      else
        let ecls : Provide.Outcome := if cls = "to" then .timeout else .other
        let evs := po.map (Provide.Ev.rel false) ++ fo.map (Provide.Ev.rel true)
        let (m', r) := m.call k ecls ps fs evs
        let out := match r with
          | .okFrom fb i =>
            (match k with
             | .nv => s!"ok {if fb then "f" else "p"}{i}"
             | _ => match getNode m' (fb, i) with
               | some l => s!"ok {cacheOf l k}"
               | none => "ok ?")
          | .errFrom _ _ c => if Provide.unavailable c then "err un" else "err er"
          | .nokFrom _ _ => "nok"
          | .ctxErr => "ctx"
          | .bug => "bug"
          | .stuck => "stuck"
        ({ s with m := m' }, s!"{out} cl={clBits m'.prim}|{clBits m'.fb}")
    | _, _, _, _, _ => (s, "bad-op")
  | _ => (s, "bad-op")

end Driver.LazyMulti

def main : IO Unit := Driver.runLoop Driver.LazyMulti.stepOp ({} : Driver.LazyMulti.DState)
