import CharonV.Model.Qbft
import Driver.Common

/-!
Line driver for the QBFT implementation model (C02/C03/C04).

ops (each may carry ` ;; <observed outputs of the real Run>`):
  cfg <n> <fifo> <leaderOffset>        new cluster: leader(round) = (offset + round) % n
  start <p>
  input <p> <v>
  timeout <p>
  recv <p> <ok|fail|timeout> <core>[|<core>...]     core = typ,src,round,value,pr,pv

The model's outputs are rendered canonically (justification lists sorted). When an observation
is attached, the driver searches the oracle space (source order for `flatten`, permutation of
prepare quorums) for an oracle under which the model reproduces it, continues from that state and
prints `ok`; otherwise it prints `MISMATCH model=<outputs under the default oracle>`.
Without an observation it prints the outputs under the default oracle.
-/

open CharonV.Qbft

namespace Driver.Qbft

structure DState where
  d     : Def := { nodes := 0, fifo := 0, leader := fun _ => 0 }
  nodes : List (Nat × NodeState) := []
  miss  : Nat := 0     -- mismatches so far: the oracle search is abandoned after a few

def coreKey (c : Core) : List Nat := [c.typ, c.src, c.round, c.value, c.pr, c.pv]

def lexLt : List Nat → List Nat → Bool
  | [], [] => false
  | [], _ => true
  | _, [] => false
  | a :: as, b :: bs => if a < b then true else if a > b then false else lexLt as bs

def insertCore (c : Core) : List Core → List Core
  | [] => [c]
  | x :: xs => if lexLt (coreKey c) (coreKey x) then c :: x :: xs else x :: insertCore c xs

def sortCores (l : List Core) : List Core := l.foldl (fun acc c => insertCore c acc) []

def showCore (c : Core) : String :=
  s!"{c.typ},{c.src},{c.round},{c.value},{c.pr},{c.pv}"

def showCores (l : List Core) : String := Driver.joinWith "|" ((sortCores l).map showCore)

def showOut : Out → String
  | .bcast t r v pr pv j => s!"B {t},{r},{v},{pr},{pv}[{showCores j}]"
  | .decide v r q => s!"D {v},{r}[{showCores q}]"
  | .unjust m => s!"U {showCore m}"
  | .rule r rd => s!"R {r},{rd}"
  | .roundChange a b r => s!"C {a},{b},{r}"
  | .newTimer r => s!"T {r}"
  | .stopTimer => "S"
  | .bug _ => "BUG"
  | .exit _ => "EXIT"

def showOuts (l : List Out) : String :=
  if l.isEmpty then "-" else Driver.joinWith " ; " (l.map showOut)

def parseCore (s : String) : Option Core :=
  match (s.splitOn ",").map String.toNat? with
  | [some t, some sr, some r, some v, some pr, some pv] => some { typ := t, src := sr, round := r, value := v, pr := pr, pv := pv }
  | _ => none

def parseMsg (s : String) : Option Msg :=
  match s.splitOn "|" with
  | [] => none
  | c :: js =>
    match parseCore c, js.mapM parseCore with
    | some core, some just => some { core := core, just := just }
    | _, _ => none

def parseCmp : String → Option CmpOut
  | "ok" => some .ok
  | "fail" => some .fail
  | "timeout" => some .timeout
  | _ => none

/-- all permutations of a short list (the sources present in the buffer). -/
def perms : List Nat → List (List Nat)
  | [] => [[]]
  | l => l.flatMap (fun x => (perms (l.erase x)).map (fun p => x :: p))
  termination_by l => l.length
  decreasing_by
    simp only [List.length_erase]
    split
    · have := List.length_pos_of_mem ‹_›; omega
    · contradiction

def fact : Nat → Nat
  | 0 => 1
  | n + 1 => (n + 1) * fact n

/-- find an oracle reproducing `obs`. -/
def searchOracle (d : Def) (s : NodeState) (e : Event) (obs : String) : Option (NodeState × List Out) :=
  let try1 (o : Oracle) : Option (NodeState × List Out) :=
    let r := step d o s e
    if showOuts r.2 == obs then some r else none
  match try1 {} with
  | some r => some r
  | none =>
    -- sources that will be in the buffer after this message is stored
    let srcs := match e with
      | .recv m _ => (s.buffer.map (·.1)) ++ (if s.buffer.any (fun b => b.1 == m.core.src) then [] else [m.core.src])
      | _ => s.buffer.map (·.1)
    let pqs := List.range 6
    let orders := perms srcs
    orders.findSome? (fun ord => pqs.findSome? (fun k => try1 { srcOrd := ord, pqPerm := k }))

def getNode (st : DState) (p : Nat) : Option NodeState := (st.nodes.find? (fun e => e.1 == p)).map (·.2)

def setNode (st : DState) (p : Nat) (n : NodeState) : DState :=
  { st with nodes := upsert st.nodes p n }

def apply (st : DState) (p : Nat) (e : Event) (obs : Option String) : DState × String :=
  match getNode st p with
  | none => (st, "bad-op")
  | some n =>
    match obs with
    | none =>
      let (n', outs) := step st.d {} n e
      (setNode st p n', showOuts outs)
    | some ob =>
      -- after a few mismatches the streams have diverged for good: stop paying for the search
      let found := if st.miss < 8 then searchOracle st.d n e ob
                   else (let r := step st.d {} n e; if showOuts r.2 == ob then some r else none)
      match found with
      | some (n', _) => (setNode st p n', "ok")
      | none =>
        let (n', outs) := step st.d {} n e
        ({ setNode st p n' with miss := st.miss + 1 }, "MISMATCH model=" ++ showOuts outs)

def stepLine (st : DState) (line : String) : DState × String :=
  let (opPart, obs) := match line.splitOn " ;; " with
    | [a, b] => (a, some b)
    | _ => (line, none)
  match opPart.splitOn " " with
  | ["cfg", a, b, c] =>
    match a.toNat?, b.toNat?, c.toNat? with
    | some n, some fifo, some off =>
      ({ d := { nodes := n, fifo := fifo, leader := fun r => (off + r) % n }, nodes := [], miss := st.miss }, "ok")
    | _, _, _ => (st, "bad-op")
  | ["qf", a] =>
    match a.toNat? with
    | some n =>
      let d : Def := { nodes := n, fifo := 0, leader := fun _ => 0 }
      let o := s!"Q {d.quorum},{d.faulty}"
      match obs with
      | some ob => (st, if ob == o then "ok" else "MISMATCH model=" ++ o)
      | none => (st, o)
    | none => (st, "bad-op")
  | ["start", a] =>
    match a.toNat? with
    | some p =>
      let st1 := setNode st p { proc := p }
      apply st1 p .start obs
    | none => (st, "bad-op")
  | ["input", a, b] =>
    match a.toNat?, b.toNat? with
    | some p, some v => apply st p (.input v) obs
    | _, _ => (st, "bad-op")
  | ["timeout", a] =>
    match a.toNat? with
    | some p => apply st p .timeout obs
    | none => (st, "bad-op")
  | ["recv", a, c, m] =>
    match a.toNat?, parseCmp c, parseMsg m with
    | some p, some cmp, some msg => apply st p (.recv msg cmp) obs
    | _, _, _ => (st, "bad-op")
  | _ => (st, "bad-op")

end Driver.Qbft

def main : IO Unit := Driver.runLoop Driver.Qbft.stepLine {}
