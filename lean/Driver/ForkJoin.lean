import CharonV.Model.ForkJoin
import Driver.Common

/-
Line driver for the fork-join model (C19, `app/forkjoin/forkjoin.go`; Go side: harness/cmd/drive-forkjoin).

One op = one event forced on the real code; afterwards the Go driver waits until every goroutine is parked and
prints what it can observe. The real workers, senders and the shutdown goroutine run as far as they can inside
one op; the model side therefore applies the op's event with `CharonV.ForkJoin.step` and then *settles*: it
applies enabled internal events (`take`, `abort`, `forkAbort`, deliveries to a waiting consumer, `drop`, `close`,
the next call of a `NewWithInputs` in progress) until none is enabled — only `step` changes the model state.

  new W=<n|d> B=<n|d> ff=<0|1> woc=<0|1>      forkjoin.New; d = option not given (8 workers, buffer 100)
  nwi W=… B=… ff=… woc=… in=<id,…|->           forkjoin.NewWithInputs
  fork <id>                                      input ids are unique per episode; odd ids honour the context
  join | cancel | rootcancel <c|d> | recv | flatten | end
  done <id> <ok|fail|canc|dl> <out>              the work function of running input <id> returns (out ≥ 1)

Choices Go leaves to its runtime are observations appended to the op line (` ~ got=<id|closed> fp=<s|d|p> ord=<outs>`):
`got` which blocked sender a single receive was matched with; `fp` which ready case the `select` of a `Fork` took
when the root context was done as well (s: the send, d: Done, p: the send on the closed channel); `ord` the outputs
`Flatten` returned, in order. The model must explain them: `impossible` otherwise.

output: <res> run=<ids> fk=<-|B> c=<-|W|F> cc=<-|W> fj=<n> got=<-|closed|id:src:out:err> fkret=<-|ret|panic> flat=<-|outs:err>
-/
open CharonV.ForkJoin

namespace Driver.ForkJoin

inductive CMode where
  | idle | wait | flat
  deriving DecidableEq

structure Oracle where
  got : Option (Option Nat) := none   -- some none: closed
  fp  : Option Char := none
  ord : Option (List Nat) := none

structure D where
  active      : Bool := false
  cfg         : Cfg := ⟨1, 100, true, false, fun i => i % 2 == 1⟩
  st          : St := init ⟨1, 100, true, false, fun _ => false⟩
  isNwi       : Bool := false
  script      : List Nat := []
  scriptJoin  : Bool := false
  used        : List Nat := []
  cmode       : CMode := .idle
  batches     : List (List (Result × Bool)) := []
  cur         : List (Result × Bool) := []        -- results delivered to Flatten in the current op
  haveCancel  : Bool := false
  soloBlocked : Bool := false

structure Obs where
  got        : String := "-"
  fkret      : String := "-"
  flat       : String := "-"
  impossible : Bool := false
  gotUsed    : Bool := false

def errStr : ErrC → String
  | .nil => "nil" | .fail => "fail" | .canc => "canc" | .dl => "dl"

def srcStr : Src → String
  | .work => "w" | .abort => "a" | .skip => "s"

def findIdx? {α : Type} (p : α → Bool) : List α → Nat → Option Nat
  | [], _ => none
  | x :: xs, n => if p x then some n else findIdx? p xs (n + 1)

def idleWorker (ws : List WSt) : Option Nat := findIdx? (fun w => w == .idle) ws 0

def abortable (cfg : Cfg) (ws : List WSt) : Option Nat :=
  findIdx? (fun w => match w with | .running i => cfg.hon i | .idle => false) ws 0

def workerOf (ws : List WSt) (id : Nat) : Option Nat :=
  findIdx? (fun w => w == .running id) ws 0

/-- remove the first result with output `o`. The flag marks a result that reached `Flatten` only maybe: it was
produced after `cancel()`, when its sender's `select` had both cases ready. -/
def takeOut (o : Nat) : List (Result × Bool) → Option (Result × List (Result × Bool))
  | [] => none
  | r :: rs => if r.1.out = o then some (r.1, rs) else (takeOut o rs).map (fun (x, rest) => (x, r :: rest))

/-- order the results delivered to `Flatten` as observed: within one op any order, across ops in op order. -/
def orderBy : List Nat → List (List (Result × Bool)) → List Result → Option (List Result)
  | [], bs, acc => if bs.all (fun b => b.all (·.2)) then some acc.reverse else none
  | _ :: _, [] , _ => none
  | o :: os, b :: bs, acc =>
    match takeOut o b with
    | some (r, b') => orderBy os (b' :: bs) (r :: acc)
    | none => if b.all (·.2) then orderBy (o :: os) bs acc else none
termination_by os bs _ => (os.length, bs.length)

def outsStr (os : List Nat) : String :=
  if os.isEmpty then "e" else ".".intercalate (os.map toString)

def ev (d : D) (e : Ev) : D × Out :=
  let (s, o) := step d.cfg d.st e
  ({ d with st := s }, o)

/-- one settling step; `none`: nothing more to do. -/
def settle1 (d : D) (o : Oracle) (ob : Obs) : Option (D × Obs) :=
  let st := d.st
  let idle := idleWorker st.ws
  -- a blocked Fork whose root context is done: returns unless a worker is ready to receive and the runtime picked the send
  if st.blocked.isSome && st.rootErr != .nil && (idle.isNone || o.fp == some 'd') then
    some ((ev d .forkAbort).1, ob)
  else if idle.isSome && (!st.queue.isEmpty || st.blocked.isSome) then
    some ((ev d (.take (idle.getD 0))).1, ob)
  else if st.ctxErr != .nil && (abortable d.cfg st.ws).isSome then
    some ((ev d (.abort ((abortable d.cfg st.ws).getD 0))).1, ob)
  else
    -- a single receive in progress
    let r4 : Option (D × Obs) :=
      if d.cmode == .wait && !ob.gotUsed then
        match o.got with
        | some (some x) =>
          match findIdx? (fun r => r.input == x) st.senders 0 with
          | some k =>
            match st.senders[k]? with
            | some r =>
              let d' := (ev d (.deliver k)).1
              some ({ d' with cmode := .idle },
                    { ob with got := s!"{r.input}:{srcStr r.src}:{r.out}:{errStr r.err}", gotUsed := true })
            | none => none
          | none => none
        | _ => none
      else none
    match r4 with
    | some x => some x
    | none =>
      if st.dropClosed && !st.senders.isEmpty then
        -- (while Flatten reads, the sender's select may as well have picked the send: the state after `deliver` differs
        -- from the one after `drop` only in the ghost logs; the result is kept as a maybe-delivered one)
        match st.senders with
        | r :: _ =>
          let d' := (ev d (.drop 0)).1
          some (if d.cmode == .flat then { d' with cur := d'.cur ++ [(r, true)] } else d', ob)
        | [] => none
      else if d.cmode == .flat && !st.senders.isEmpty then
        match st.senders with
        | r :: _ => let d' := (ev d (.deliver 0)).1; some ({ d' with cur := d'.cur ++ [(r, false)] }, ob)
        | [] => none
      else if st.joined && st.wg == 0 && !st.closed then some ((ev d .close).1, ob)
      else if st.closed && d.cmode == .wait then
        let bad : Bool := match o.got with | some none => ob.impossible | _ => true
        let ob1 : Obs := { ob with got := "closed" }
        let ob2 : Obs := { ob1 with gotUsed := true }
        some ({ d with cmode := .idle }, { ob2 with impossible := bad })
      else if st.closed && d.cmode == .flat then
        let bs := d.batches ++ [d.cur]
        match o.ord with
        | some os =>
          match orderBy os bs [] with
          | some rs =>
            let (outs, e) := flatten rs
            some ({ d with cmode := .idle, batches := [], cur := [] }, { ob with flat := s!"{outsStr outs}:{errStr e}" })
          | none => some ({ d with cmode := .idle, batches := [], cur := [] }, { ob with impossible := true })
        | none => some ({ d with cmode := .idle, batches := [], cur := [] }, { ob with impossible := true })
      else if d.scriptJoin && st.blocked.isNone then
        match d.script with
        | i :: rest =>
          let df := (ev d (.fork i true)).1
          some ({ df with script := rest }, ob)
        | [] =>
          let dj := (ev d .join).1
          some ({ dj with scriptJoin := false, haveCancel := true }, { ob with fkret := "ret" })
      else none

def settle : Nat → D → Oracle → Obs → D × Obs
  | 0, d, _, ob => (d, { ob with impossible := true })
  | n + 1, d, o, ob =>
    match settle1 d o ob with
    | some (d', ob') => settle n d' o ob'
    | none => (d, ob)

def fuel (d : D) : Nat := 8 * (measure d.st + d.script.length + d.st.ws.length) + 64

def insertSorted (x : Nat) : List Nat → List Nat
  | [] => [x]
  | y :: ys => if x ≤ y then x :: y :: ys else y :: insertSorted x ys

def sortNat (l : List Nat) : List Nat := l.foldr insertSorted []

def idsStr (l : List Nat) : String :=
  if l.isEmpty then "-" else ",".intercalate ((sortNat l).map toString)

def fjCount (d : D) : Nat :=
  let st := d.st
  let workers := if st.joined then (runningOf st.ws).length else d.cfg.workers
  workers + st.senders.length + (if st.joined && !st.closed then 1 else 0) + blockedN st
    + (if st.cancelWaiting then 1 else 0)

def render (d : D) (res : String) (ob : Obs) : String :=
  if ob.impossible then "impossible" else
  let st := d.st
  let c := match d.cmode with | .idle => "-" | .wait => "W" | .flat => "F"
  s!"{res} run={idsStr (runningOf st.ws)} fk={if st.blocked.isSome then "B" else "-"} c={c} cc={if st.cancelWaiting then "W" else "-"} fj={fjCount d} got={ob.got} fkret={ob.fkret} flat={ob.flat}"

/-- settle, close the current Flatten batch, report a solo blocked Fork that returned. -/
def finish (d : D) (o : Oracle) (ob : Obs) (reportFk : Bool) : D × Obs :=
  let (d, ob) := settle (fuel d) d o ob
  let ob := if o.got.isSome && !ob.gotUsed then { ob with impossible := true } else ob
  let d := if d.cmode == .flat && !d.cur.isEmpty then { d with batches := d.batches ++ [d.cur], cur := [] } else d
  if d.soloBlocked && d.st.blocked.isNone then
    ({ d with soloBlocked := false }, if reportFk && ob.fkret == "-" then { ob with fkret := "ret" } else ob)
  else (d, ob)

def parseOpt (pre : String) (s : String) : Option String :=
  if s.startsWith pre then some (s.drop pre.length).toString else none

def parseNatD (s : String) (dflt : Nat) : Option Nat :=
  if s == "d" then some dflt else s.toNat?.bind (fun n => if n ≤ 64 then some n else none)

def parseBit (s : String) : Option Bool :=
  if s == "0" then some false else if s == "1" then some true else none

def parseCfg (w b ff woc : String) : Option Cfg :=
  match (parseOpt "W=" w).bind (parseNatD · 8), (parseOpt "B=" b).bind (parseNatD · 100),
        (parseOpt "ff=" ff).bind parseBit, (parseOpt "woc=" woc).bind parseBit with
  | some wn, some bn, some f, some wc =>
    if wn == 0 then none else some ⟨wn, bn, f, wc, fun i => i % 2 == 1⟩
  | _, _, _, _ => none

def parseIds (s : String) : Option (List Nat) :=
  if s == "-" then some [] else
  match (s.splitOn ",").mapM (·.toNat?) with
  | some l => if l.eraseDups.length == l.length then some l else none
  | none => none

def parseOracle (toks : List String) : Option Oracle :=
  toks.foldlM (fun (o : Oracle) t =>
    if t.isEmpty then some o else
    match parseOpt "got=" t, parseOpt "fp=" t, parseOpt "ord=" t with
    | some g, _, _ => if g == "closed" then some { o with got := some none } else g.toNat?.map (fun n => { o with got := some (some n) })
    | _, some f, _ => match f.toList with | [c] => some { o with fp := some c } | _ => none
    | _, _, some l => if l == "e" then some { o with ord := some [] } else ((l.splitOn ".").mapM String.toNat?).map (fun x => { o with ord := some x })
    | _, _, _ => none) {}

def parseErr : String → Option ErrC
  | "ok" => some .nil | "fail" => some .fail | "canc" => some .canc | "dl" => some .dl | _ => none

/-- `end`: every running work function returns `(1, nil)` (also those started from now on). -/
def drain : Nat → D → D
  | 0, d => d
  | n + 1, d =>
    match findIdx? (fun w => w != .idle) d.st.ws 0 with
    | some w =>
      let d := (ev d (.complete w 1 .nil)).1
      drain n (settle (fuel d) d {} {}).1
    | none => d

def stepLine (d : D) (line : String) : D × String :=
  let (base, orc) := match line.splitOn " ~ " with
    | [b] => (b, some ({} : Oracle))
    | [b, o] => (b, parseOracle (o.splitOn " "))
    | _ => (line, none)
  match orc with
  | none => (d, "bad-op")
  | some o =>
  let f := base.splitOn " "
  let newEp (cfg : Cfg) : D := { active := true, cfg := cfg, st := init cfg, haveCancel := true }
  match f with
  | ["new", w, b, ff, woc] =>
    match parseCfg w b ff woc with
    | some cfg =>
      let (d, ob) := finish (newEp cfg) o {} true
      (d, render d "ok" ob)
    | none => (d, "bad-op")
  | ["nwi", w, b, ff, woc, ins] =>
    match parseCfg w b ff woc, (parseOpt "in=" ins).bind parseIds with
    | some cfg, some ids =>
      let d0 : D := { newEp cfg with isNwi := true, script := ids, scriptJoin := true, used := ids, haveCancel := false }
      let (d, ob) := finish d0 o {} true
      (d, render d "ok" ob)
    | _, _ => (d, "bad-op")
  | _ =>
  -- syntax first (the Go side answers bad-op whatever the state)
  let wellFormed : Bool := match f with
    | ["fork", id] => id.toNat?.isSome
    | ["join"] | ["cancel"] | ["recv"] | ["flatten"] | ["end"] => true
    | ["rootcancel", k] => k == "c" || k == "d"
    | ["done", id, cls, out] => id.toNat?.isSome && (parseErr cls).isSome && (match out.toNat? with | some n => n ≥ 1 | none => false)
    | _ => false
  if !wellFormed then (d, "bad-op") else
  if !d.active then (d, "noop") else
  match f with
  | ["fork", ids] =>
    let id := ids.toNat?.getD 0
    if d.used.contains id || d.st.blocked.isSome || d.isNwi || d.scriptJoin then (d, "noop") else
    let d := { d with used := id :: d.used }
    let (d1, out) := ev d (.fork id (o.fp != some 'd'))
    match out with
    | .ok => let (d2, ob) := finish d1 o {} true; (d2, render d2 "added" ob)
    | .forkDropped => let (d2, ob) := finish d1 o {} true; (d2, render d2 "dropped" ob)
    | .panicForkAfterJoin => let (d2, ob) := finish d1 o {} true; (d2, render d2 "panic" ob)
    | .forkBlocked =>
      let (d2, ob) := finish { d1 with soloBlocked := true } o {} false
      let res := if d2.st.blocked.isSome then "blocked" else if d2.st.forked.contains id then "added" else "dropped"
      (d2, render d2 res ob)
    | _ => (d, "impossible")
  | ["join"] =>
    if d.isNwi then (d, "noop") else
    let (d1, out) := ev d .join
    match out with
    | .ok => let (d2, ob) := finish d1 o {} true; (d2, render d2 "ok" ob)
    | .panicDoubleJoin => let (d2, ob) := finish d1 o {} true; (d2, render d2 "panic" ob)
    | .panicBlockedFork =>
      let (d2, ob) := finish { d1 with soloBlocked := false } o { fkret := "panic" } true
      (d2, render d2 "ok" ob)
    | _ => (d, "impossible")
  | ["done", ids, cls, outs] =>
    match workerOf d.st.ws (ids.toNat?.getD 0) with
    | none => (d, "noop")
    | some w =>
      let (d1, _) := ev d (.complete w (outs.toNat?.getD 0) ((parseErr cls).getD .nil))
      let (d2, ob) := finish d1 o {} true
      (d2, render d2 "ok" ob)
  | ["cancel"] =>
    if !d.haveCancel then (d, "noop") else
    let (d1, out) := ev d .cancel
    let (d2, ob) := finish d1 o {} true
    match out with
    | .panicDoubleCancel => (d2, render d2 "panic" ob)
    | _ => (d2, render d2 (if d2.st.cancelWaiting then "wait" else "ret") ob)
  | ["rootcancel", k] =>
    if d.st.rootErr != .nil then (d, "noop") else
    let (d1, _) := ev d (.rootCancel (k == "d"))
    let (d2, ob) := finish d1 o {} true
    (d2, render d2 "ok" ob)
  | [op] =>
    if op == "end" then
      let d1 := drain (fuel d) d
      let d2 := if !d1.isNwi && !d1.st.joined then (ev d1 .join).1 else d1
      let d3 := (settle (fuel d2) d2 {} {}).1
      let d4 := if !d3.st.dropClosed then (ev d3 .cancel).1 else d3
      let d5 := (settle (fuel d4) d4 {} {}).1
      ({ d5 with active := false }, s!"ok fj={fjCount d5}")
    else
      -- recv | flatten: the consumer holds the channel only after Join (NewWithInputs) returned
      let haveCh := if d.isNwi then !d.scriptJoin else d.st.joined
      if !haveCh || d.cmode != .idle then (d, "noop") else
      let d1 := { d with cmode := if op == "recv" then .wait else .flat, batches := [], cur := [] }
      let (d2, ob) := finish d1 o {} true
      (d2, render d2 "ok" ob)
  | _ => (d, "bad-op")

end Driver.ForkJoin

def main : IO Unit := Driver.runLoop Driver.ForkJoin.stepLine {}
