import CharonV.Model.ParSigDB
import Driver.Common

/-!
Line driver for the C07 model (`CharonV.Model.ParSigDB`). Op syntax: see
`harness/cmd/drive-parsigdb/main.go`.

Go's map iteration order (which entry of a batch `StoreExternal` visits first, which root group
`getThresholdMatching` visits first) and the interleaving of two racing calls are oracles of the
model. An op line carries, after ` # `, the outcome the implementation showed; the driver
enumerates every oracle value (all permutations of the batch, both group orders, every entry-wise
interleaving of two racing calls) and answers with that outcome iff the model admits it —
otherwise with the outcome of the first oracle value, which then shows up as a difference.
-/

open CharonV.ParSigDB

namespace Driver.ParSigDB

structure CallSpec where
  internal : Bool
  duty     : Duty
  st       : Status
  cbErr    : Bool
  entries  : List Entry

structure DState where
  cfg    : Cfg := { threshold := 3 }
  st     : State := {}
  keys   : List Key := []
  duties : List Duty := []
  exkeys : List ExKey := []

def parseDuty (s : String) : Option Duty :=
  match s.splitOn ":" with
  | [a, b] => do
    let slot ← a.toNat?
    let typ ← b.toNat?
    pure ⟨slot, typ⟩
  | _ => none

def parseEntry (s : String) : Option Entry :=
  match s.splitOn "." with
  | [a, b, c, d, e] => do
    let pk ← a.toNat?
    let share ← b.toNat?
    let root ← c.toNat?
    let sig ← d.toNat?
    let sub ← (if e == "x" then some none else e.toNat?.map some)
    pure ⟨pk, ⟨share, root, sig⟩, sub⟩
  | _ => none

def parseEntries (s : String) : Option (List Entry) :=
  if s == "-" then some [] else (s.splitOn ",").mapM parseEntry

def parseCall (toks : List String) : Option CallSpec :=
  match toks with
  | [kind, d, st, cb, es] => do
    let internal ← (if kind == "int" then some true else if kind == "ext" then some false else none)
    let duty ← parseDuty d
    let status ← (if st == "S" then some Status.scheduled else if st == "X" then some Status.expired
                  else if st == "E" then some Status.exempt else none)
    let cbErr ← (if cb == "1" then some true else if cb == "0" then some false else none)
    let entries ← parseEntries es
    pure ⟨internal, duty, status, cbErr, entries⟩
  | _ => none

/-! ### canonical rendering (must agree byte for byte with the Go driver) -/

def lexLe : List Nat → List Nat → Bool
  | [], _ => true
  | _ :: _, [] => false
  | a :: as, b :: bs => if a < b then true else if b < a then false else lexLe as bs

def keyVec (k : Key) : List Nat := [k.duty.slot, k.duty.typ, k.pk, k.sub]

def sortKeys (ks : List Key) : List Key := ks.mergeSort (fun a b => lexLe (keyVec a) (keyVec b))

def psigStr (p : PSig) : String := s!"{p.share}.{p.root}.{p.sig}"

def keyStr (k : Key) : String := s!"{k.duty.slot}:{k.duty.typ}/{k.pk}/{k.sub}"

def snapStr (d : DState) (s : State) : String :=
  let eparts := (sortKeys d.keys).filterMap (fun k =>
    match s.entries k with
    | [] => none
    | l => some (keyStr k ++ "=" ++ Driver.joinWith "+" (l.map psigStr)))
  let ds := d.duties.mergeSort (fun a b => lexLe [a.slot, a.typ] [b.slot, b.typ])
  let kparts := ds.filterMap (fun du =>
    match s.keysByDuty du with
    | [] => none
    | l => some (s!"{du.slot}:{du.typ}=" ++ Driver.joinWith "+" ((sortKeys l).map (fun k => s!"{k.pk}/{k.sub}"))))
  let xs := d.exkeys.mergeSort (fun a b => lexLe [a.share, a.pk, a.typ] [b.share, b.pk, b.typ])
  let xparts := xs.filterMap (fun x =>
    match s.exempt x with
    | [] => none
    | l => some (s!"{x.share}/{x.pk}/{x.typ}=" ++ Driver.joinWith "+" (l.map keyStr)))
  "E{" ++ Driver.joinWith ";" eparts ++ "} K{" ++ Driver.joinWith ";" kparts ++ "} X{" ++
    Driver.joinWith ";" xparts ++ "}"

def errStr : Option Err → String
  | none => "ok"
  | some .mismatch => "mismatch"
  | some .subcomm => "subcomm"
  | some .cb => "cb"

def retStr : Option Out → String
  | some (.ret err cb isub) =>
    let cbs :=
      if cb.isEmpty then "-"
      else
        let sorted := cb.mergeSort (fun a b => a.key.pk ≤ b.key.pk)
        "[" ++ Driver.joinWith ";" (sorted.map (fun t =>
          s!"{t.key.pk}:" ++ Driver.joinWith "+" (t.payload.map psigStr))) ++ "]"
    errStr err ++ " cb=" ++ cbs ++ " is=" ++ (if isub then "1" else "0")
  | _ => "noret"

/-! ### oracle enumeration -/

def insertAll {α : Type} (x : α) : List α → List (List α)
  | [] => [[x]]
  | y :: ys => (x :: y :: ys) :: (insertAll x ys).map (fun l => y :: l)

def perms {α : Type} : List α → List (List α)
  | [] => [[]]
  | x :: xs => (perms xs).flatMap (insertAll x)

/-- all interleavings of two sequences. -/
def merges {α : Type} : List α → List α → List (List α)
  | [], ys => [ys]
  | xs, [] => [xs]
  | x :: xs, y :: ys =>
    (merges xs (y :: ys)).map (fun l => x :: l) ++ (merges (x :: xs) ys).map (fun l => y :: l)
termination_by xs ys => xs.length + ys.length

def opCall : Op → Nat
  | .begin c .. => c
  | .step c _ => c
  | .finish c _ => c
  | .trim _ => 0

/-- run ops, remembering what each of the calls 0 and 1 returned. -/
def runCalls (cfg : Cfg) : State → List Op → Option Out → Option Out → State × Option Out × Option Out
  | s, [], r0, r1 => (s, r0, r1)
  | s, op :: ops, r0, r1 =>
    let (s', o) := step cfg s op
    match o with
    | .none => runCalls cfg s' ops r0 r1
    | x => if opCall op == 0 then runCalls cfg s' ops (r0.orElse fun _ => some x) r1
           else runCalls cfg s' ops r0 (r1.orElse fun _ => some x)

def bodyOps (c : Nat) (batch : List Entry) (o : Nat) (cbErr : Bool) : List Op :=
  batch.map (fun _ => Op.step c o) ++ [.finish c cbErr]

/-- all op sequences one call can give rise to (one per batch order and group order). -/
def callVariants (c : Nat) (cs : CallSpec) : List (Op × List Op) :=
  [0, 1].flatMap (fun o => (perms cs.entries).map (fun p =>
    (Op.begin c cs.duty cs.st p cs.internal, bodyOps c p o cs.cbErr)))

def candidates (calls : List CallSpec) : List (List Op) :=
  match calls with
  | [a] => (callVariants 0 a).map (fun (b, body) => b :: body)
  | [a, b] =>
    (callVariants 0 a).flatMap (fun (ba, bodyA) =>
      (callVariants 1 b).flatMap (fun (bb, bodyB) =>
        (merges bodyA bodyB).map (fun m => ba :: bb :: m)))
  | _ => []

def outcomeOf (d : DState) (n : Nat) (ops : List Op) : State × String :=
  let (s', r0, r1) := runCalls d.cfg d.st ops none none
  let rets := if n == 1 then retStr r0 else retStr r0 ++ " ; " ++ retStr r1
  (s', rets ++ " | " ++ snapStr d s')

def addUniverse (d : DState) (cs : CallSpec) : DState :=
  cs.entries.foldl (fun d e =>
    match e.sub with
    | none => d
    | some sub =>
      let k : Key := ⟨cs.duty, e.pk, sub⟩
      let x : ExKey := ⟨e.sig.share, e.pk, cs.duty.typ⟩
      { d with keys := if d.keys.contains k then d.keys else k :: d.keys,
               exkeys := if d.exkeys.contains x then d.exkeys else x :: d.exkeys })
    { d with duties := if d.duties.contains cs.duty then d.duties else cs.duty :: d.duties }

def doCalls (d : DState) (calls : List CallSpec) (target : Option String) : DState × String :=
  let d := calls.foldl addUniverse d
  let cands := candidates calls
  let n := calls.length
  let pick : Option (State × String) :=
    match target with
    | none => none
    | some t => cands.findSome? (fun ops =>
        let r := outcomeOf d n ops
        if r.2 == t then some r else none)
  match pick with
  | some (s', out) => ({ d with st := s' }, out)
  | none =>
    -- identity order of both batches, group order 0, first call runs to completion first
    let ops := match calls with
      | [a] => Op.begin 0 a.duty a.st a.entries a.internal :: bodyOps 0 a.entries 0 a.cbErr
      | [a, b] => Op.begin 0 a.duty a.st a.entries a.internal :: Op.begin 1 b.duty b.st b.entries b.internal ::
                  (bodyOps 0 a.entries 0 a.cbErr ++ bodyOps 1 b.entries 0 b.cbErr)
      | _ => []
    let (s', out) := outcomeOf d n ops
    ({ d with st := s' }, out)

def step (d : DState) (line : String) : DState × String :=
  let (opPart, target) :=
    match line.splitOn " # " with
    | [a] => (a, none)
    | a :: rest => (a, some (" # ".intercalate rest))
    | [] => ("", none)
  let toks := (opPart.splitOn " ").filter (fun s => !s.isEmpty)
  match toks with
  | ["new", t] =>
    match t.toNat? with
    | some t => ({ cfg := { threshold := t, cap := 10, continueOnError := codeContinueOnError,
                            newRootOnly := codeNewRootOnly } }, "ok")
    | none => (d, "bad-op")
  | ["trim", du] =>
    match parseDuty du with
    | some du =>
      let d := { d with duties := if d.duties.contains du then d.duties else du :: d.duties }
      let (s', _) := CharonV.ParSigDB.step d.cfg d.st (.trim du)
      ({ d with st := s' }, "- | " ++ snapStr d s')
    | none => (d, "bad-op")
  | "gpar" :: rest =>
    -- a forced interleaving of two calls is one of the interleavings of `par`
    match (" ".intercalate rest).splitOn " ; " with
    | [a, b] =>
      match parseCall ((a.splitOn " ").filter (fun s => !s.isEmpty)),
            parseCall ((b.splitOn " ").filter (fun s => !s.isEmpty)) with
      | some ca, some cb => doCalls d [ca, cb] target
      | _, _ => (d, "bad-op")
    | _ => (d, "bad-op")
  | "par" :: rest =>
    match (" ".intercalate rest).splitOn " ; " with
    | [a, b] =>
      match parseCall ((a.splitOn " ").filter (fun s => !s.isEmpty)),
            parseCall ((b.splitOn " ").filter (fun s => !s.isEmpty)) with
      | some ca, some cb => doCalls d [ca, cb] target
      | _, _ => (d, "bad-op")
    | _ => (d, "bad-op")
  | _ =>
    -- status T: the deadliner answers Scheduled, the duty is trimmed before the store: `trim; call`
    let (d, toks) := match toks with
      | [k, du, "T", cb, es] =>
        match parseDuty du with
        | some du' =>
          let d := { d with duties := if d.duties.contains du' then d.duties else du' :: d.duties }
          let (s', _) := CharonV.ParSigDB.step d.cfg d.st (.trim du')
          ({ d with st := s' }, [k, du, "S", cb, es])
        | none => (d, toks)
      | _ => (d, toks)
    match parseCall toks with
    | some c => doCalls d [c] target
    | none => (d, "bad-op")

end Driver.ParSigDB

def main : IO Unit := Driver.runLoop Driver.ParSigDB.step {}
