import CharonV.Model.DepositReg
import Driver.Common

/-!
Line driver for `CharonV.Model.DepositReg` (stream `deposit`, C12). Op syntax (see
`harness/cmd/drive-deposit/main.go`). Strings of the Go side (addresses, network names, fork version
strings, lock versions) travel as the hex of their bytes, `-` is the empty string / empty list.

  cfg <name:forkhex;…|->                      test networks added for this episode → the built-in table
  creds <addr> <0|1>                           → <hex32> | err:addr | err:decode
  exaddr <addr>                                → <hex20> | err:…
  dmsg <pk> <addr> <amount> <0|1>              → ok <wc> <amount> | err:…
  maxamt <0|1>
  ddom <fv> / rdom <fv>                        → <domain hex32>
  droot <net> <pk> <wc> <amount>               → <msg root|err:wclen> <signing root|err:…>
  ddata <pk> <wc> <amount> <sig>               → <root|err:wclen>
  marshal <net> <pk:wc:amount:sig:signed;…|->  → null | entries | err:<class>
  amounts <0|1> <a[*k],…|->                    → ok | err:min | err:max | err:sum
  dedup <a,…|-> / eths <i,…|-> / defaults <0|1>
  merge <sets> <sets>                          sets: - | set;set…, set: e | id.amount,…
  rmsg <pk> <addr> <gas> <unix> <nanos>        → ok <fee> <gas> <unix> | err:…
  rroot <fv> <fee> <gas> <unix> <nanos> <pk>   → <msg root> <signing root>
  rverify <sk> <version> <fv> <valpk> <addr> <fee> <gas> <unix> <pk> <siglen> <signed|x>  → ok | err:…
  dsign <sk> <pk> <net> <addr> <amount> <0|1>  → ok <wc> <msg root> <signing root> rej=all | err:…
  rsign <sk> <pk> <fv> <addr> <gas> <unix> <version>  → ok <fee> <msg root> <signing root> rej=all | err:…
-/

open CharonV.DepositReg
open CharonV.Ssz (Bytes Chunk)
open CharonV.Signing (sha2)

namespace Driver.DepositReg

def hexVal (c : Char) : Option Nat :=
  if '0' ≤ c ∧ c ≤ '9' then some (c.toNat - 48)
  else if 'a' ≤ c ∧ c ≤ 'f' then some (c.toNat - 87)
  else none

def unhexChars : List Char → Option Bytes
  | [] => some []
  | [_] => none
  | a :: b :: r => do
    let x ← hexVal a
    let y ← hexVal b
    let rest ← unhexChars r
    pure (UInt8.ofNat (16 * x + y) :: rest)

/-- `-` is the empty byte string. -/
def unhex (s : String) : Option Bytes := if s == "-" then some [] else unhexChars s.toList

def hexDigitC (n : Nat) : Char := if n < 10 then Char.ofNat (48 + n) else Char.ofNat (87 + n)

def hexOf (b : Bytes) : String :=
  if b.isEmpty then "-" else String.ofList (b.flatMap fun x => [hexDigitC (x.toNat / 16), hexDigitC (x.toNat % 16)])

/-- ASCII bytes (the model's hex strings) as text. -/
def ascii (b : Bytes) : String := String.ofList (b.map fun x => Char.ofNat x.toNat)

def parseBool (s : String) : Option Bool := if s == "1" then some true else if s == "0" then some false else none

def errName : DErr → String
  | .addr => "err:addr" | .decode => "err:decode" | .addrLen => "err:addrlen" | .min => "err:min"
  | .max => "err:max" | .wcLen => "err:wclen" | .net => "err:net" | .forkHex => "err:forkhex"
  | .sig => "err:sig" | .unexpected => "err:unexpected" | .missing => "err:missing"
  | .mismatch => "err:mismatch" | .sigParse => "err:sigparse"

structure DState where
  tbl : List Network := builtinNetworks

def natList (xs : List Nat) : String := if xs.isEmpty then "-" else ",".intercalate (xs.map toString)

/-- `a` or `a*k` items. -/
def pushN : Nat → Nat → List Nat → List Nat
  | 0, _, acc => acc
  | k + 1, a, acc => pushN k a (a :: acc)

def parseAmounts (s : String) : Option (List Nat) :=
  if s == "-" then some [] else do
    let items ← (s.splitOn ",").mapM fun t =>
      match t.splitOn "*" with
      | [a] => do pure ((← a.toNat?), 1)
      | [a, k] => do pure ((← a.toNat?), (← k.toNat?))
      | _ => none
    pure (items.foldr (fun (a, k) acc => pushN k a acc) [])

def parseNets (s : String) : Option (List Network) :=
  if s == "-" then some [] else
    (s.splitOn ";").mapM fun t =>
      match t.splitOn ":" with
      | [a, b] => do pure ⟨← unhex a, ← unhex b⟩
      | _ => none

def tableDump (t : List Network) : String :=
  ",".intercalate (t.map fun n => ascii n.name ++ "=" ++ ascii n.forkHex)

structure MEntry where
  d : DepositData
  signed : Option Bytes

def parseEntries (s : String) : Option (List MEntry) :=
  if s == "-" then some [] else
    (s.splitOn ";").mapM fun t =>
      match t.splitOn ":" with
      | [pk, wc, a, sg, sr] => do
        let signed ← (if sr == "x" then some none else (unhex sr).map some)
        pure ⟨⟨← unhex pk, ← unhex wc, ← a.toNat?, ← unhex sg⟩, signed⟩
      | _ => none

def jsonStr (j : DepositJSON) : String :=
  ",".intercalate [ascii j.pubkey, ascii j.wc, toString j.amount, ascii j.sig, ascii j.msgRoot, ascii j.dataRoot,
    hexOf j.forkVersion, hexOf j.network, hexOf j.cliVersion]

def parseSet (s : String) : Option (List DepositData) :=
  if s == "e" then some [] else
    (s.splitOn ",").mapM fun t =>
      match t.splitOn "." with
      | [i, a] => do pure ⟨[UInt8.ofNat (← i.toNat?)], [], ← a.toNat?, []⟩
      | _ => none

def parseSets (s : String) : Option (List (List DepositData)) :=
  if s == "-" then some [] else (s.splitOn ";").mapM parseSet

def setStr (g : List DepositData) : String :=
  "[" ++ ",".intercalate (g.map fun d => toString (d.pubkey.headD 0).toNat ++ "." ++ toString d.amount) ++ "]"

def rootStr : Option Chunk → String
  | some c => hexOf c.bytes
  | none => "err:wclen"

def exec (d : DState) (toks : List String) : Option (DState × String) :=
  match toks with
  | ["cfg", nets] => do
    let ns ← parseNets nets
    pure ({ tbl := builtinNetworks ++ ns }, tableDump builtinNetworks)
  | ["creds", a, c] => do
    let r := withdrawalCredsFromAddr (← unhex a) (← parseBool c)
    pure (d, match r with | .ok w => hexOf w | .error e => errName e)
  | ["exaddr", a] => do
    let r := executionAddressFromStr (← unhex a)
    pure (d, match r with | .ok w => hexOf w | .error e => errName e)
  | ["dmsg", pk, a, amt, c] => do
    let r := newMessage (← unhex pk) (← unhex a) (← amt.toNat?) (← parseBool c)
    pure (d, match r with | .ok m => s!"ok {hexOf m.wc} {m.amount}" | .error e => errName e)
  | ["maxamt", c] => do pure (d, toString (maxDepositAmount (← parseBool c)))
  | ["ddom", fv] => do pure (d, hexOf (getDepositDomain sha2 (← unhex fv)).bytes)
  | ["rdom", fv] => do pure (d, hexOf (getRegistrationDomain sha2 (← unhex fv)).bytes)
  | ["droot", net, pk, wc, amt] => do
    let m : DepositMessage := ⟨← unhex pk, ← unhex wc, ← amt.toNat?⟩
    let sr := match depositSigningRoot sha2 d.tbl m (← unhex net) with
      | .ok c => hexOf c.bytes
      | .error e => errName e
    pure (d, rootStr (depositMessageRoot sha2 m) ++ " " ++ sr)
  | ["ddata", pk, wc, amt, sg] => do
    let dd : DepositData := ⟨← unhex pk, ← unhex wc, ← amt.toNat?, ← unhex sg⟩
    pure (d, rootStr (depositDataRoot sha2 dd))
  | ["marshal", net, entries] => do
    let es ← parseEntries entries
    let verify : Bytes → Chunk → Bytes → Bool := fun pk root sg =>
      es.any fun e => e.d.pubkey == pk && e.d.sig == sg && e.signed == some root.bytes
    let r := marshalDepositData sha2 verify d.tbl (es.map (·.d)) (← unhex net)
    pure (d, match r with
      | .error e => errName e
      | .ok [] => "null"
      | .ok js => ";".intercalate (js.map jsonStr))
  | ["amounts", c, l] => do
    let v := verifyDepositAmounts (← parseAmounts l) (← parseBool c)
    pure (d, match v with | .ok => "ok" | .errMin => "err:min" | .errMax => "err:max" | .errSum => "err:sum")
  | ["dedup", l] => do pure (d, natList (dedupAmounts (← parseAmounts l)))
  | ["eths", l] => do
    let xs ← (if l == "-" then some [] else (l.splitOn ",").mapM String.toInt?)
    pure (d, natList (ethsToGweis xs))
  | ["defaults", c] => do pure (d, natList (defaultDepositAmounts (← parseBool c)))
  | ["merge", a, b] => do
    let a ← parseSets a
    let b ← parseSets b
    -- the Go map's iteration order is canonicalised on both sides: ascending amounts
    let ord := sortAsc (amountsOf a b)
    let r := mergeDepositDataSets ord a b
    pure (d, if r.isEmpty then "-" else String.join (r.map setStr))
  | ["rmsg", pk, a, gas, ts, _ns] => do
    let r := newRegistration (← unhex pk) (← unhex a) (← gas.toNat?) (← ts.toInt?)
    pure (d, match r with | .ok m => s!"ok {hexOf m.fee} {m.gasLimit} {m.timestamp}" | .error e => errName e)
  | ["rroot", fv, fee, gas, ts, _ns, pk] => do
    let r : Registration := ⟨← unhex fee, ← gas.toNat?, ← ts.toInt?, ← unhex pk⟩
    pure (d, rootStr (registrationRoot sha2 r) ++ " " ++ rootStr (registrationSigningRoot sha2 (← unhex fv) r))
  | ["dsign", _sk, pk, net, a, amt, c] => do
    match newMessage (← unhex pk) (← unhex a) (← amt.toNat?) (← parseBool c) with
    | .error e => pure (d, errName e)
    | .ok m =>
      match depositSigningRoot sha2 d.tbl m (← unhex net) with
      | .error e => pure (d, errName e)
      | .ok sr => pure (d, s!"ok {hexOf m.wc} {rootStr (depositMessageRoot sha2 m)} {hexOf sr.bytes} rej=all")
  | ["rsign", _sk, pk, fv, a, gas, ts, ver] => do
    let pk ← unhex pk
    let fv ← unhex fv
    match newRegistration pk (← unhex a) (← gas.toNat?) (← ts.toInt?) with
    | .error e => pure (d, errName e)
    | .ok m =>
      -- the creator's signature verifies for the signing root of this message and for nothing else
      let sr := registrationSigningRoot sha2 fv m
      let verify : Bytes → Chunk → Bytes → Bool := fun k root _ => k == pk && sr == some root
      let stored : StoredRegistration := ⟨m.fee, m.gasLimit, m.timestamp, m.pubkey, List.replicate 96 1⟩
      let v := match verifyBuilderRegistration sha2 verify (← unhex ver) fv pk (← unhex a) stored with
        | .ok _ => "all" | .error e => "valid-rejected(" ++ errName e ++ ")"
      pure (d, s!"ok {hexOf m.fee} {rootStr (registrationRoot sha2 m)} {rootStr sr} rej={v}")
  | ["rverify", _sk, ver, fv, vpk, a, fee, gas, ts, pk, siglen, signed] => do
    let sg : Bytes := List.replicate (← siglen.toNat?) 1
    let s : StoredRegistration := ⟨← unhex fee, ← gas.toInt?, ← ts.toInt?, ← unhex pk, sg⟩
    let signed ← (if signed == "x" then some none else (unhex signed).map some)
    let vpk ← unhex vpk
    let verify : Bytes → Chunk → Bytes → Bool := fun k root _ => k == vpk && signed == some root.bytes
    let r := verifyBuilderRegistration sha2 verify (← unhex ver) (← unhex fv) vpk (← unhex a) s
    pure (d, match r with | .ok _ => "ok" | .error e => errName e)
  | _ => none

def step (d : DState) (line : String) : DState × String :=
  let toks := (line.splitOn " ").filter (· ≠ "")
  match exec d toks with
  | some r => r
  | none => (d, "bad-op")

end Driver.DepositReg

def main : IO Unit := Driver.runLoop Driver.DepositReg.step {}
