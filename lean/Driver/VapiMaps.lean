import CharonV.Model.VapiMaps
import Driver.Common

/-
Line driver for the VapiMaps model (C10, stream `vapimaps`). Ops (see harness/cmd/drive-vapimaps/main.go):

  cfg <peerIdx> <shareIdx> <lock> [~ inv=<share>:<pk>,…]   new episode: app.go's tables from the lock, then NewComponent.
        lock = `pk:s,s,s;pk:s,s` (validators in lock order; `-` = no validator). The oracle lists, for every public
        share that is this node's share of SEVERAL validators, which validator keysByShare ended up with (Go map order).
  share <pk>               getPubShareFunc + getVerifyShareFunc
  key <share>              getPubKeyFunc
  all <pk> <idx>           allPubSharesByKey[pk][idx]
  duties <p|a|s> <c|d|r> <md|-> <pk/rest,nil,…|->     ProposerDuties / AttesterDuties / SyncCommitteeDuties with the provider
        answering the list (c: scripted duties cache, d: direct beacon node path, r: the real eth2wrap.DutiesCache in
        front of the scripted beacon node, called twice)
  bn <idx:pk/rest,idx:nil,…|-> <cached idx,…|->       the beacon node's validator set and which of them are in CompleteValidators
  vals <share,…|-> <idx,…|->                          Validators
-/
open CharonV.VapiMaps

namespace Driver.VapiMaps

structure DState where
  comp  : Option Comp := none
  bn    : VMap := []
  cache : List (Nat × Val) := []

def int? (s : String) : Option Int :=
  if s.startsWith "-" then (s.drop 1).toNat?.map fun n => - (n : Int) else s.toNat?.map fun n => (n : Int)

def nats? (s : String) : Option (List Nat) :=
  if s == "-" || s == "" then some [] else (s.splitOn ",").mapM String.toNat?

def showNats (l : List Nat) : String := if l.isEmpty then "-" else Driver.joinWith "," (l.map toString)

def lockVal? (s : String) : Option LockVal :=
  match s.splitOn ":" with
  | [pk, sh] => match pk.toNat?, nats? sh with
    | some k, some l => some { pubkey := k, shares := l }
    | _, _ => none
  | _ => none

def lock? (s : String) : Option Lock :=
  if s == "-" then some [] else (s.splitOn ";").mapM lockVal?

def pair? (sep : String) (s : String) : Option (Nat × Nat) :=
  match s.splitOn sep with
  | [a, b] => match a.toNat?, b.toNat? with
    | some x, some y => some (x, y)
    | _, _ => none
  | _ => none

def oracleOf (line : String) : String × List (String × String) :=
  match line.splitOn " ~ " with
  | [b] => (b, [])
  | b :: o :: _ => (b, (o.splitOn " ").filterMap (fun kv => match kv.splitOn "=" with
      | [k, v] => some (k, v)
      | _ => none))
  | [] => ("", [])

def sortBy {α : Type} (f : α → Nat) (l : List α) : List α := l.mergeSort (fun a b => f a ≤ f b)

def dedupNat : List Nat → List Nat
  | [] => []
  | x :: xs => x :: (dedupNat xs).filter (· ≠ x)

/-- move the row of validator `pk` to the end of the iteration order. -/
def moveLast (T : Tbl) (pk : Key) : Tbl := T.filter (fun r => r.1 ≠ pk) ++ T.filter (fun r => r.1 = pk)

def showLErr : LErr → String
  | .unknown => "err:unknown" | .noIdx => "err:noidx" | .mismatch => "err:mismatch"

def doCfg (p idx : Int) (L : Lock) (inv : List (Nat × Nat)) : DState × String :=
  match appPubshares L p with
  | none => ({}, "panic")
  | some ps =>
    let T0 := sortBy (·.1) (appTable L)
    -- every oracle entry must name a validator whose own share is that share
    let bad := inv.any fun e => !(T0.any fun r => r.1 = e.2 && ownShare r.2 idx = e.1)
    if bad then ({}, "impossible") else
    let T := inv.foldl (fun t e => moveLast t e.2) T0
    let c := newComponent T idx
    let own := (sortBy (·.1) c.own).map fun e => s!"{e.1}>{e.2}"
    let shares := (dedupNat (c.own.map (·.2))).mergeSort (· ≤ ·)
    let invs := shares.map fun s => match c.getPubKey s with
      | .ok k => s!"{s}>{k}"
      | .error e => s!"{s}>{showLErr e}"
    -- the oracle must cover exactly the ambiguous shares
    let amb := shares.filter fun s => (c.own.filter (·.2 = s)).length > 1
    if (amb.mergeSort (· ≤ ·)) != ((inv.map (·.1)).mergeSort (· ≤ ·)) then ({}, "impossible") else
    ({ comp := some c }, s!"ok ps={showNats ps} own={Driver.joinWith "," own} inv={Driver.joinWith "," invs}")

def duty? (s : String) : Option (Option Duty) :=
  if s == "nil" then some none else (pair? "/" s).map fun p => some { pubkey := p.1, rest := p.2 }

def duties? (s : String) : Option (List (Option Duty)) :=
  if s == "-" then some [] else (s.splitOn ",").mapM duty?

def showDuty : Option Duty → String
  | none => "nil"
  | some d => s!"{d.pubkey}/{d.rest}"

def showDuties (l : List (Option Duty)) : String :=
  if l.isEmpty then "-" else Driver.joinWith "," (l.map showDuty)

def showMd : Option Nat → String
  | none => "-" | some m => toString m

def doDuties (c : Comp) (k : DutyKind) (mode : String) (md : Option Nat) (ds : List (Option Duty)) : String :=
  -- the real duties cache refuses a nil duty of the beacon node before the component sees the list
  if mode == "r" && ds.any (· == none) then s!"err:nil handed={showDuties ds} again=same" else
  let o := duties c k ds md
  let tail := if mode == "r" then " again=same" else ""
  match o.res with
  | .ok (data, m) => s!"ok {showDuties data} md={showMd m} handed={showDuties o.handed}{tail}"
  | .error .nilDuty => s!"err:nil handed={showDuties o.handed}{tail}"
  | .error .notFound => s!"err:notfound handed={showDuties o.handed}{tail}"

def bnEntry? (s : String) : Option (Nat × Option Val) :=
  match s.splitOn ":" with
  | [i, v] => match i.toNat? with
    | none => none
    | some idx => if v == "nil" then some (idx, none) else (pair? "/" v).map fun p => (idx, some { pubkey := p.1, rest := p.2 })
  | _ => none

def bnAnswer (world : VMap) (pks : List Key) (idxs : List Nat) : VMap :=
  if pks.isEmpty && idxs.isEmpty then world
  else world.filter fun e => idxs.contains e.1 || (match e.2 with | some v => pks.contains v.pubkey | none => false)

def showVErr : VErr → String
  | .nilVal | .notFound => "err:conv"
  | .key e => showLErr e

def showQ (q : List Key × List Nat) : String := s!"{showNats q.1}|{showNats q.2}"

def doVals (d : DState) (c : Comp) (q : VReq) : String :=
  let o := validators c (fun pks idxs => sortBy (·.1) (bnAnswer d.bn pks idxs)) d.cache q
  -- the merged map is converted in index order here; both convert errors print as one class
  let res := match o.res with
    | .ok r => "ok " ++ (if r.isEmpty then "-" else Driver.joinWith "," ((sortBy (fun (e : Nat × Val) => e.1) r).map fun (e : Nat × Val) => s!"{e.1}:{e.2.pubkey}/{e.2.rest}"))
    | .error e => showVErr e
  let qs := if o.queries.isEmpty then "-" else Driver.joinWith ";" (o.queries.map showQ)
  s!"{res} q={qs} opt={showNats o.optPks}"

def step (d : DState) (line : String) : DState × String :=
  let (body, orc) := oracleOf line
  match body.splitOn " " with
  | ["cfg", p, i, l] =>
    match int? p, int? i, lock? l with
    | some p, some i, some L =>
      let invS := (orc.lookup "inv").getD "-"
      let inv := if invS == "-" then some [] else (invS.splitOn ",").mapM (pair? ":")
      match inv with
      | some inv => doCfg p i L inv
      | none => (d, "bad-op")
    | _, _, _ => (d, "bad-op")
  | ["bn", w, cs] =>
    let world := if w == "-" then some [] else (w.splitOn ",").mapM bnEntry?
    match world, nats? cs with
    | some world, some cs =>
      let cache := world.filterMap fun e => match e.2 with
        | some v => if cs.contains e.1 then some (e.1, v) else none
        | none => none
      ({ d with bn := world, cache := cache }, "ok")
    | _, _ => (d, "bad-op")
  | op :: args =>
    match d.comp with
    | none => if ["share", "key", "all", "duties", "vals"].contains op then (d, "nocomp") else (d, "bad-op")
    | some c =>
      match op, args with
      | "share", [pk] =>
        match pk.toNat? with
        | some pk =>
          let ps := match c.getPubShare pk with | some s => toString s | none => "-"
          let vs := match c.getVerifyShare pk with | .ok s => toString s | .error e => showLErr e
          (d, s!"ps={ps} vs={vs}")
        | none => (d, "bad-op")
      | "key", [s] =>
        match s.toNat? with
        | some s => (d, match c.getPubKey s with | .ok k => toString k | .error e => showLErr e)
        | none => (d, "bad-op")
      | "all", [pk, i] =>
        match pk.toNat?, int? i with
        | some pk, some i => (d, match allShare c.all pk i with | .ok k => toString k | .error e => showLErr e)
        | _, _ => (d, "bad-op")
      | "duties", [k, mode, md, ds] =>
        let kind := match k with
          | "p" => some DutyKind.proposer | "a" => some DutyKind.attester | "s" => some DutyKind.sync | _ => none
        let mdv : Option (Option Nat) := if md == "-" then some none else md.toNat?.map some
        match kind, mdv, duties? ds with
        | some kind, some mdv, some ds =>
          if ["c", "d", "r"].contains mode then (d, doDuties c kind mode mdv ds) else (d, "bad-op")
        | _, _, _ => (d, "bad-op")
      | "vals", [ss, is] =>
        match nats? ss, nats? is with
        | some ss, some is => (d, doVals d c { pubkeys := ss, indices := is })
        | _, _ => (d, "bad-op")
      | _, _ => (d, "bad-op")
  | [] => (d, "bad-op")

end Driver.VapiMaps

def main : IO Unit := Driver.runLoop Driver.VapiMaps.step ({} : Driver.VapiMaps.DState)
