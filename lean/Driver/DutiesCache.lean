import CharonV.Model.DutiesCache
import CharonV.Model.SseReorg
import Driver.Common

/-
Line driver for the duties cache model (C20). Ops (see harness/cmd/drive-cache/main.go):

  cfg <seed> <nv> <active|->          new episode
  get <k> <e> <idxs|->                -> ans <duties> m<md>#<obj> call=<idxs|-|none>
  begin <id> <k> <e> <idxs|->         -> ans … call=none   |   pend call=<idxs|->
  finish <id>                         -> ans … call=<idxs|->
  reorg <e> | trim <e>                -> snapshot
  active <idxs|->                     -> ok

duties: `idx:tag#obj` joined by `,` (or `-`); object identities are interned in order of first
appearance in the output (kinds 0/1 have no index slice: `#0`).
snapshot: `k0:[e(r,d) …] k1:[…] k2:[…]`.
-/
open CharonV.DutiesCache

namespace Driver.DutiesCache

structure DState where
  seed   : Nat := 0
  nv     : Nat := 0
  st     : State := {}
  keys   : List (Nat × Nat) := []      -- (kind, epoch) ever touched in this episode
  intern : List Nat := []              -- object ids in order of first appearance (reversed)
  nIntern : Nat := 0
  sseLast : List (Nat × Nat) := []     -- per slots-per-epoch: last epoch the SSE listener notified (default 0)

def parseList (s : String) : Option (List Nat) :=
  if s == "-" then some []
  else (s.splitOn ",").mapM (fun x => x.toNat?)

def showList (l : List Nat) : String :=
  if l.isEmpty then "-" else Driver.joinWith "," (l.map toString)

def internId (d : DState) (o : Nat) : DState × Nat :=
  let rec find (l : List Nat) (pos : Nat) : Option Nat :=
    match l with
    | [] => none
    | x :: xs => if x == o then some pos else find xs (pos - 1)
  match find d.intern d.nIntern with
  | some p => (d, p)
  | none => ({ d with intern := o :: d.intern, nIntern := d.nIntern + 1 }, d.nIntern + 1)

def showAns (d : DState) (k : Nat) (ds : List DObj) (md mo : Nat) (call : Option (List Nat)) : DState × String :=
  let (d1, parts) := ds.foldl (fun (acc : DState × List String) o =>
    if k == 2 then
      let (d', i) := internId acc.1 o.sl
      (d', s!"{o.d.idx}:{o.d.tag}#{i}" :: acc.2)
    else (acc.1, s!"{o.d.idx}:{o.d.tag}#0" :: acc.2)) (d, [])
  let (d2, mi) := internId d1 mo
  let dstr := if parts.isEmpty then "-" else Driver.joinWith "," parts.reverse
  let cstr := match call with | none => "none" | some c => showList c
  (d2, s!"ans {dstr} m{md}#{mi} call={cstr}")

def snapshot (d : DState) : String :=
  let kindStr (k : Nat) : String :=
    let es := (d.keys.filter (fun p => p.1 == k)).map (·.2)
    let es := es.mergeSort (fun a b => a ≤ b)
    let items := es.filterMap (fun e =>
      match lookup d.st.cache k e with
      | some ent => some s!"{e}({ent.req.length},{ent.duties.length})"
      | none => none)
    s!"k{k}:[" ++ Driver.joinWith " " items ++ "]"
  Driver.joinWith " " [kindStr 0, kindStr 1, kindStr 2]

def addKey (d : DState) (k e : Nat) : DState :=
  if d.keys.contains (k, e) then d else { d with keys := (k, e) :: d.keys }

def mstep (d : DState) (op : Op) : State × Out :=
  step Cfg.current (scriptedBn d.seed d.nv) (scriptedMeta d.seed) d.st op

def kindOfPending (s : State) (id : Nat) : Nat :=
  match s.pending.find? (fun p => p.id == id) with
  | some p => p.kind
  | none => 0

def render (d : DState) (k : Nat) (r : State × Out) : DState × String :=
  let d := { d with st := r.1 }
  match r.2 with
  | .ans ds md mo call => showAns d k ds md mo call
  | .pend c => (d, s!"pend call={showList c}")
  | .none => (d, "bad-op")

def step (d : DState) (line : String) : DState × String :=
  match line.splitOn " " with
  | ["cfg", a, b, c] =>
    match a.toNat?, b.toNat?, parseList c with
    | some seed, some nv, some act =>
      ({ seed := seed, nv := nv, st := { active := act } }, "ok")
    | _, _, _ => (d, "bad-op")
  | ["get", a, b, c] =>
    match a.toNat?, b.toNat?, parseList c with
    | some k, some e, some idxs =>
      if k ≥ 3 then (d, "bad-op") else
      render (addKey d k e) k (mstep d (.get k e idxs))
    | _, _, _ => (d, "bad-op")
  | ["begin", i, a, b, c] =>
    match i.toNat?, a.toNat?, b.toNat?, parseList c with
    | some id, some k, some e, some idxs =>
      if k ≥ 3 || id == 0 then (d, "bad-op") else
      render (addKey d k e) k (mstep d (.begin id k e idxs))
    | _, _, _, _ => (d, "bad-op")
  | ["finish", i] =>
    match i.toNat? with
    | some id => render d (kindOfPending d.st id) (mstep d (.finish id))
    | none => (d, "bad-op")
  | ["reorg", a] =>
    match a.toNat? with
    | some e => let d := { d with st := (mstep d (.reorg e)).1 }; (d, snapshot d)
    | none => (d, "bad-op")
  | ["sse", a, b, c] =>
    -- a chain_reorg event (head slot, depth) at the SSE listener for `spe` slots per epoch; its subscriber
    -- is InvalidateCache (and the scripted node changes its answers for the epochs after the notified one)
    match a.toNat?, b.toNat?, c.toNat? with
    | some slot, some depth, some spe =>
      let last := ((d.sseLast.find? (fun x => x.1 == spe)).map (·.2)).getD 0
      match CharonV.SseReorg.handle spe last slot depth with
      | (_, .err) => (d, "sse err")
      | (_, .dup) => (d, "sse dup")
      | (l, .notify e) =>
        let d := { d with st := (mstep d (.reorg e)).1,
                          sseLast := (spe, l) :: d.sseLast.filter (fun x => x.1 != spe) }
        (d, s!"sse {e} " ++ snapshot d)
    | _, _, _ => (d, "bad-op")
  | ["trim", a] =>
    match a.toNat? with
    | some e => let d := { d with st := (mstep d (.trim e)).1 }; (d, snapshot d)
    | none => (d, "bad-op")
  | ["active", c] =>
    match parseList c with
    | some idxs => ({ d with st := (mstep d (.setActive idxs)).1 }, "ok")
    | none => (d, "bad-op")
  | _ => (d, "bad-op")

end Driver.DutiesCache

def main : IO Unit := Driver.runLoop Driver.DutiesCache.step {}
