import CharonV.Model.QbftWire
import Driver.Common

/-!
Line driver for the wire-admission model of `core/consensus/qbft` (C05).

ops:
  cfg <n> <spe> <curEpoch> <expBelow> <exemptMask>
        new component: n member keys (key i = i), gater = `dutyGater spe curEpoch allowedFutureEpochs`,
        scripted deadliner: exempt if bit `type` of the mask is set, expired if slot < expBelow,
        else scheduled.
  m <ctxDone 0|1> <hex of the wire bytes, ignored here> | M <core|nil> {J <core>} {V <vh>}
        core = type,slot,dtype,peer,round,pr,vh,pvh,sig   (slot = dtype = x : duty is nil)
        vh/pvh = o (toHash32 false) | h<id>               sig = n (nil) | e (recover error) |
        x (recovered key is no member) | k<i> (recovered key is member i's)
        V <vh>: e (value does not unmarshal / hash) | h<id> (recomputed hash)
        The signature verdicts and recomputed hashes are computed by the harness independently of
        `handle`; here they instantiate the symbolic `Crypto`.
  nilreq | wrongtype            request is a nil pointer / another proto type
  undecodable <hex>             bytes that `proto.Unmarshal` rejects: never reach `handle`
  mark <p|q|s> <slot> <dtype>   MarkProposed / MarkParticipated / MaybeStart on getInstanceIO(duty)
  del <slot> <dtype>            deleteInstanceIO
  drain <slot> <dtype>          the instance's receive loop takes everything off the outer buffer
  leader <slot> <dtype> <round> <nodes>

output: `ok i=<instances> l=<buffer length of the duty> d=<duties scheduled> <view>` or
`rej:<class> i= l= d=`.
-/

open CharonV.QbftWire
open CharonV.Generated

namespace Driver.QbftWire

structure DState where
  keys : List Key := []
  spe : Nat := 1
  curEpoch : Nat := 0
  expBelow : Nat := 0
  exemptMask : Nat := 0
  st : State := {}

def notMember : Key := 1000000

/-- driver instantiation of the symbolic crypto: a signature token *is* its recovery verdict
(`SigB`: 0 = error, k+1 = recovered key k), a value token *is* its recomputed hash. Values also carry
their position so that the view can name which `Any` is returned: the `Val` at position `p` with
recomputed hash `h` is `2*(h*1024+p)+1`, an undecodable one is `2*p`. -/
def crypto : Crypto :=
  { Digest := Unit
    digest := fun _ => ()
    recover := fun _ s => if s = 0 then none else some (s - 1)
    unmarshalAny := fun v => if v % 2 = 0 then none else some (v / 2)
    hashInner := fun x => some (x / 1024) }

def parseH (s : String) : Option HBytes :=
  if s = "o" then some (.other 0)
  else if s.startsWith "h" then (s.drop 1).toNat?.map HBytes.ok
  else none

def parseSig (s : String) : Option (Option SigB) :=
  if s = "n" then some none
  else if s = "e" then some (some 0)
  else if s = "x" then some (some (notMember + 1))
  else if s.startsWith "k" then (s.drop 1).toNat?.map (fun k => some (k + 1))
  else none

def parseCore (s : String) : Option Core :=
  match s.splitOn "," with
  | [ty, slot, dty, peer, round, pr, vh, pvh, sg] =>
    let duty : Option (Option DutyPb) :=
      if slot = "x" && dty = "x" then some none
      else match slot.toNat?, dty.toInt? with
        | some sl, some dt => some (some { slot := sl, type := dt })
        | _, _ => none
    match ty.toInt?, duty, peer.toInt?, round.toInt?, pr.toInt?, parseH vh, parseH pvh, parseSig sg with
    | some ty, some duty, some peer, some round, some pr, some vh, some pvh, some sg =>
      some { fields := { type := ty, duty := duty, peerIdx := peer, round := round, preparedRound := pr,
                         valueHash := vh, preparedValueHash := pvh }, sig := sg }
    | _, _, _, _, _, _, _, _ => none
  | _ => none

def mkVal (pos : Nat) (tok : String) : Option Val :=
  if tok = "e" then some (2 * pos)
  else if tok.startsWith "h" then (tok.drop 1).toNat?.map (fun h => 2 * (h * 1024 + pos) + 1)
  else none

def valPos (v : Val) : Nat := (v / 2) % 1024

partial def parseWire (toks : List String) (w : Wire) (seenMain : Bool) : Option Wire :=
  match toks with
  | [] => if seenMain then some w else none
  | "M" :: "nil" :: rest => if seenMain then none else parseWire rest { w with main := none } true
  | "M" :: c :: rest =>
    if seenMain then none else
    match parseCore c with
    | some c => parseWire rest { w with main := some c } true
    | none => none
  | "J" :: c :: rest =>
    match parseCore c with
    | some c => parseWire rest { w with just := w.just ++ [c] } seenMain
    | none => none
  | "V" :: v :: rest =>
    match mkVal w.values.length v with
    | some v => parseWire rest { w with values := w.values ++ [v] } seenMain
    | none => none
  | _ => none

def showVErr : VErr → String
  | .invalid => "invalid" | .type => "type" | .dutyType => "dutytype" | .round => "round"
  | .preparedRound => "pround" | .peerIdx => "peeridx" | .sigEmpty => "sig-empty"
  | .sigErr => "sig-err" | .sigWrong => "sig-wrong"

def showReason : Reason → String
  | .invalid => "invalid"
  | .main e => showVErr e
  | .gater => "gater"
  | .tooManyJust => "toomanyjust"
  | .tooManyValues => "toomanyvalues"
  | .cancelledJust => "cancelled-just"
  | .just e => "just:" ++ showVErr e
  | .justDuty => "justduty"
  | .values => "values"
  | .noValue => "novalue"
  | .noPreparedValue => "nopvalue"
  | .cancelled => "cancelled"
  | .expired => "expired"
  | .timeout => "timeout"

def showHash : Option Hash → String
  | none => "0"
  | some h => toString h

def showCoreView (c : CoreView) : String :=
  s!"{c.type}/{c.duty.slot}/{c.duty.type}/{c.source}/{c.round}/{showHash c.value}/{c.preparedRound}/{showHash c.preparedValue}"

def insertPair (p : Nat × Nat) : List (Nat × Nat) → List (Nat × Nat)
  | [] => [p]
  | x :: xs => if p.1 < x.1 then p :: x :: xs else if p.1 = x.1 then x :: xs else x :: insertPair p xs

/-- map view: hash ↦ position, the most recent binding per hash, sorted by hash. -/
def showVals (m : VMap) : String :=
  let rec dedup (seen : List Nat) : VMap → List (Nat × Nat)
    | [] => []
    | (h, v) :: rest => if seen.contains h then dedup seen rest else (h, valPos v) :: dedup (h :: seen) rest
  let ps := (dedup [] m).foldl (fun acc p => insertPair p acc) []
  Driver.joinWith "," (ps.map (fun p => s!"{p.1}:{p.2}"))

def showView (m : MsgView) : String :=
  let vs := match m.core.value with
    | none => "-"
    | some h => match m.values.get h with | some v => toString (valPos v) | none => "-"
  showCoreView m.core ++ " J[" ++ Driver.joinWith ";" (m.just.map showCoreView) ++ "] vs=" ++ vs ++
    " vals=" ++ showVals m.values

def env (d : DState) (ctxDone : Bool) : Env :=
  { gater := dutyGater d.spe d.curEpoch QbftConst.allowedFutureEpochs
    dl := fun du =>
      if du.type ≥ 0 && du.type < 62 && (d.exemptMask >>> du.type.toNat) % 2 = 1 then .exempt
      else if du.slot < d.expBelow then .expired else .scheduled
    ctxDone := ctxDone }

def tail (d : DState) (duty : Option Duty) : String :=
  let l := match duty with | some du => toString (d.st.bufLen du) | none => "-"
  s!"i={d.st.insts.length} l={l} d={d.st.dlSet.length}"

def doHandle (d : DState) (ctxDone : Bool) (req : Option Wire) : DState × String :=
  let (s', r) := handle crypto d.keys QbftConst.recvBufferSize (env d ctxDone) d.st req
  let d' := { d with st := s' }
  let duty : Option Duty := match req with
    | some w => match w.main with
      | some c => match c.fields.duty with | some du => some (dutyFromProto du) | none => none
      | none => none
    | none => none
  match r with
  | .accept m => (d', "ok " ++ tail d' duty ++ " " ++ showView m)
  | .reject rs => (d', "rej:" ++ showReason rs ++ " " ++ tail d' duty)

def parseDuty (a b : String) : Option Duty :=
  match a.toNat?, b.toInt? with
  | some s, some t => some { slot := s, type := t }
  | _, _ => none

def step (d : DState) (line : String) : DState × String :=
  match line.splitOn " " with
  | ["cfg", n, spe, ce, eb, em] =>
    match n.toNat?, spe.toNat?, ce.toNat?, eb.toNat?, em.toNat? with
    | some n, some spe, some ce, some eb, some em =>
      if spe = 0 then (d, "bad-op") else
      ({ keys := List.range n, spe := spe, curEpoch := ce, expBelow := eb, exemptMask := em, st := {} }, "ok")
    | _, _, _, _, _ => (d, "bad-op")
  | "m" :: ctx :: _hex :: "|" :: toks =>
    if ctx ≠ "0" && ctx ≠ "1" then (d, "bad-op") else
    match parseWire toks { main := none, just := [], values := [] } false with
    | some w => doHandle d (ctx = "1") (some w)
    | none => (d, "bad-op")
  | ["nilreq"] => doHandle d false none
  | ["wrongtype"] => doHandle d false none
  | ["undecodable", _] => (d, "rej:undecodable " ++ tail d none)
  | ["mark", f, a, b] =>
    match parseDuty a b, (if f = "p" then some Flag.proposed else if f = "q" then some Flag.participated
                           else if f = "s" then some Flag.running else none) with
    | some du, some fl =>
      let (s', ok) := mark d.st du fl
      let d' := { d with st := s' }
      (d', (if ok then "ok " else "dup ") ++ tail d' (some du))
    | _, _ => (d, "bad-op")
  | ["del", a, b] =>
    match parseDuty a b with
    | some du =>
      let d' := { d with st := { d.st with insts := d.st.insts.filter (fun i => i.duty ≠ du) } }
      (d', "ok " ++ tail d' (some du))
    | none => (d, "bad-op")
  | ["drain", a, b] =>
    match parseDuty a b with
    | some du =>
      let d' := { d with st := { d.st with insts := d.st.insts.map (fun i => if i.duty = du then { i with buf := [] } else i) } }
      (d', "ok " ++ tail d' (some du))
    | none => (d, "bad-op")
  | ["leader", a, b, r, n] =>
    match parseDuty a b, r.toInt?, n.toNat? with
    | some du, some r, some n => if n = 0 then (d, "bad-op") else (d, toString (leader du r n))
    | _, _, _ => (d, "bad-op")
  | _ => (d, "bad-op")

end Driver.QbftWire

def main : IO Unit := Driver.runLoop Driver.QbftWire.step {}
