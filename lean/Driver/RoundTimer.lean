import CharonV.Model.RoundTimer
import Driver.Common

/-!
Line driver for the round-timer model (stream `roundtimer` of C04). Every op is self-contained.

  t <kind> <dutyType> <slot> <genesis|-> <slotDur> <call>,<call>,...
      kind: inc | eager | linear;  genesis: ns after the base instant or `-` (zero time)
      call: <member>:<round>:<now>:<pt>   member 0..7 (each member owns one timer object built
            from the same arguments), now = ns after the base instant, pt = 0|1
      -> <dur>,<dur>,...   duration in ns until the channel of that call fires
  sel <linear 0|1> <eager 0|1> <dutyType>
      -> <Type()> <Type().Eager() 0|1>
-/
open CharonV.RoundTimer

namespace Driver.RoundTimer

def parseKind : String → Option Kind
  | "inc" => some .inc | "eager" => some .eager | "linear" => some .linear | _ => none

def parseBool : String → Option Bool
  | "0" => some false | "1" => some true | _ => none

structure MCall where
  member : Nat
  call   : Call

def parseCall (tok : String) : Option MCall :=
  match tok.splitOn ":" with
  | [m, r, t, p] =>
    match m.toNat?, r.toNat?, t.toNat?, parseBool p with
    | some m, some r, some t, some p =>
      if m < 8 ∧ r ≥ 1 then some { member := m, call := { pt := p, now := t, round := r } } else none
    | _, _, _, _ => none
  | _ => none

def parseCalls (s : String) : Option (List MCall) :=
  (s.splitOn ",").mapM parseCall

def getSt (sts : List State) (m : Nat) : State := sts.getD m {}

def setSt (sts : List State) (m : Nat) (s : State) : List State := sts.set m s

def runCalls (c : Cfg) : List State → List MCall → List Nat → List Nat
  | _, [], acc => acc.reverse
  | sts, k :: ks, acc =>
    let (s', f) := timerCall c k.call.pt (getSt sts k.member) k.call.now k.call.round
    runCalls c (setSt sts k.member s') ks (f.dur :: acc)

def step (u : Unit) (line : String) : Unit × String :=
  match line.splitOn " " with
  | ["t", k, dt, sl, g, sd, cs] =>
    let gen : Option (Option Nat) := if g == "-" then some none else g.toNat?.map some
    match parseKind k, dt.toNat?, sl.toNat?, gen, sd.toNat?, parseCalls cs with
    | some k, some dt, some sl, some g, some sd, some cs =>
      let c : Cfg := { kind := k, dutyType := dt, slot := sl, genesis := g, slotDur := sd }
      let durs := runCalls c (List.replicate 8 {}) cs []
      (u, Driver.joinWith "," (durs.map toString))
    | _, _, _, _, _, _ => (u, "bad-op")
  | ["sel", l, e, dt] =>
    match parseBool l, parseBool e, dt.toNat? with
    | some l, some e, some dt =>
      let k := selectKind l e dt
      (u, k.name ++ " " ++ (if k.isEager then "1" else "0"))
    | _, _, _ => (u, "bad-op")
  | _ => (u, "bad-op")

end Driver.RoundTimer

def main : IO Unit := Driver.runLoop Driver.RoundTimer.step ()
