import CharonV.Model.RouterGet
import Driver.Common

/-!
Line driver for the response side of the validator API (`CharonV.Model.RouterGet`). Op syntax: see
`harness/cmd/drive-routerget/main.go`. Everything before ` | ` is the concrete recipe of the Go driver;
the model reads only what follows:

  pv … | <paramsOk> <ans>                                   ans := err | nilresp | nildata | P:<ver>:<bl>:<exec|n>:<cons|n>:<7 full ids|->:<7 blinded ids|->
  pc … | <paramsOk> <builder> <slot> <defs e|n> <nsub> <failAt|-> <store>     store := - | <slot>=<err|nil|P:…>,…
  ag … | <slotQ> <rootOk> <ciQ> <ans>                        ans := err | nilresp | nildata | A:<ver>:<7 ids|->      Q := - | =<chars>
  ad … | <slotQ> <ciQ> <ans>                                 ans := err | nilresp | nildata | D:<id>
  vs … | <state> <csvs> <body> <ans>                         csvs := - | =<chars>;…   body := empty | fail | ok:- | ok:=<chars>;…   ans := err | nilresp | nildata | V:<n>:<hasNil>
  v1 … | <state> =<chars> <ans>
  du … | <kind> =<chars> <body> <ans>                        body := - | empty | fail | ok:- | ok:<i>,…   ans := err | nilresp | U:<n>:<nil | eo/dr>

In <chars> `~` stands for a space and `^` for a tab.
-/

open CharonV.RouterGet

namespace Driver.RouterGet

def parseBool (s : String) : Option Bool :=
  if s == "1" then some true else if s == "0" then some false else none

def optNat (s : String) : Option (Option Nat) :=
  if s == "-" || s == "n" then some none else s.toNat?.map some

def decodeChars (s : String) : List Char :=
  s.toList.map (fun c => if c = '~' then ' ' else if c = '^' then '\t' else c)

/-- `-` absent, `=<chars>` present. -/
def parseQ (s : String) : Option (Option (List Char)) :=
  if s == "-" then some none
  else match s.toList with
    | '=' :: _ => some (some (decodeChars (s.drop 1).toString))
    | _ => none

def parseQList (s : String) : Option (List (List Char)) :=
  if s == "-" then some []
  else (s.splitOn ";").mapM (fun t => match parseQ t with | some (some v) => some v | _ => none)

def fieldFn (ids : List (Option Nat)) : Fork → Option Nat := fun f => (ids[f.raw - 1]?).join

def parseFields (s : String) : Option (Fork → Option Nat) := do
  let ids ← (s.splitOn ".").mapM optNat
  if ids.length = 7 then pure (fieldFn ids) else none

def parseProposal (s : String) : Option Proposal :=
  match s.splitOn ":" with
  | ["P", v, b, ev, cv, fs, bs] => do
    pure ⟨← v.toNat?, ← parseBool b, ← optNat ev, ← optNat cv, ← parseFields fs, ← parseFields bs⟩
  | _ => none

def parseAns {α : Type} (f : String → Option α) (s : String) : Option (Ans α) :=
  if s == "err" then some .err
  else if s == "nilresp" then some .nilResp
  else if s == "nildata" then some .nilData
  else (f s).map .data

def verStr : VerName → String
  | .unknown => "unknown"
  | .fork f => f.name

def tyStr : WireType → String
  | .p0Block => "p0Block" | .altBlock => "altBlock" | .belBlock => "belBlock" | .belBlind => "belBlind"
  | .capBlock => "capBlock" | .capBlind => "capBlind" | .denContents => "denContents"
  | .denBlind => "denBlind" | .elContents => "elContents" | .elBlind => "elBlind"
  | .fuContents => "fuContents" | .p0Att => "p0Att" | .elAtt => "elAtt"

def statusStr : Status → String
  | .ok200 => "200" | .param400 => "400:param" | .empty400 => "400:empty" | .json400 => "400:json"
  | .notFound404 => "404" | .ise500 => "500" | .panic => "panic"

def b01 (b : Bool) : String := if b then "1" else "0"

def valStr : Option Nat → String
  | none => "nil"
  | some n => toString n

def plStr : Option Payload → String
  | none => "-"
  | some p => tyStr p.ty ++ ":" ++ toString p.id

def propStr (s : Status) (r : Option PropResp) : String :=
  match r with
  | none => statusStr s
  | some r =>
    s!"{statusStr s} hv={verStr r.hVersion} hb={b01 r.hBlinded} he={valStr r.hExec} hc={valStr r.hCons} " ++
    s!"bv={verStr r.bVersion} bb={b01 r.bBlinded} be={valStr r.bExec} bc={valStr r.bCons} " ++
    s!"obj={plStr (some r.data)} dec={plStr (vcDecode r)}"

def seen2 : Option (Nat × Nat) → String
  | none => "-"
  | some (a, b) => s!"{a}.{b}"

def doPv (toks : List String) : Option String :=
  match toks with
  | [pok, ans] => do
    let pok ← parseBool pok
    let ans ← parseAns parseProposal ans
    let r := proposeBlockV3 pok ans
    pure (propStr r.1 r.2)
  | _ => none

def parseStoreAns (s : String) : Option StoreAns :=
  if s == "err" then some .err else if s == "nil" then some .nil
  else (parseProposal s).map .prop

def parseStore (s : String) : Option (List (Nat × StoreAns)) :=
  if s == "-" then some []
  else (s.splitOn ",").mapM (fun e => match e.splitOn "=" with
    | [k, v] => do pure ((← k.toNat?), (← parseStoreAns v))
    | _ => none)

def storeFn (l : List (Nat × StoreAns)) : Nat → StoreAns := fun slot =>
  match l.find? (·.1 = slot) with
  | some (_, a) => a
  | none => .err

def doPc (toks : List String) : Option String :=
  match toks with
  | [pok, bld, slot, defs, nsub, failAt, store] => do
    let pok ← parseBool pok
    let bld ← parseBool bld
    let slot ← slot.toNat?
    let defs : Option Nat ← if defs == "e" then pure none else defs.toNat?.map some
    let nsub ← nsub.toNat?
    let failAt ← optNat failAt
    let store ← parseStore store
    let e : CompEnv := ⟨fun _ => defs, nsub, failAt, storeFn store⟩
    let r := serveProposal e bld pok slot
    pure (propStr r.1 r.2.1 ++ s!" calls={r.2.2}")
  | _ => none

def parseAgg (s : String) : Option AggAtt :=
  match s.splitOn ":" with
  | ["A", v, fs] => do pure ⟨← v.toNat?, ← parseFields fs⟩
  | _ => none

def doAg (toks : List String) : Option String :=
  match toks with
  | [sq, rootOk, cq, ans] => do
    let sq ← parseQ sq
    let rootOk ← parseBool rootOk
    let cq ← parseQ cq
    let ans ← parseAns parseAgg ans
    let r := aggregateEndpoint sq rootOk cq (fun _ _ => ans)
    let body := match r.2.1 with
      | none => ""
      | some a => s!" hv={verStr a.hVersion} bv={verStr a.bVersion} obj={plStr (some a.data)} dec={plStr (vcDecodeAgg a)}"
    pure (statusStr r.1 ++ body ++ " seen=" ++ seen2 r.2.2)
  | _ => none

def doAd (toks : List String) : Option String :=
  match toks with
  | [sq, cq, ans] => do
    let sq ← parseQ sq
    let cq ← parseQ cq
    let ans ← parseAns (fun s => match s.splitOn ":" with
      | ["D", id] => id.toNat?
      | _ => none) ans
    let r := attestationData sq cq (fun _ _ => ans)
    let body := match r.2.1 with
      | none => ""
      | some none => " data=null"
      | some (some id) => s!" data={id}"
    pure (statusStr r.1 ++ body ++ " seen=" ++ seen2 r.2.2)
  | _ => none

def idsStr : Ids → String
  | .pubkeys ks => "P:" ++ Driver.joinWith "," (ks.map String.ofList)
  | .indices is => "I:" ++ Driver.joinWith "," (is.map toString)
  | .error => "E"

def valSeen : Option ValReq → String
  | none => "-"
  | some rq => rq.state ++ "/" ++ idsStr rq.ids

def parseValAns (s : String) : Option ValAns :=
  match s.splitOn ":" with
  | ["V", n, hn] => do pure ⟨← n.toNat?, ← parseBool hn⟩
  | _ => none

def parseBodyIds (s : String) : Option BodyIds :=
  if s == "empty" then some .empty
  else if s == "fail" then some .fail
  else if s.startsWith "ok:" then (parseQList (s.drop 3).toString).map .ok
  else none

def valStrOut (r : Status × Nat × Option ValReq) : String :=
  statusStr r.1 ++ (if r.1 = .ok200 then s!" n={r.2.1}" else "") ++ " seen=" ++ valSeen r.2.2

def doVs (toks : List String) : Option String :=
  match toks with
  | [state, csvs, body, ans] => do
    let csvs ← parseQList csvs
    let body ← parseBodyIds body
    let ans ← parseAns parseValAns ans
    pure (valStrOut (getValidators state csvs body (fun _ => ans)))
  | _ => none

def doV1 (toks : List String) : Option String :=
  match toks with
  | [state, id, ans] => do
    let id ← parseQ id
    let id ← id
    let ans ← parseAns parseValAns ans
    pure (valStrOut (getValidator state id (fun _ => ans)))
  | _ => none

def parseMeta (s : String) : Option Meta :=
  if s == "nil" then some .nil
  else match s.splitOn "/" with
  | [eo, dr] => do
    let eo ← if eo == "t" then some MetaEO.tt else if eo == "f" then some .ff
      else if eo == "bad" then some .malformed else if eo == "missing" then some .missing else none
    let dr ← if dr == "bad" then some MetaDR.malformed else if dr == "missing" then some .missing
      else if dr.startsWith "r" then (dr.drop 1).toString.toNat?.map .root else none
    pure (.map eo dr)
  | _ => none

def parseDutyAns (s : String) : Option DutyAns :=
  match s.splitOn ":" with
  | ["U", n, m] => do pure ⟨← n.toNat?, ← parseMeta m⟩
  | _ => none

def parseKind (s : String) : Option DutyKind :=
  if s == "proposer_duties" then some .proposerV1
  else if s == "proposer_duties_v2" then some .proposerV2
  else if s == "attester_duties" then some .attester
  else if s == "sync_committee_duties" then some .sync
  else none

def parseBodyIdx (s : String) : Option BodyIdx :=
  if s == "-" || s == "empty" then some .empty
  else if s == "fail" then some .fail
  else if s == "ok:-" then some (.ok [])
  else if s.startsWith "ok:" then (((s.drop 3).toString.splitOn ",").mapM String.toNat?).map .ok
  else none

def dutySeen : Option DutySeen → String
  | none => "-"
  | some (e, none) => s!"{e}:nil"
  | some (e, some is) => s!"{e}:[" ++ Driver.joinWith "," (is.map toString) ++ "]"

def doDu (toks : List String) : Option String :=
  match toks with
  | [kind, ep, body, ans] => do
    let kind ← parseKind kind
    let ep ← parseQ ep
    let ep ← ep
    let body ← parseBodyIdx body
    let ans ← parseAns parseDutyAns ans
    let r := duties kind ep body (fun _ => ans)
    let b := match r.2.1 with
      | none => ""
      | some d => s!" eo={b01 d.eo} dr={match d.dr with | none => "-" | some x => toString x} n={d.n}"
    pure (statusStr r.1 ++ b ++ " seen=" ++ dutySeen r.2.2)
  | _ => none

def step (_ : Unit) (line : String) : Unit × String :=
  match line.splitOn " | " with
  | [pre, abs] =>
    let toks := (abs.splitOn " ").filter (· ≠ "")
    let r := match (pre.splitOn " ").head? with
      | some "pv" => doPv toks
      | some "pc" => doPc toks
      | some "ag" => doAg toks
      | some "ad" => doAd toks
      | some "vs" => doVs toks
      | some "v1" => doV1 toks
      | some "du" => doDu toks
      | _ => none
    ((), r.getD "bad-op")
  | _ => ((), "bad-op")

end Driver.RouterGet

def main : IO Unit := Driver.runLoop Driver.RouterGet.step ()
