import CharonV.Model.AggSigDB
import Driver.Common

/-
Line driver for the aggsigdb models (C17). Ops (see harness/cmd/drive-aggsigdb/main.go):

  new v1|v2
  await <rid> <slot>/<ty> <pk> <sub>
  store <slot>/<ty> <dlstatus> <pk>:<dsub>:<v> ...      dsub = x | 0..6; entry order = iteration order
  cancel <rid>
  expire <slot>/<ty>
  stop

Output per op: `<res> done=[rid:val,...] blocked=[rid,...] data=[key=val,...] bq=<n|->`.
`drv-aggsigdb --broadcast` / `--oneslot` overrides `implBroadcast` (used to try the fix).
-/
open CharonV.AggSigDB

namespace Driver.AggSigDB

inductive Inst where
  | none
  | v1 (s : V1)
  | v2 (s : V2)

structure DState where
  bc   : Bool
  inst : Inst := .none
  used : List Nat := []

def valStr (v : Val) : String :=
  let c := v % 8
  (if c == 0 then "x" else toString (c - 1)) ++ "." ++ toString (v / 8)

def keyStr (k : Key) : String := s!"{k.duty.slot}/{k.duty.ty}.{k.pk}.{k.sub}"

def keyLe (a b : Key) : Bool :=
  if a.duty.slot != b.duty.slot then a.duty.slot < b.duty.slot
  else if a.duty.ty != b.duty.ty then a.duty.ty < b.duty.ty
  else if a.pk != b.pk then a.pk < b.pk
  else a.sub ≤ b.sub

def dataStr (m : Data) : String :=
  let s := m.mergeSort (fun a b => keyLe a.1 b.1)
  "[" ++ Driver.joinWith "," (s.map (fun kv => keyStr kv.1 ++ "=" ++ valStr kv.2)) ++ "]"

def doneStr (xs : List (Nat × String)) : String :=
  let s := xs.mergeSort (fun a b => a.1 ≤ b.1)
  "[" ++ Driver.joinWith "," (s.map (fun x => s!"{x.1}:{x.2}")) ++ "]"

def ridsStr (xs : List Nat) : String :=
  "[" ++ Driver.joinWith "," ((xs.mergeSort (fun a b => decide (a ≤ b))).map toString) ++ "]"

def resStr (e : Option Err) (adds : Nat) : String :=
  match e with
  | none => s!"ok:{adds}"
  | some .mismatch => s!"mismatch:{adds}"
  | some .notSync => s!"notsync:{adds}"
  | some .stopped => s!"stopped:{adds}"

def parseDuty (s : String) : Option Duty :=
  match s.splitOn "/" with
  | [a, b] => match a.toNat?, b.toNat? with
    | some slot, some ty => some ⟨slot, ty⟩
    | _, _ => none
  | _ => none

def parseEntry (s : String) : Option Entry :=
  match s.splitOn ":" with
  | [a, b, c] =>
    match a.toNat?, c.toNat? with
    | some pk, some v =>
      if b == "x" then some ⟨pk, none, v * 8⟩
      else match b.toNat? with
        | some n => if n < 7 then some ⟨pk, some n, v * 8 + n + 1⟩ else none
        | none => none
    | _, _ => none
  | _ => none

def parseEntries : List String → Option (List Entry)
  | [] => some []
  | s :: rest => match parseEntry s, parseEntries rest with
    | some e, some es => some (e :: es)
    | _, _ => none

def newAnswers (old new : List Answer) : List (Nat × String) :=
  (new.drop old.length).map (fun a => (a.1, valStr a.2.2))

def out1 (res : String) (done : List (Nat × String)) (s : V1) : String :=
  s!"{res} done={doneStr done} blocked={ridsStr (s.live.map (·.rid))} data={dataStr s.data} bq={s.blocked.length}"

def out2 (res : String) (done : List (Nat × String)) (s : V2) : String :=
  s!"{res} done={doneStr done} blocked={ridsStr (s.readers.map (·.rid))} data={dataStr s.data} bq=-"

def fuel : Nat := 4096

def stepV1 (d : DState) (s : V1) (f : List String) : DState × String :=
  let ret (s' : V1) (o : String) : DState × String := ({ d with inst := .v1 s' }, o)
  match f with
  | ["await", a, b, c, e] =>
    match a.toNat?, parseDuty b, c.toNat?, e.toNat? with
    | some r, some du, some pk, some sub =>
      if d.used.contains r then (d, "bad-op") else
      let (s', err) := s.step (.query r ⟨du, pk, sub⟩)
      let done := match err with
        | some _ => [(r, "stopped")]
        | none => newAnswers s.answered s'.answered
      ({ d with inst := .v1 s', used := r :: d.used }, out1 "-" done s')
    | _, _, _, _ => (d, "bad-op")
  | "awaitst" :: a :: b :: c :: e :: _dl :: _at :: es =>
    -- a reader racing with the store of its own key: same outcome as `await; store`
    match a.toNat?, parseDuty b, c.toNat?, e.toNat?, parseEntries es with
    | some r, some du, some pk, some sub, some ents =>
      if d.used.contains r then (d, "bad-op") else
      let (s1, err) := s.step (.query r ⟨du, pk, sub⟩)
      let (s', err2, adds) := s1.storeSet du ents
      let done := (match err with | some _ => [(r, "stopped")] | none => []) ++ newAnswers s.answered s'.answered
      ({ d with inst := .v1 s', used := r :: d.used }, out1 (resStr err2 adds) done s')
    | _, _, _, _, _ => (d, "bad-op")
  | "store" :: a :: _dl :: es =>
    match parseDuty a, parseEntries es with
    | some du, some ents =>
      let (s', err, adds) := s.storeSet du ents
      ret s' (out1 (resStr err adds) (newAnswers s.answered s'.answered) s')
    | _, _ => (d, "bad-op")
  | ["cancel", a] =>
    match a.toNat? with
    | some r =>
      let (s', _) := s.step (.cancel r)
      let done := if s.live.any (fun q => q.rid == r) then [(r, "canceled")] else []
      ret s' (out1 "-" done s')
    | none => (d, "bad-op")
  | ["expire", a] =>
    match parseDuty a with
    | some du => let (s', _) := s.step (.expire du); ret s' (out1 "-" [] s')
    | none => (d, "bad-op")
  | ["stop"] =>
    let (s', _) := s.step .stop
    ret s' (out1 "-" (s.live.map (fun q => (q.rid, "stopped"))) s')
  | _ => (d, "bad-op")

def stepV2 (d : DState) (s : V2) (f : List String) : DState × String :=
  let bc := d.bc
  let ret (s' : V2) (o : String) : DState × String := ({ d with inst := .v2 s' }, o)
  match f with
  | ["await", a, b, c, e] =>
    match a.toNat?, parseDuty b, c.toNat?, e.toNat? with
    | some r, some du, some pk, some sub =>
      if d.used.contains r then (d, "bad-op") else
      let (s1, err) := V2.step bc s (.await r ⟨du, pk, sub⟩)
      let s' := V2.settle bc fuel s1
      let done := match err with
        | some _ => [(r, "stopped")]
        | none => newAnswers s.answered s'.answered
      ({ d with inst := .v2 s', used := r :: d.used }, out2 "-" done s')
    | _, _, _, _ => (d, "bad-op")
  | "awaitst" :: a :: b :: c :: e :: _dl :: _at :: es =>
    match a.toNat?, parseDuty b, c.toNat?, e.toNat?, parseEntries es with
    | some r, some du, some pk, some sub, some ents =>
      if d.used.contains r then (d, "bad-op") else
      let (s1, err) := V2.step bc s (.await r ⟨du, pk, sub⟩)
      let (s2, err2) := V2.step bc s1 (.store du ents)
      let adds := if s.stopped then 0 else (putAll s.data du ents).2.2
      let s' := V2.settle bc fuel s2
      let done := (match err with | some _ => [(r, "stopped")] | none => []) ++ newAnswers s.answered s'.answered
      ({ d with inst := .v2 s', used := r :: d.used }, out2 (resStr err2 adds) done s')
    | _, _, _, _, _ => (d, "bad-op")
  | "store" :: a :: _dl :: es =>
    match parseDuty a, parseEntries es with
    | some du, some ents =>
      let (s1, err) := V2.step bc s (.store du ents)
      let adds := if s.stopped then 0 else (putAll s.data du ents).2.2
      let s' := V2.settle bc fuel s1
      ret s' (out2 (resStr err adds) (newAnswers s.answered s'.answered) s')
    | _, _ => (d, "bad-op")
  | ["cancel", a] =>
    match a.toNat? with
    | some r =>
      let (s1, _) := V2.step bc s (.cancel r)
      let s' := V2.settle bc fuel s1
      let done := if s.readers.any (fun x => x.rid == r) then [(r, "canceled")] else []
      ret s' (out2 "-" done s')
    | none => (d, "bad-op")
  | ["expire", a] =>
    match parseDuty a with
    | some du =>
      let (s1, _) := V2.step bc s (.expire du)
      let s' := V2.settle bc fuel s1
      ret s' (out2 "-" (newAnswers s.answered s'.answered) s')
    | none => (d, "bad-op")
  | ["stop"] =>
    let (s', _) := V2.step bc s .stop
    ret s' (out2 "-" (s.readers.map (fun x => (x.rid, "stopped"))) s')
  | _ => (d, "bad-op")

def step (d : DState) (line : String) : DState × String :=
  let f := (line.splitOn " ").filter (fun x => !x.isEmpty)
  match f with
  | ["new", "v1"] => ({ d with inst := .v1 {}, used := [] }, out1 "-" [] {})
  | ["new", "v2"] => ({ d with inst := .v2 {}, used := [] }, out2 "-" [] {})
  | _ =>
    match d.inst with
    | .none => (d, "bad-op")
    | .v1 s => stepV1 d s f
    | .v2 s => stepV2 d s f

end Driver.AggSigDB

def main (args : List String) : IO Unit :=
  let bc := if args.contains "--broadcast" then true
            else if args.contains "--oneslot" then false
            else implBroadcast
  Driver.runLoop Driver.AggSigDB.step { bc := bc }
