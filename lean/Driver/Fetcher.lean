import CharonV.Model.Fetcher
import Driver.Common

/-
Line driver for the fetcher model (C18 / C01, stream `fetcher`). Ops (see harness/cmd/drive-fetcher/main.go):

  cfg n=<subs> h=<hostile bits|-> e=<electraSlot> o0=<0|1> b=<0|1> g=<pk:gid+…|-> v2=<n|0|1|p>
  fetch <dutyType> <slot> D=<defs> E=<env> O=<overrides> SE=<subscriber errors> ord=<pks>
  fonly <dutyType> <slot> <addr> <head> D=<defs> E=<env> O=<overrides> ord=<pks>
  reorg | bnscr | subscr <i> | dbscr | defscr

Answer: <ok|err:<class>|panic> L=<calls in order> D=<S<i>{pk=value,…};…> cache=<slots>
the default is the variant with fixes/C18-fetcher-early-cache-clone.diff applied (in /repo since the fix commit); `drv-fetcher unfixed` runs the code as it was before.
-/
open CharonV.Fetcher

namespace Driver.Fetcher

structure Script where
  spec  : Option SpecAns := none
  att   : List ((Nat × Nat) × AttAns) := []
  agg   : List ((Nat × Nat) × AggAns) := []
  prop  : Option PropAns := none
  con   : List ((Nat × Nat) × ConAns) := []
  sig   : List ((AskKind × Nat × Nat) × SigAns) := []
  await : List (Nat × AwaitAns) := []
  /-- position ↦ `none` (answer nil) / `some e` (error e) -/
  over  : List (Nat × Option Nat) := []
  subErr : List (Nat × Nat) := []

def unscripted : Nat := 999

def find2 {β : Type} (l : List ((Nat × Nat) × β)) (a b : Nat) : Option β :=
  match l.find? (fun p => p.1.1 == a && p.1.2 == b) with
  | some p => some p.2
  | none => none

def overAt (sc : Script) (n : Nat) : Option (Option Nat) :=
  match sc.over.find? (fun p => p.1 == n) with
  | some p => some p.2
  | none => none

def mkEnv (sc : Script) (slot : Nat) : Env where
  spec n :=
    match overAt sc n with
    | some (some e) => .err e
    | some none => .ok ⟨none, none, none, none⟩
    | none => sc.spec.getD (.err unscripted)
  attData n addr sl ci :=
    match overAt sc n with
    | some (some e) => .err e
    | some none => .nil
    | none => if sl == slot then (find2 sc.att addr ci).getD (.err unscripted) else .err unscripted
  aggAtt n sl root ci :=
    match overAt sc n with
    | some (some e) => .err e
    | some none => .nil
    | none => if sl == slot then (find2 sc.agg root ci).getD (.err unscripted) else .err unscripted
  proposal n sl _ _ _ :=
    match overAt sc n with
    | some (some e) => .err e
    | some none => .nil
    | none => if sl == slot then sc.prop.getD (.err unscripted) else .err unscripted
  contrib n sl sub root :=
    match overAt sc n with
    | some (some e) => .err e
    | some none => .nil
    | none => if sl == slot then (find2 sc.con sub root).getD (.err unscripted) else .err unscripted
  aggSig n k sl pk sub :=
    match overAt sc n with
    | some (some e) => .err e
    | some none => .nil
    | none =>
      if sl == slot then
        match sc.sig.find? (fun p => p.1.1 == k && p.1.2.1 == pk && p.1.2.2 == sub) with
        | some p => p.2
        | none => .err unscripted
      else .err unscripted
  await n sl ci :=
    match overAt sc n with
    | some (some e) => .err e
    | some none => .nil
    | none =>
      if sl == slot then
        match sc.await.find? (fun p => p.1 == ci) with
        | some p => p.2
        | none => .err unscripted
      else .err unscripted

/-! ### parsing -/

def kv? (pfx : String) (s : String) : Option String :=
  if s.startsWith pfx then some ((s.drop pfx.length).toString) else none

def field? (toks : List String) (pfx : String) : Option String := toks.findSome? (kv? pfx)

def nats? (sep : String) (s : String) : Option (List Nat) :=
  if s == "" then some [] else (s.splitOn sep).mapM (fun x => x.toNat?)

def parseDef? (s : String) : Option (PK × Def) :=
  match s.splitOn ":" with
  | [pk, body] =>
    match pk.toNat?, body.splitOn "." with
    | some pk, ["a", ci, len, vi] =>
      match ci.toNat?, len.toNat?, vi.toNat? with
      | some ci, some len, some vi => some (pk, .att ci len vi)
      | _, _, _ => none
    | some pk, ["p", vi] => vi.toNat?.map (fun vi => (pk, .prop vi))
    | some pk, ["s", vi, idxs] =>
      match vi.toNat?, nats? "+" idxs with
      | some vi, some l => some (pk, .sync vi l)
      | _, _ => none
    | _, _ => none
  | _ => none

def parseDefs? (s : String) : Option DefSet :=
  if s == "-" then some [] else (s.splitOn ",").mapM parseDef?

/-- `e<E>` / `n` / data fields -/
inductive RawAns where
  | err (e : Nat)
  | nil
  | data (f : List String)

def rawAns? (v : String) : Option RawAns :=
  if v == "n" then some .nil
  else if v.startsWith "e" then ((v.drop 1).toString.toNat?).map .err
  else some (.data (v.splitOn "."))

def optNat? (s : String) : Option (Option Nat) :=
  if s == "x" then some none else s.toNat?.map some

def two? (s : String) : Option (Nat × Nat) :=
  match s.splitOn "." with
  | [a, b] => match a.toNat?, b.toNat? with
    | some a, some b => some (a, b)
    | _, _ => none
  | _ => none

def askKind? (s : String) : Option AskKind :=
  if s == "a" then some .prepAgg else if s == "r" then some .randao
  else if s == "s" then some .prepSync else if s == "m" then some .syncMsg else none

def sigKind? (s : String) : Option SigKind :=
  if s == "l" then some .sel else if s == "y" then some .syncSel else if s == "m" then some .syncMsg
  else if s == "r" then some .randao else if s == "o" then some .other else none

def b? (s : String) : Option Bool := if s == "0" then some false else if s == "1" then some true else none

def addEntry (sc : Script) (kv : String) : Option Script :=
  match kv.splitOn "=" with
  | [k, v] =>
    if k.isEmpty then none else
    let rest := (k.drop 1).toString
    match rawAns? v with
    | none => none
    | some ra =>
      if k.startsWith "S" then
        match ra with
        | .err e => some { sc with spec := some (.err e) }
        | .nil => some { sc with spec := some (.ok ⟨none, none, none, none⟩) }
        | .data [a, b, c, d] =>
          match optNat? a, optNat? b, optNat? c, optNat? d with
          | some a, some b, some c, some d => some { sc with spec := some (.ok ⟨a, b, c, d⟩) }
          | _, _, _, _ => none
        | _ => none
      else if k.startsWith "A" then
        match two? rest, ra with
        | some key, .err e => some { sc with att := (key, .err e) :: sc.att }
        | some key, .nil => some { sc with att := (key, .nil) :: sc.att }
        | some key, .data [id, root] =>
          match id.toNat?, root.toNat? with
          | some id, some root => some { sc with att := (key, .ok id root) :: sc.att }
          | _, _ => none
        | _, _ => none
      else if k.startsWith "G" then
        match two? rest, ra with
        | some key, .err e => some { sc with agg := (key, .err e) :: sc.agg }
        | some key, .nil => some { sc with agg := (key, .nil) :: sc.agg }
        | some key, .data [id, droot, bad] =>
          match id.toNat?, droot.toNat?, bad.toNat? with
          | some id, some droot, some bad => some { sc with agg := (key, .ok id droot (bad != 0)) :: sc.agg }
          | _, _, _ => none
        | _, _ => none
      else if k.startsWith "P" then
        match ra with
        | .err e => some { sc with prop := some (.err e) }
        | .nil => some { sc with prop := some .nil }
        | .data [id, blinded, q] =>
          match id.toNat?, blinded.toNat?, q.toNat? with
          | some id, some bl, some q => some { sc with prop := some (.ok id (bl != 0) q) }
          | _, _, _ => none
        | _ => none
      else if k.startsWith "C" then
        match two? rest, ra with
        | some key, .err e => some { sc with con := (key, .err e) :: sc.con }
        | some key, .nil => some { sc with con := (key, .nil) :: sc.con }
        | some key, .data [id, bad] =>
          match id.toNat?, bad.toNat? with
          | some id, some bad => some { sc with con := (key, .ok id (bad != 0)) :: sc.con }
          | _, _ => none
        | _, _ => none
      else if k.startsWith "W" then
        match rest.toNat?, ra with
        | some ci, .err e => some { sc with await := (ci, .err e) :: sc.await }
        | some ci, .nil => some { sc with await := (ci, .nil) :: sc.await }
        | some ci, .data [w] => w.toNat?.map (fun w => { sc with await := (ci, .ok w) :: sc.await })
        | _, _ => none
      else if k.startsWith "X" then
        match rest.splitOn "." with
        | [ak, pk, sub] =>
          match askKind? ak, pk.toNat?, sub.toNat? with
          | some ak, some pk, some sub =>
            match ra with
            | .err e => some { sc with sig := ((ak, pk, sub), .err e) :: sc.sig }
            | .nil => some { sc with sig := ((ak, pk, sub), .nil) :: sc.sig }
            | .data [sk, sg, x] =>
              match sigKind? sk, sg.toNat?, x.toNat? with
              | some sk, some sg, some x => some { sc with sig := ((ak, pk, sub), .data sk sg x) :: sc.sig }
              | _, _, _ => none
            | _ => none
          | _, _, _ => none
        | _ => none
      else none
  | _ => none

/-- later entries of the file win (as in the Go driver's maps): entries are consed, lookups take the first -/
def parseEnv? (s : String) : Option Script :=
  if s == "-" then some {} else (s.splitOn ";").foldlM addEntry {}

def parseOver? (s : String) : Option (List (Nat × Option Nat)) :=
  if s == "-" then some [] else
  (s.splitOn ",").foldlM (fun acc kv =>
    match kv.splitOn ":" with
    | [p, v] =>
      match p.toNat?, rawAns? v with
      | some p, some (.err e) => some ((p, some e) :: acc)
      | some p, some .nil => some ((p, none) :: acc)
      | _, _ => none
    | _ => none) []

def parseSubErr? (s : String) : Option (List (Nat × Nat)) :=
  if s == "-" then some [] else
  (s.splitOn ",").foldlM (fun acc kv =>
    match two? (kv.replace ":" ".") with
    | some p => some (p :: acc)
    | none => none) []

def dutyType (n : Nat) : DutyType :=
  if n == 1 then .proposer else if n == 2 then .attester else if n == 5 then .builderProposer
  else if n == 9 then .aggregator else if n == 12 then .syncContribution else .other n

/-- the definition set in the order the implementation visited it -/
def reorder (defs : DefSet) (ord : List Nat) : DefSet :=
  let first := ord.filterMap (fun pk => defs.find? (fun p => p.1 == pk))
  first ++ defs.filter (fun p => !ord.contains p.1)

def nodupKeys (defs : DefSet) : Bool :=
  let rec go : List Nat → Bool
    | [] => true
    | x :: r => !r.contains x && go r
  go (defs.map (·.1))

/-! ### printing -/

def sortBy {α : Type} (f : α → Nat) (l : List α) : List α := l.mergeSort (fun a b => f a ≤ f b)

def showErr : Err → String
  | .bn e => s!"bn{e}"
  | .sub e => s!"sub{e}"
  | .unsupported => "unsupported"
  | .deprecated => "deprecated"
  | .invalidAttDef => "invalidAttDef"
  | .invalidSyncDef => "invalidSyncDef"
  | .attNil => "attNil"
  | .invalidSel => "invalidSel"
  | .aggNotFound => "aggNotFound"
  | .invalidSyncSel => "invalidSyncSel"
  | .invalidSyncMsg => "invalidSyncMsg"
  | .contribNotFound => "contribNotFound"
  | .badProposal => "badProposal"
  | .spec k => s!"spec{k}"
  | .cloneFail => "cloneFail"

def showRes : Res Unit → String
  | .ok _ => "ok"
  | .err e => "err:" ++ showErr e
  | .panic => "panic"

def showAsk : AskKind → String
  | .prepAgg => "a"
  | .randao => "r"
  | .prepSync => "s"
  | .syncMsg => "m"

def showCall : Call → String
  | .spec => "sp"
  | .attData addr slot ci => s!"at{addr}.{slot}.{ci}"
  | .aggAtt slot root ci => s!"ag{slot}.{root}.{ci}"
  | .proposal slot r g b => s!"pr{slot}.{r}.{g}.{b}"
  | .contrib slot sub root => s!"co{slot}.{sub}.{root}"
  | .aggSig k slot pk sub => s!"x{showAsk k}.{slot}.{pk}.{sub}"
  | .await slot ci => s!"aw{slot}.{ci}"
  | .fee pk => s!"fe{pk}"

def showLog (log : List Call) : String :=
  if log.isEmpty then "-" else Driver.joinWith "," (log.reverse.map showCall)

def showContent (pfx : String) (x : Content) : String :=
  if x.dirty then (if pfx == "a" then s!"a{x.id}~" else pfx ++ "?") else s!"{pfx}{x.id}"

def showObs : VObs → String
  | .att x root d => s!"{showContent "a" x}/{root}/{d.ci}.{d.len}.{d.vi}"
  | .agg x => showContent "g" x
  | .prop x => showContent "p" x
  | .contrib x => showContent "c" x
  | .contribs xs => "[" ++ Driver.joinWith "+" (xs.map (showContent "c")) ++ "]"

def showDelivery (d : Delivery) : String :=
  s!"S{d.1}" ++ "{" ++ Driver.joinWith "," ((sortBy (·.1) d.2).map (fun p => s!"{p.1}={showObs p.2}")) ++ "}"

def showDeliv (ds : List Delivery) : String :=
  if ds.isEmpty then "-" else Driver.joinWith ";" (ds.map showDelivery)

def showCache (s : St) : String :=
  if s.cache.isEmpty then "-" else Driver.joinWith "," ((sortBy id (s.cache.map (·.1))).map toString)

def showOut (s : St) (o : Out) : String :=
  s!"{showRes o.res} L={showLog o.log} D={showDeliv o.deliv} cache={showCache s}"

/-! ### the loop -/

structure DState where
  started : Bool := false
  fixed   : Bool := false
  cfg     : Cfg := ⟨0, [], 0, false, false, [], none, false⟩
  st      : St := St.init

def parseCfg? (fixed : Bool) (toks : List String) : Option Cfg :=
  match field? toks "n=", field? toks "h=", field? toks "e=", field? toks "o0=", field? toks "b=", field? toks "g=", field? toks "v2=" with
  | some n, some h, some e, some o0, some b, some g, some v2 =>
    match n.toNat?, e.toNat?, b? o0, b? b with
    | some n, some e, some o0, some b =>
      if n > 8 then none else
      let hostile := if h == "-" then [] else
        (h.toList.zipIdx.filterMap (fun (c, i) => if c == '1' && i < n then some i else none))
      let gr : Option (List (PK × Nat)) := if g == "-" then some [] else
        (g.splitOn "+").mapM (fun kv => two? (kv.replace ":" "."))
      let v2f : Option (Option (Nat → Bool)) :=
        if v2 == "n" then some none else if v2 == "0" then some (some (fun _ => false))
        else if v2 == "1" then some (some (fun _ => true)) else if v2 == "p" then some (some (fun s => s % 2 == 1))
        else none
      match gr, v2f with
      | some gr, some v2f =>
        if gr.any (fun p => p.2 == 0) || !nodupKeys (gr.map (fun p => (p.1, Def.prop 0))) then none
        else some ⟨n, hostile, e, o0, b, gr, v2f, fixed⟩
      | _, _ => none
    | _, _, _, _ => none
  | _, _, _, _, _, _, _ => none

def simple (d : DState) (op : Op) : DState × String :=
  let r := CharonV.Fetcher.step d.cfg d.st op
  ({ d with st := r.1 }, showOut r.1 r.2)

def step (d : DState) (line : String) : DState × String :=
  let toks := (line.splitOn " ").filter (fun t => !t.isEmpty)
  match toks with
  | "cfg" :: rest =>
    match parseCfg? d.fixed rest with
    | some cfg => ({ d with started := true, cfg := cfg, st := St.init }, "ok")
    | none => (d, "bad-op")
  | _ =>
    if !d.started then (d, "bad-op") else
    match toks with
    | ["reorg"] => simple d .reorg
    | ["bnscr"] => simple d .bnScribble
    | ["subscr", i] =>
      match i.toNat? with
      | some i => simple d (.subScribble i)
      | none => (d, "bad-op")
    | ["dbscr"] => (d, showOut d.st noOut)
    | ["defscr"] => (d, showOut d.st noOut)
    | "fetch" :: ty :: slot :: rest =>
      match ty.toNat?, slot.toNat?, field? rest "D=", field? rest "E=", field? rest "O=", field? rest "SE=", field? rest "ord=" with
      | some ty, some slot, some ds, some es, some os, some ses, some ord =>
        match parseDefs? ds, parseEnv? es, parseOver? os, parseSubErr? ses, (if ord == "-" then some [] else nats? "," ord) with
        | some defs, some sc, some over, some se, some ord =>
          if !nodupKeys defs then (d, "bad-op") else
          let sc := { sc with over := over, subErr := se }
          let subErr := fun i => match se.find? (fun p => p.1 == i) with | some p => some p.2 | none => none
          simple d (.fetch (mkEnv sc slot) subErr (dutyType ty) slot (reorder defs ord))
        | _, _, _, _, _ => (d, "bad-op")
      | _, _, _, _, _, _, _ => (d, "bad-op")
    | "fonly" :: ty :: slot :: addr :: head :: rest =>
      match ty.toNat?, slot.toNat?, addr.toNat?, head.toNat?, field? rest "D=", field? rest "E=", field? rest "O=", field? rest "ord=" with
      | some ty, some slot, some addr, some head, some ds, some es, some os, some ord =>
        match parseDefs? ds, parseEnv? es, parseOver? os, (if ord == "-" then some [] else nats? "," ord) with
        | some defs, some sc, some over, some ord =>
          if !nodupKeys defs then (d, "bad-op") else
          let sc := { sc with over := over }
          simple d (.fetchOnly (mkEnv sc slot) (dutyType ty) slot (reorder defs ord) addr head)
        | _, _, _, _ => (d, "bad-op")
      | _, _, _, _, _, _, _, _ => (d, "bad-op")
    | _ => (d, "bad-op")

end Driver.Fetcher

def main (args : List String) : IO Unit :=
  Driver.runLoop Driver.Fetcher.step { fixed := !args.contains "unfixed" }
