/-
Line driver for C11 (`drive-frost`): routing model `Model/FrostGlue.lean` + scalar model
`Model/Fr.lean` of a FROST ceremony as run by `dkg/frost.go`.

ops (see `harness/cmd/drive-frost/main.go`):
  cer <n> <t> <vals> <ctx> <sched>       -> ok | err
  out <j>                                -> c=[keys] p=[keys]            (round1Keys)
  in <j> <castkeys> <key:share,..>       -> c:0=[src,..];.. s:0=[src:share,..];..   (getRound2Inputs)
  r2 <j> <key:pkid,..>                   -> 0=[id:pkid,..];..            (makeShares)
  val <v> <src>tgt:share,..> <j:sk,..>   -> x=<group secret> pk=1 | share_sum_mismatch … | not_shamir
  rec <v> <ids>                          -> <recovered> rpk=b
  sig <v> <ids> <msg>                    -> agg=b ver=b
Pedersen stream (`drive-pedersen`; dealt shares are not observable, outputs only):
  ped <n> <t> <vals> <sched>             -> ok | err
  pval <v> <j:sk,..>                     -> x=<group secret> pk=1 | not_shamir | …
  reshare <t2> <sched>                   -> ok | err
  rval <v> <j:sk,..>                     -> x=<group secret> pk=1 same=b fresh=b
frostp2p stream (`drive-frostp2p`; receive side of `dkg/frostp2p.go`, model `Model/FrostP2P.lean`):
  p2pcer <n> <t> <vals> <seed>           -> ok | err      (ceremony over the real frostP2P; also enables val/rec/sig)
  cb <n> <t> <vals> <self>               -> ok            (callbacks of one node only)
  d <j> <c1|p|c2> <from> <variant>       -> q <queued so far> | dup | err <class>
  race <j> <c1|c2> <from>                -> two deliveries of the genuine cast in a sequential order: r1 | r2
  fin                                    -> per node j:c1=[senders]#keys,p=[..]#keys,c2=[..]#keys
-/
import CharonV.Model.Fr
import CharonV.Model.FrostGlue
import CharonV.Model.FrostP2P
import Driver.Common

open CharonV.Fr CharonV.FrostGlue CharonV.FrostP2P

namespace Driver.Frost

structure ValSt where
  v      : Nat
  shares : List (Nat × Nat)   -- node id ↦ secret share
  x      : Nat                -- group secret

/-- receive-side state of one node (frostp2p stream). -/
structure NodeSt where
  id : Nat
  c1 : Chan := {}
  p  : Chan := {}
  c2 : Chan := {}

structure St where
  n    : Nat := 0
  t    : Nat := 0
  nv   : Nat := 0
  live : Bool := false
  vals : List ValSt := []
  nodes : List NodeSt := []

def b01 (b : Bool) : String := if b then "1" else "0"

def insertSorted (x : Nat) : List Nat → List Nat
  | [] => [x]
  | y :: ys => if x ≤ y then x :: y :: ys else y :: insertSorted x ys

def sortNat (xs : List Nat) : List Nat := xs.foldl (fun acc x => insertSorted x acc) []

def keyLe (a b : MsgKey) : Bool :=
  a.valIdx < b.valIdx || (a.valIdx == b.valIdx &&
    (a.sourceID < b.sourceID || (a.sourceID == b.sourceID && a.targetID ≤ b.targetID)))

def insertKey (x : MsgKey) : List MsgKey → List MsgKey
  | [] => [x]
  | y :: ys => if keyLe x y then x :: y :: ys else y :: insertKey x ys

def sortKeys (xs : List MsgKey) : List MsgKey := xs.foldl (fun acc x => insertKey x acc) []

def keyStr (k : MsgKey) : String := s!"{k.valIdx}.{k.sourceID}.{k.targetID}"

def keysStr (ks : List MsgKey) : String :=
  if ks.isEmpty then "-" else ",".intercalate ((sortKeys ks).map keyStr)

def parseKey (s : String) : Option MsgKey :=
  match s.splitOn "." with
  | [a, b, c] => match a.toNat?, b.toNat?, c.toNat? with
    | some v, some src, some tgt => some ⟨v, src, tgt⟩
    | _, _, _ => none
  | _ => none

def parseKeys (s : String) : Option (List MsgKey) :=
  if s == "-" then some [] else (s.splitOn ",").mapM parseKey

/-- `key:payload` entries. -/
def parseKeyed (s : String) : Option (List (MsgKey × String)) :=
  if s == "-" then some [] else
  (s.splitOn ",").mapM fun it =>
    match it.splitOn ":" with
    | [k, p] => (parseKey k).map fun k => (k, p)
    | _ => none

def parseIds (s : String) : Option (List Nat) := (s.splitOn ",").mapM String.toNat?

def natsStr (xs : List Nat) : String := ",".intercalate (xs.map toString)

def perVal (nv : Nat) (f : Nat → String) : String :=
  ";".intercalate ((List.range nv).map fun v => s!"{v}=[{f v}]")

/-- `src>tgt:hex` -/
def parseP2P (s : String) : Option (List (Nat × Nat × Nat)) :=
  if s == "-" then some [] else
  (s.splitOn ",").mapM fun it =>
    match it.splitOn ":" with
    | [st, h] => match st.splitOn ">" with
      | [a, b] => match a.toNat?, b.toNat?, ofHex? h with
        | some src, some tgt, some v => if h.length == 64 then some (src, tgt, v) else none
        | _, _, _ => none
      | _ => none
    | _ => none

def parseSks (s : String) : Option (List (Nat × Nat)) :=
  (s.splitOn ",").mapM fun it =>
    match it.splitOn ":" with
    | [a, h] => match a.toNat?, ofHex? h with
      | some j, some v => if h.length == 64 then some (j, v) else none
      | _, _ => none
    | _ => none

/-- scalar check of one validator: every node's secret share is its own evaluation plus the round-1
shares sent to it; with the own evaluation derived that way, every dealer's `n` evaluations lie on
a polynomial of degree `< t`; the final shares are a degree-`< t` sharing. Returns the group secret. -/
def checkVal (n t : Nat) (p2p : List (Nat × Nat × Nat)) (sks : List (Nat × Nat)) : Except String Nat := do
  let ids := (List.range n).map (· + 1)
  if sks.map (·.1) != ids then throw "bad_share_ids"
  if sks.any (·.2 ≥ r) then throw "share_not_reduced"
  -- every ordered pair (src ≠ tgt) exactly once
  let want := ids.flatMap fun a => (ids.filter (· != a)).map fun b => (a, b)
  if p2p.length != want.length || !(want.all fun (a, b) => p2p.any fun e => e.1 == a && e.2.1 == b) then
    throw "round1_shares_incomplete"
  let recvSum (j : Nat) : Nat := sum ((p2p.filter (·.2.1 == j)).map (·.2.2))
  let own (j : Nat) : Nat := sub ((sks.find? (·.1 == j)).map (·.2) |>.getD 0) (recvSum j)
  -- dealer i's evaluations at 1..n
  for i in ids do
    let pts := ids.map fun j =>
      if j == i then (j, own i)
      else (j, ((p2p.find? fun e => e.1 == i && e.2.1 == j).map (·.2.2)).getD 0)
    if !degreeLt t pts then throw s!"share_sum_mismatch dealer={i}"
  if !degreeLt t sks then throw "not_shamir"
  return lagrangeAt0 (sks.take t)

/-- output check of one validator (Pedersen stream): ids 1..n, reduced scalars, the `n` shares lie on
one polynomial of degree `< t`; returns the group secret. -/
def checkOut (n t : Nat) (sks : List (Nat × Nat)) : Except String Nat := do
  let ids := (List.range n).map (· + 1)
  if sks.map (·.1) != ids then throw "bad_share_ids"
  if sks.any (·.2 ≥ r) then throw "share_not_reduced"
  if !degreeLt t sks then throw "not_shamir"
  return lagrangeAt0 (sks.take t)

/-- the message of the op `d j kind from variant` (must mirror `drive-frostp2p`): content of the
genuine message of `from` (of member `j % n + 1` for a non-member sender), altered by `variant`. -/
def mkMsg (n t nv j : Nat) (kind : String) (sender : Nat) (variant : String) : Option Msg :=
  let src := if 1 ≤ sender && sender ≤ n then sender else j % n + 1
  let tgt := if kind == "p" then j else 0
  let commits := if kind == "c1" then t else 0
  let base : List Entry := (List.range nv).map fun v => { key := ⟨v, src, tgt⟩, commits := commits }
  let es : Option (List Entry) :=
    match variant with
    | "g" => some base
    | "ws" => some (base.map fun e => { e with key := { e.key with sourceID := src % n + 1 } })
    | "wt" => some (base.map fun e =>
        { e with key := { e.key with targetID := if kind == "p" then j % n + 1 else j } })
    | "wv" => some (base.dropLast ++ (base.drop (base.length - 1)).map fun e =>
        { e with key := { e.key with valIdx := nv } })
    | "wc" => some (match base with
        | [] => []
        | e :: rest => { e with commits := e.commits + 1 } :: rest)
    | "fv" => some base.dropLast
    | _ =>
      -- ws<k> / wt<k> / wv<k>: exactly the entry at position k is altered
      match (variant.drop 2).toString.toNat? with
      | none => none
      | some k =>
        let alter : Option (Entry → Entry) :=
          if variant.startsWith "ws" then some fun e => { e with key := { e.key with sourceID := src % n + 1 } }
          else if variant.startsWith "wt" then
            some fun e => { e with key := { e.key with targetID := if kind == "p" then j % n + 1 else j } }
          else if variant.startsWith "wv" then some fun e => { e with key := { e.key with valIdx := nv } }
          else none
        alter.map fun f => (base.zipIdx.map fun (e, i) => if i == k then f e else e)
  es.map fun es => { sender := sender, entries := es, tag := 0 }

def errStr : Err → String
  | .unknownPeer => "unknown" | .source => "source" | .target => "target" | .val => "val" | .commit => "commit"

def sendersStr (ms : List Msg) : String :=
  s!"[{natsStr (sortNat (ms.map (·.sender)).eraseDups)}]#{(ms.map (·.entries.length)).foldl (· + ·) 0}"

def step (s : St) (line : String) : St × String :=
  match line.splitOn " " with
  | ["p2pcer", n, t, nv, _seed] =>
    match n.toNat?, t.toNat?, nv.toNat? with
    | some n, some t, some nv =>
      if t < 2 || t > n || n < 2 || nv < 1 then ({ s with live := false, vals := [], nodes := [] }, "err")
      else ({ n := n, t := t, nv := nv, live := true, vals := [],
              nodes := (List.range n).map fun i => { id := i + 1 } }, "ok")
    | _, _, _ => (s, "bad-op")
  | ["cb", n, t, nv, self] =>
    match n.toNat?, t.toNat?, nv.toNat?, self.toNat? with
    | some n, some t, some nv, some self =>
      ({ n := n, t := t, nv := nv, live := false, vals := [], nodes := [{ id := self }] }, "ok")
    | _, _, _, _ => (s, "bad-op")
  | ["d", j, kind, sender, variant] =>
    match j.toNat?, sender.toNat? with
    | some j, some sender =>
      match s.nodes.find? (·.id == j), mkMsg s.n s.t s.nv j kind sender variant with
      | some nd, some m =>
        let cfg : Cfg := { n := s.n, t := s.t, nv := s.nv, self := j }
        let (nd', res, qlen) : NodeSt × Res × Nat :=
          match kind with
          | "c1" => let r := bcastCb cfg (some s.t) nd.c1 m; ({ nd with c1 := r.1 }, r.2, r.1.queue.length)
          | "c2" => let r := bcastCb cfg none nd.c2 m; ({ nd with c2 := r.1 }, r.2, r.1.queue.length)
          | _ => let r := p2pCb cfg nd.p m; ({ nd with p := r.1 }, r.2, r.1.queue.length)
        if kind != "c1" && kind != "c2" && kind != "p" then (s, "bad-op") else
        let out := match res with
          | .queued => s!"q {qlen}"
          | .dup => "dup"
          | .err e => "err " ++ errStr e
        ({ s with nodes := s.nodes.map fun x => if x.id == j then nd' else x }, out)
      | _, _ => (s, "bad-op")
    | _, _ => (s, "bad-op")
  | ["race", j, kind, sender] =>
    match j.toNat?, sender.toNat? with
    | some j, some sender =>
      match s.nodes.find? (·.id == j), mkMsg s.n s.t s.nv j kind sender "g" with
      | some nd, some m =>
        if (kind != "c1" && kind != "c2") || !(1 ≤ sender && sender ≤ s.n) then (s, "bad-op") else
        let cfg : Cfg := { n := s.n, t := s.t, nv := s.nv, self := j }
        let commits := if kind == "c1" then some s.t else none
        let ch := if kind == "c1" then nd.c1 else nd.c2
        -- overlapping invocations are equivalent to a sequential order (identical messages: one order)
        let r1 := bcastCb cfg commits ch m
        let r2 := bcastCb cfg commits r1.1 m
        let render (r : Chan × Res) : String := match r.2 with
          | .queued => s!"q {r.1.queue.length}"
          | .dup => "dup"
          | .err e => "err " ++ errStr e
        let nd' := if kind == "c1" then { nd with c1 := r2.1 } else { nd with c2 := r2.1 }
        ({ s with nodes := s.nodes.map fun x => if x.id == j then nd' else x }, render r1 ++ " | " ++ render r2)
      | _, _ => (s, "bad-op")
    | _, _ => (s, "bad-op")
  | ["fin"] =>
    let outs := s.nodes.map fun nd =>
      let cfg : Cfg := { n := s.n, t := s.t, nv := s.nv, self := nd.id }
      let evs := ((genCast1 cfg nd.id :: nd.c1.queue).map fun m => (true, m)) ++ nd.p.queue.map fun m => (false, m)
      match collect1 s.n evs [] [], collect2 s.n (genCast2 cfg nd.id :: nd.c2.queue) with
      | .done cs ps, some r2 => s!"{nd.id}:c1={sendersStr cs},p={sendersStr ps},c2={sendersStr r2}"
      | .tooMany, _ => s!"{nd.id}:toomany"
      | _, _ => s!"{nd.id}:wait"
    (s, " ".intercalate outs)
  | ["ped", n, t, nv, _sched] =>
    match n.toNat?, t.toNat?, nv.toNat? with
    | some n, some t, some nv =>
      -- validateThreshold: 1 ≤ t ≤ n (t ≤ 0 selects the default threshold; not generated)
      if t < 1 || t > n || n < 2 || nv < 1 then ({ s with live := false, vals := [] }, "err")
      else ({ n := n, t := t, nv := nv, live := true, vals := [] }, "ok")
    | _, _, _ => (s, "bad-op")
  | ["pval", v, sks] =>
    if !s.live then (s, "bad-op") else
    match v.toNat?, parseSks sks with
    | some v, some sks =>
      match checkOut s.n s.t sks with
      | .error e => (s, e)
      | .ok x =>
        let vs := (s.vals.filter (·.v != v)) ++ [{ v := v, shares := sks, x := x }]
        ({ s with vals := vs }, s!"x={toHex32 x} pk=1")
    | _, _ => (s, "bad-op")
  | ["reshare", t2, _sched] =>
    if !s.live then (s, "bad-op") else
    match t2.toNat? with
    | some t2 =>
      if t2 < 1 || t2 > s.n then ({ s with live := false }, "err")
      else ({ s with t := t2 }, "ok")
    | none => (s, "bad-op")
  | ["rval", v, sks] =>
    if !s.live then (s, "bad-op") else
    match v.toNat?, parseSks sks with
    | some v, some sks =>
      match s.vals.find? (·.v == v) with
      | none => (s, "bad-op")
      | some old =>
        match checkOut s.n s.t sks with
        | .error e => (s, e)
        | .ok x =>
          -- resharing keeps the secret (same group key) and re-randomises every share
          let same := x == old.x
          let fresh := (sks.zip old.shares).all fun (a, b) => a.2 != b.2
          let vs := (s.vals.filter (·.v != v)) ++ [{ v := v, shares := sks, x := x }]
          ({ s with vals := vs }, s!"x={toHex32 x} pk=1 same={b01 same} fresh={b01 fresh}")
    | _, _ => (s, "bad-op")
  | ["cer", n, t, nv, _ctx, _sched] =>
    match n.toNat?, t.toNat?, nv.toNat? with
    | some n, some t, some nv =>
      if t < 2 || t > n || n < 2 || nv < 1 then ({ s with live := false, vals := [] }, "err")
      else ({ n := n, t := t, nv := nv, live := true, vals := [] }, "ok")
    | _, _, _ => (s, "bad-op")
  | ["fcer", n, t, nv, _ctx, _sched, src, tgt, v] =>
    -- one round-1 p2p message lacks one validator's share: `getRound2Inputs` of the receiver then has no share of
    -- that dealer for that validator and the ceremony cannot succeed (Props.C11 incomplete_message_leaves_gap)
    match n.toNat?, t.toNat?, nv.toNat?, src.toNat?, tgt.toNat?, v.toNat? with
    | some n, some _t, some nv, some src, some tgt, some v =>
      if src = tgt || src < 1 || tgt < 1 || src > n || tgt > n || v ≥ nv then (s, "bad-op")
      else ({ s with live := false, vals := [] }, "err")
    | _, _, _, _, _, _ => (s, "bad-op")
  | ["out", j] =>
    if !s.live then (s, "bad-op") else
    match j.toNat? with
    | some j =>
      let (cs, ps) := round1Keys j (List.range s.nv) (otherIDs s.n j)
      (s, s!"c=[{keysStr cs}] p=[{keysStr ps}]")
    | none => (s, "bad-op")
  | ["in", _j, casts, p2p] =>
    if !s.live then (s, "bad-op") else
    match parseKeys casts, parseKeyed p2p with
    | some cs, some ps =>
      let cm : List (MsgKey × Unit) := cs.map fun k => (k, ())
      let c := perVal s.nv fun v => natsStr (sortNat (r2Sources cm v))
      let sh := perVal s.nv fun v =>
        ",".intercalate ((sortNat (r2Sources ps v)).map fun src =>
          s!"{src}:{(r2Share ps v src).getD "?"}")
      (s, s!"c:{c} s:{sh}")
    | _, _ => (s, "bad-op")
  | ["r2", _j, ents] =>
    if !s.live then (s, "bad-op") else
    match parseKeyed ents with
    | some es =>
      (s, perVal s.nv fun v =>
        ",".intercalate ((sortNat (pubShareKeys es v)).map fun j =>
          s!"{j}:{(pubShareAt es v j).getD "?"}"))
    | none => (s, "bad-op")
  | ["val", v, p2p, sks] =>
    if !s.live then (s, "bad-op") else
    match v.toNat?, parseP2P p2p, parseSks sks with
    | some v, some p2p, some sks =>
      match checkVal s.n s.t p2p sks with
      | .error e => (s, e)
      | .ok x =>
        let vs := (s.vals.filter (·.v != v)) ++ [{ v := v, shares := sks, x := x }]
        ({ s with vals := vs }, s!"x={toHex32 x} pk=1")
    | _, _, _ => (s, "bad-op")
  | ["rec", v, ids] =>
    if !s.live then (s, "bad-op") else
    match v.toNat?, parseIds ids with
    | some v, some ids =>
      match s.vals.find? (·.v == v) with
      | none => (s, "bad-op")
      | some vs =>
        match ids.mapM fun i => (vs.shares.find? (·.1 == i)) with
        | none => (s, "bad-op")
        | some pts =>
          if pts.isEmpty || !(ids.Nodup) then (s, "err") else
          let y := lagrangeAt0 pts
          (s, s!"{toHex32 y} rpk={b01 (y == vs.x)}")
    | _, _ => (s, "bad-op")
  | ["sig", v, ids, _msg] =>
    if !s.live then (s, "bad-op") else
    match v.toNat?, parseIds ids with
    | some v, some ids =>
      match s.vals.find? (·.v == v) with
      | none => (s, "bad-op")
      | some vs =>
        match ids.mapM fun i => (vs.shares.find? (·.1 == i)) with
        | none => (s, "bad-op")
        | some pts =>
          if pts.isEmpty || !(ids.Nodup) then (s, "err") else
          let ok := b01 (lagrangeAt0 pts == vs.x)
          (s, s!"agg={ok} ver={ok}")
    | _, _ => (s, "bad-op")
  | _ => (s, "bad-op")

end Driver.Frost

def main : IO Unit := Driver.runLoop Driver.Frost.step {}
