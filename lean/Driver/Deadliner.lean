import CharonV.Model.Deadliner
import CharonV.Model.DeadlineFunc
import Driver.Common

open CharonV.Deadliner

namespace Driver.Deadliner

structure DState where
  slotNs : Nat := 0
  spe    : Nat := 0
  st     : State := {}

def dlFn (d : DState) (id : Nat) : Option Nat := dutyDeadline d.slotNs d.spe (id / 16) (id % 16)

/-- insertion of `x` into a list sorted by (deadline, id) restricted to runs of equal deadline:
we only reorder neighbours with equal deadline, so an out-of-order report stays visible. -/
def insertRun (dl : Nat → Nat) (x : Nat) : List Nat → List Nat
  | [] => [x]
  | y :: ys => if dl y == dl x && x < y then x :: y :: ys else y :: insertRun dl x ys

/-- sort each maximal run of equal deadlines by id (stable otherwise). -/
def canonRuns (dl : Nat → Nat) (xs : List Nat) : List Nat :=
  -- split into maximal runs, sort each by id
  let rec go (cur : List Nat) (acc : List Nat) : List Nat → List Nat
    | [] => acc ++ cur
    | y :: ys =>
      match cur with
      | [] => go [y] acc ys
      | c :: _ =>
        if dl c == dl y then go (insertSorted y cur) acc ys
        else go [y] (acc ++ cur) ys
  go [] [] xs
where
  insertSorted (x : Nat) : List Nat → List Nat
    | [] => [x]
    | y :: ys => if x < y then x :: y :: ys else y :: insertSorted x ys

/-- quiesce (process all pending timer events), then drain the channel. -/
def observe (d : DState) : DState × String :=
  let dl := dlFn d
  let before := d.st.dropped.length
  let s1 := flush dl 10 (d.st.duties.length + 1) d.st
  let got := s1.out
  let s2 := { s1 with out := [] }
  let d' := { d with st := s2 }
  if s1.dropped.length > before then
    (d', s!"overflow {got.length}")
  else
    let c := canonRuns (fun i => dlOf dl i) got
    (d', "[" ++ Driver.joinWith "," (c.map (fun i => s!"{i}@{s2.now}")) ++ "]")

def statusStr : Status → String
  | .expired => "expired" | .scheduled => "scheduled" | .exempt => "exempt"

def step (d : DState) (line : String) : DState × String :=
  match line.splitOn " " with
  | ["cfg", a, b] =>
    match a.toNat?, b.toNat? with
    | some slotMs, some spe => ({ slotNs := slotMs * 1000000, spe := spe, st := {} }, "ok")
    | _, _ => (d, "bad-op")
  | ["add", a, b] =>
    match a.toNat?, b.toNat? with
    | some slot, some ty =>
      if ty ≥ 16 then (d, "bad-op") else
      let id := slot * 16 + ty
      let (s1, o) := CharonV.Deadliner.step (dlFn d) 10 d.st (.add id 0)
      let st := match o with | .status s => statusStr s | _ => "?"
      let (d', r) := observe { d with st := s1 }
      (d', st ++ " " ++ r)
    | _, _ => (d, "bad-op")
  | ["sadd", a, b, c] =>
    -- an Add during which the clock moves on by `c`: the late check reads the old instant
    match a.toNat?, b.toNat?, c.toNat? with
    | some slot, some ty, some k =>
      if ty ≥ 16 then (d, "bad-op") else
      let id := slot * 16 + ty
      let (s1, o) := CharonV.Deadliner.step (dlFn d) 10 d.st (.add id 0)
      let st := match o with | .status s => statusStr s | _ => "?"
      let (s2, _) := CharonV.Deadliner.step (dlFn d) 10 s1 (.advance k)
      let (d', r) := observe { d with st := s2 }
      (d', st ++ " " ++ r)
    | _, _, _ => (d, "bad-op")
  | ["qadv", a] =>
    -- quiet advance: the clock moves while nothing is due and nobody talks to the deadliner
    match a.toNat? with
    | some k =>
      let (s1, _) := CharonV.Deadliner.step (dlFn d) 10 d.st (.advance k)
      let (d', r) := observe { d with st := s1 }
      (d', "- " ++ r)
    | none => (d, "bad-op")
  | ["adv", a] =>
    match a.toNat? with
    | some k =>
      let (s1, _) := CharonV.Deadliner.step (dlFn d) 10 d.st (.advance k)
      let (d', r) := observe { d with st := s1 }
      (d', "- " ++ r)
    | none => (d, "bad-op")
  | _ => (d, "bad-op")

end Driver.Deadliner

def main : IO Unit := Driver.runLoop Driver.Deadliner.step {}
