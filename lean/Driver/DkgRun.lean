/-
Line driver for the `dkgrun` stream of C11 (`drive-dkgrun`): the glue model `Model/DkgGlue.lean`
over *symbolic* cryptography, plus the scalar model `Model/Fr.lean` for the secret shares.

Symbolic values: `g<k>` group key of validator `k`; `s<j>.<k>` public share of share index `j` for
validator `k` (= public key of node `j`'s secret share); a signature is "made by share (j,k) over m",
"the group signature of validator k over m", "the plain aggregate of the shares' signatures over m"
or junk. `verify` accepts exactly the signature the key produces (BLS signatures are unique),
`thresholdAgg` of ≥ t correctly indexed partials of one validator over one message is the group
signature (C08 `threshold_aggregate`), anything else is junk.

ops (see `harness/cmd/drive-dkgrun/main.go`):
  run <n> <t> <v> <alg> <amts|-> <ver> <flags> <sched> [km=<one of a|u|e|f per node>]  -> ok | err
  val <k> <j:sk,..>                                      -> x=<group secret> pk=1 | not_shamir | …
  rec <k> <ids>                                          -> <recovered> rpk=b
  sig <k> <ids> <msg>                                    -> agg=b ver=b
  art <j>                                                -> canonical artifacts of node j
  cdv <j> <ddspec> <regs>                                -> ok <validators> | err noreg | err nodd
  agg <kind> <j> <data>                                  -> ok … | err <class>
  xnew | xinj <r> <a> <c> <tau> <ks> <g|b> | xrun <tau>
  reshare <sched> | addop <k> <sched> | rmop <ids> <part|-> <t'|0> <sched> | replop <pos> <sched>  -> ok | err
  append <extra> <sched> -> ok | err ;  aval <k> <j:sk,..> -> x=.. pk=1 kept=b | new
  nval <k> <j:sk,..> -> x=.. pk=b same=b fresh=b ;  nrec / nsig as rec / sig on the new shares ;  part <j>
-/
import CharonV.Model.Fr
import CharonV.Model.DkgGlue
import Driver.Common

open CharonV.Fr CharonV.DkgGlue

namespace Driver.DkgRun

/-! ### symbolic cryptography -/

inductive SPK where
  | group (k : Nat)
  | share (j k : Nat)
  | foreign
  deriving DecidableEq, Repr

structure SSK where
  j : Nat
  k : Nat
  deriving DecidableEq, Repr

inductive SMsg where
  | lock
  | dep (pk : SPK) (wd amount : Nat)
  | reg (pk : SPK) (fee gas : Nat)
  deriving DecidableEq, Repr

inductive SSig where
  | part (j k : Nat) (m : SMsg)
  | grp (k : Nat) (m : SMsg)
  | multi (parts : List (Nat × Nat)) (m : SMsg)
  | junk
  deriving DecidableEq, Repr

def pairLe (a b : Nat × Nat) : Bool := a.1 < b.1 || (a.1 == b.1 && a.2 ≤ b.2)

def insertPair (x : Nat × Nat) : List (Nat × Nat) → List (Nat × Nat)
  | [] => [x]
  | y :: ys => if pairLe x y then x :: y :: ys else y :: insertPair x ys

def sortPairs (xs : List (Nat × Nat)) : List (Nat × Nat) := xs.foldr insertPair []

def symCrypto (t : Nat) : Crypto SPK SSK SSig SMsg where
  pub sk := .share sk.j sk.k
  sign sk m := .part sk.j sk.k m
  verify pk m σ :=
    match pk with
    | .share j k => σ == .part j k m
    | .group k => σ == .grp k m
    | .foreign => false
  thresholdAgg l :=
    match l with
    | (_, .part _ k m) :: _ =>
      if l.all (fun e => e.2 == .part e.1 k m) && decide (t ≤ l.length) then .grp k m else .junk
    | _ => .junk
  aggregate sigs :=
    match sigs with
    | .part _ _ m :: _ =>
      match sigs.mapM (fun σ => match σ with | .part j k m' => if m' = m then some (j, k) else none | _ => none) with
      | some ps => .multi (sortPairs ps) m
      | none => .junk
    | _ => .junk
  verifyAgg pks σ m :=
    match pks.mapM (fun p => match p with | .share j k => some (j, k) | _ => none) with
    | some ps => σ == .multi (sortPairs ps) m
    | none => false
  depositRoot d := .dep d.pubKey d.wd d.amount
  regRoot r := .reg r.pubKey r.fee r.gas

/-! ### state -/

structure ValSt where
  v      : Nat
  shares : List (Nat × Nat)
  x      : Nat

/-- one generation of the cluster after a cluster-changing protocol. -/
structure GenSt where
  g        : Nat                                -- generation number (1, 2, …)
  n        : Nat
  t        : Nat
  ids      : List String                        -- operator names
  prev     : List (Option Nat)                  -- position of the operator in the previous generation
  keysOf   : List Nat                           -- key of each position's public share in `PublicShares`
  nv       : Nat                                -- validators of this generation
  appended : Nat := 0                           -- validators added by the append that made this generation
  vals     : List ValSt := []
  lockVals : List (DistValidator SPK SSig) := []

structure St where
  n       : Nat := 0
  t       : Nat := 0
  nv      : Nat := 0
  vlo     : Nat := 0                            -- first validator index of the ceremony being computed (append: the old count)
  amounts : List Nat := []
  pregen  : Bool := true
  live    : Bool := false
  vals    : List ValSt := []
  ex      : List (ExState SPK SSig) := []
  gens    : List GenSt := []                    -- newest first

/-- gas limit: a constant of the ceremony (the harness checks the value). -/
def gas : Nat := 0

def b01 (b : Bool) : String := if b then "1" else "0"

def parseIds (s : String) : Option (List Nat) :=
  if s == "-" then some [] else (s.splitOn ",").mapM String.toNat?

def parseSks (s : String) : Option (List (Nat × Nat)) :=
  (s.splitOn ",").mapM fun it =>
    match it.splitOn ":" with
    | [a, h] => match a.toNat?, ofHex? h with
      | some j, some v => if h.length == 64 then some (j, v) else none
      | _, _ => none
    | _ => none

/-- output check of one validator: ids 1..n, reduced scalars, the `n` shares lie on one polynomial of
degree `< t`; returns the group secret. -/
def checkOut (n t : Nat) (sks : List (Nat × Nat)) : Except String Nat := do
  let ids := (List.range n).map (· + 1)
  if sks.map (·.1) != ids then throw "bad_share_ids"
  if sks.any (·.2 ≥ r) then throw "share_not_reduced"
  if !degreeLt t sks then throw "not_shamir"
  return lagrangeAt0 (sks.take t)

def insertStr (x : String) : List String → List String
  | [] => [x]
  | y :: ys => if x ≤ y then x :: y :: ys else y :: insertStr x ys

def sortStr (xs : List String) : List String := xs.foldr insertStr []

def join (sep : String) (xs : List String) : String := sep.intercalate xs

/-- minor version of `v1.<minor>.<patch>`. -/
def minorOf (ver : String) : Option Nat :=
  match ver.splitOn "." with
  | ["v1", m, _] => m.toNat?
  | _ => none

def dedupSorted (xs : List Nat) : List Nat := sortNat xs.eraseDups

/-! ### the symbolic ceremony output -/

/-- shares of the node with share index `idx`; the public-share map is handed over in descending
index order (any order must do). -/
def sharesOf (s : St) (idx : Nat) : List (Share SPK SSK) :=
  (List.range' s.vlo (s.nv - s.vlo)).map fun k =>
    { pubKey := .group k, secret := ⟨idx, k⟩,
      pubShares := ((List.range s.n).map fun i => (i + 1, SPK.share (i + 1) k)).reverse }

def wds (s : St) : List Nat := List.range' s.vlo (s.nv - s.vlo)
def fees (s : St) : List Nat := List.range' s.vlo (s.nv - s.vlo)

def peerMap (s : St) : List (Nat × Nat) := (List.range s.n).map fun i => (i, i + 1)

/-- the message the partials of validator `k` are over for a sigType; `none` for no kind. -/
def tauMsg (s : St) (tau k : Nat) : Option SMsg :=
  if tau == sigLock then some .lock
  else if tau == sigValidatorRegistration then some (.reg (.group k) k gas)
  else if tau ≥ sigDepositData then (s.amounts[tau - sigDepositData]?).map fun a => .dep (.group k) k a
  else none

/-- the genuine set of the node with share index `idx` for a sigType. -/
def genuineSet (s : St) (idx tau : Nat) : Option (List (SPK × ParSig SSig)) :=
  let C := symCrypto s.t
  if tau == sigLock then some (signLockHash C idx (sharesOf s idx) .lock)
  else if tau == sigValidatorRegistration then (signRegs C (sharesOf s idx) idx (fees s) gas).map (·.1)
  else if tau ≥ sigDepositData then
    match s.amounts[tau - sigDepositData]? with
    | some a => (signDepositMsgs C (sharesOf s idx) idx (wds s) a).map (·.1)
    | none => none
  else none

/-- node `j` (0-based) stores its own set and receives everyone else's (ascending peer index). -/
def exchangeAt (s : St) (st : ExState SPK SSig) (j tau : Nat) : ExState SPK SSig :=
  match genuineSet s (j + 1) tau with
  | none => st
  | some own =>
    let st := storeExternal s.n st tau own
    (List.range s.n).foldl (fun st a =>
      if a == j then st else
      match genuineSet s (a + 1) tau with
      | some set => (recv s.n (peerMap s) st a tau set).1
      | none => st) st

/-! ### rendering -/

def pkId (s : St) : SPK → String
  | .group k => if k < s.nv then s!"g{k}" else "?"
  | .share j k => if 1 ≤ j && j ≤ s.n && k < s.nv then s!"s{j}.{k}" else "?"
  | .foreign => "?"

def wcId (s : St) (w : Nat) : String := if w < s.nv then s!"w{w}" else "?"
def feeId (s : St) (f : Nat) : String := if f < s.nv then s!"f{f}" else "?"

def depSigId (s : St) : SSig → String
  | .grp k (.dep (.group k') w a) => if k == k' && k == w && k < s.nv && s.amounts.contains a then s!"D{k}.{a}" else "?"
  | _ => "?"

def regSigId (s : St) : SSig → String
  | .grp k (.reg (.group k') f g) => if k == k' && k == f && g == gas && k < s.nv then s!"R{k}" else "?"
  | _ => "?"

def ddStr (s : St) (d : DepositData SPK SSig) : String :=
  s!"{d.amount}:{pkId s d.pubKey}:{wcId s d.wd}:{depSigId s d.sig}"

def regStr (s : St) (r : Registration SPK SSig) : String :=
  s!"{pkId s r.pubKey}:{feeId s r.fee}:{regSigId s r.sig}"

def dvStr (s : St) (k : Nat) (v : DistValidator SPK SSig) : String :=
  let reg := match v.reg with | none => "-" | some r => regStr s r
  s!"V{k} pk={pkId s v.pubKey} ps={join "," (v.pubShares.map (pkId s))} dd={join "," (v.deposits.map (ddStr s))} reg={reg}"

def dvsStr (s : St) (vs : List (DistValidator SPK SSig)) : String :=
  if vs.isEmpty then "-" else join " | " ((List.range vs.length).filterMap fun k => (vs[k]?).map (dvStr s k))

def errStr : Err → String
  | .nomsg => "nomsg" | .nopk => "nopk" | .noshare => "noshare" | .badpartial => "badpartial"
  | .badagg => "badagg" | .noreg => "noreg" | .nodd => "nodd" | .badmulti => "badmulti" | .threshold => "threshold"
  | .panic => "panic" | .timeout => "timeout"

/-! ### the whole glue at node `j`, as `dkg.Run` chains it -/

structure Artifacts where
  vals  : List (DistValidator SPK SSig)
  agg   : Bool
  ks    : List SSK
  files : List (List (DepositData SPK SSig))

/-- the deposit data per amount and the lock's validators as node `j` obtains them: the validators
`vlo..nv-1` of the ceremony being computed. -/
def glueVals (s : St) (j : Nat) : Except String (List (List (DepositData SPK SSig)) × List (DistValidator SPK SSig)) := do
  let C := symCrypto s.t
  let cnt := s.nv - s.vlo
  let shares := sharesOf s (j + 1)
  -- what the exchanges return at node j (exchanger model: own set, then every peer's)
  let exchDep ← (List.range s.amounts.length).mapM fun i =>
    match query (exchangeAt s {} j (sigDepositData + i)) (sigDepositData + i) cnt with
    | some d => pure d
    | none => throw "deposit:exchange"
  let exchReg ← match query (exchangeAt s {} j sigValidatorRegistration) sigValidatorRegistration cnt with
    | some d => pure d
    | none => throw "reg:exchange"
  -- signAndAggDepositData (kept for the deposit-data files), then the lock's validators
  let dds ← match signAndAggDepositData C shares (j + 1) (wds s) s.amounts exchDep with
    | .ok d => pure d
    | .error e => throw ("deposit:" ++ errStr e)
  let vals ← match lockValidators C shares (j + 1) (wds s) (fees s) gas s.amounts s.pregen exchDep exchReg with
    | .ok v => pure v
    | .error e => throw ("lock:" ++ errStr e)
  return (dds, vals)

def nodeRun (s : St) (j : Nat) : Except String Artifacts := do
  let C := symCrypto s.t
  let shares := sharesOf s (j + 1)
  let (dds, vals) ← glueVals s j
  let agg ← match query (exchangeAt s {} j sigLock) sigLock (s.nv - s.vlo) with
    | some data =>
      match lockFromAgg C data shares .lock with
      | .ok σ => pure (σ == .multi (sortPairs ((List.range s.n).flatMap fun i => (List.range' s.vlo (s.nv - s.vlo)).map fun k => (i + 1, k))) .lock)
      | .error e => throw ("lockhash:" ++ errStr e)
    | none => throw "lockhash:exchange"
  return { vals := vals, agg := agg, ks := keystore shares, files := dds }

def artStr (s : St) (j : Nat) : String :=
  match nodeRun s j with
  | .error e => "model-error " ++ e
  | .ok a =>
    let ns := if s.pregen then join "," ((List.range s.n).map fun i => s!"N{i}") else "-"
    let ks := join "," (a.ks.map fun sk => pkId s (.share sk.j sk.k))
    let files := join ";" (a.files.map fun f => join "," (sortStr (f.map (ddStr s))))
    s!"nv={a.vals.length} h=1 agg={b01 a.agg} ns={ns} || {dvsStr s a.vals} || ks={ks} || files={files}"

/-! ### parsing of the symbolic partial signatures -/

def parseMsg (s : St) (m : String) : Option SMsg :=
  if m == "L" then some .lock
  else if m.startsWith "R" then (m.drop 1).toNat?.map fun k => .reg (.group k) k gas
  else if m.startsWith "D" then
    match (m.drop 1).toString.splitOn "-" with
    | [k, i] => match k.toNat?, i.toNat? with
      | some k, some i => (s.amounts[i]?).map fun a => .dep (.group k) k a
      | _, _ => none
    | _ => none
  else none

def parseEnt (s : St) (e : String) : Option (ParSig SSig) :=
  match e.splitOn "=" with
  | [idx, rhs] =>
    match rhs.splitOn "/" with
    | [sg, v, m] =>
      match idx.toNat?, sg.toNat?, v.toNat?, parseMsg s m with
      | some idx, some sg, some v, some m => some ⟨.part sg v m, idx⟩
      | _, _, _, _ => none
    | _ => none
  | _ => none

def parseData (s : St) (d : String) : Option (List (SPK × List (ParSig SSig))) :=
  if d == "-" then some [] else
  (d.splitOn ";").mapM fun part =>
    match part.splitOn ":" with
    | [key, ents] =>
      let pk : Option SPK := if key == "x" then some .foreign else key.toNat?.map .group
      let es : Option (List (ParSig SSig)) := if ents.isEmpty then some [] else (ents.splitOn ",").mapM (parseEnt s)
      match pk, es with
      | some pk, some es => some (pk, es)
      | _, _ => none
    | _ => none

/-- `i:k,k;i:k,k` -/
def parseDDSpec (s : St) (d : String) : Option (List (List (DepositData SPK SSig))) :=
  if d == "-" then some [] else
  (d.splitOn ";").mapM fun part =>
    match part.splitOn ":" with
    | [i, ks] =>
      match i.toNat?, parseIds ks with
      | some i, some ks =>
        (s.amounts[i]?).map fun a => ks.map fun k => ⟨.group k, k, a, .grp k (.dep (.group k) k a)⟩
      | _, _ => none
    | _ => none

def validCfg (n t nv : Nat) (alg : String) (amts : List Nat) (ver : String) (comp : Bool) : Bool :=
  match minorOf ver with
  | none => false
  | some m =>
    let maxA := if comp then 2048 else 32
    checkThreshold t n && nv ≥ 1 && n ≥ 1 &&
    (alg == "default" || alg == "frost" || alg == "pedersen") &&
    6 ≤ m && m ≤ 11 &&
    (!comp || 10 ≤ m) &&
    (amts.length ≤ 1 || 8 ≤ m) &&
    (amts.isEmpty || (amts.all (fun a => 1 ≤ a && a ≤ maxA) && amts.foldl (· + ·) 0 ≥ 32))

def amountsOf (amts : List Nat) (m : Nat) (comp : Bool) : List Nat :=
  if m < 8 then [32]
  else if amts.isEmpty then (if comp then [1, 8, 32, 256] else [1, 32])
  else dedupSorted amts

/-! ### cluster-changing protocols -/

/-- symbolic public share of position `j` (1-based) of generation `g` for validator `k`. -/
def genShare (g j k : Nat) : SPK := .share (100 * g + j) k

/-- the shares node `j` (0-based position) of generation `g` holds after the reshare: the
`PublicShares` map is keyed as `processKey` files it (handed over in descending order). -/
def genSharesOf (_s : St) (g : GenSt) (j : Nat) : List (Share SPK SSK) :=
  (List.range g.nv).map fun k =>
    { pubKey := .group k, secret := ⟨100 * g.g + j + 1, k⟩,
      pubShares := ((List.range g.n).map fun r => ((g.keysOf[r]?).getD 0, genShare g.g (r + 1) k)).reverse }

/-- validators of generation 0's lock (what the ceremony's glue built at node 0). -/
def gen0LockVals (s : St) : List (DistValidator SPK SSig) :=
  match nodeRun s 0 with
  | .ok a => a.vals
  | .error _ => []

def prevVals (s : St) (rest : List GenSt) : List ValSt :=
  match rest with
  | p :: _ => p.vals
  | [] => s.vals

def genPkId (_s : St) (g : GenSt) : SPK → String
  | .group k => if k < g.nv then s!"g{k}" else "?"
  | .share j k => if 100 * g.g + 1 ≤ j && j ≤ 100 * g.g + g.n && k < g.nv then s!"s{j - 100 * g.g}.{k}" else "?"
  | .foreign => "?"

def partStr (s0 : St) (g : GenSt) (j : Nat) : String :=
  let s := { s0 with nv := g.nv }
  let ns := if s.pregen then join "," ((List.range g.n).map fun i => s!"N{i}") else "-"
  let vals := (List.range g.lockVals.length).filterMap fun k => (g.lockVals[k]?).map fun v =>
    let reg := match v.reg with | none => "-" | some r => regSigId s r.sig
    s!"V{k} pk={genPkId s g v.pubKey} ps={join "," (v.pubShares.map (genPkId s g))} dd={join "," (v.deposits.map fun d => depSigId s d.sig)} reg={reg}"
  -- reshare protocols: `storeKeys` of the new shares; append: existing shares first, then the new ones
  let all := genSharesOf s g j
  let old := g.nv - g.appended
  let ks := join "," ((keystore (appendKeyShares (all.take old) (all.drop old))).map fun sk => genPkId s g (.share sk.j sk.k))
  s!"n={g.n} t={g.t} ops={join "," g.ids} h=1 agg=1 ns={ns} || {join " | " vals} || ks={ks}"

/-- current cluster: (generation number, n, t, operator names, lock validators). -/
def curCluster (s : St) : Nat × Nat × Nat × List String × List (DistValidator SPK SSig) × Nat :=
  match s.gens with
  | g :: _ => (g.g, g.n, g.t, g.ids, g.lockVals, g.nv)
  | [] => (0, s.n, s.t, (List.range s.n).map fun i => s!"o{i}", gen0LockVals s, s.nv)

/-- a new generation: the lock is assembled by `updateLockValidators` at node 0. -/
def mkGen (s : St) (gno n t nv : Nat) (ids : List String) (prev : List (Option Nat)) (keysOf : List Nat)
    (oldVals : List (DistValidator SPK SSig)) : St × String :=
  let g : GenSt := { g := gno, n := n, t := t, ids := ids, prev := prev, keysOf := keysOf, nv := nv }
  match updateLockValidators oldVals (genSharesOf s g 0) with
  | none => (s, "err")
  | some lv => ({ s with gens := { g with lockVals := lv } :: s.gens }, "ok")

def protoStep (s : St) (f : List String) : St × String :=
  if !s.live then (s, "bad-op") else
  -- the code as it is: `updateNodeSignaturesProtocolStep` stores node signatures in a lock whose version
  -- (v1.6.0) has none and then fails `VerifySignatures` (fixes/C11-protocol-v16-node-signatures.diff)
  if !s.pregen then (s, "err") else
  let (g0, n, t, ids, oldVals, nv) := curCluster s
  let gno := g0 + 1
  let ident := (List.range n).map fun i => some i
  match f with
  | ["reshare", _sched] =>
    -- same operators, same threshold
    mkGen s gno n t nv ids ident ((List.range n).map (· + 1)) oldVals
  | ["addop", k, _sched] =>
    match k.toNat? with
    | some k =>
      if k < 1 then (s, "err") else
      let new := (List.range k).map fun i => s!"a{gno}.{i}"
      mkGen s gno (n + k) t nv (addOperators ids new) (ident ++ (List.range k).map fun _ => none)
        ((List.range (n + k)).map (· + 1)) oldVals
    | none => (s, "bad-op")
  | ["rmop", rm, part, newT, _sched] =>
    match parseIds rm, parseIds part, newT.toNat? with
    | some rm, some part, some newT =>
      if rm.isEmpty || rm.any (· ≥ n) || !rm.Nodup then (s, "err") else
      let removing := rm.filterMap fun i => ids[i]?
      let newOps := removeOperators ids removing
      let newN := newOps.length
      match removeThreshold n rm.length newT with
      | none => (s, "err")
      | some t' =>
        -- at least the old threshold of share holders takes part; the new threshold fits the new cluster
        if newN < 1 || newN + part.length < t || t' < 1 || t' > newN then (s, "err") else
        let keys := remainingShareIdx ids removing
        mkGen s gno newN t' nv newOps (keys.map fun i => some (i - 1)) keys oldVals
    | _, _, _ => (s, "bad-op")
  | ["replop", pos, _sched] =>
    match pos.toNat? with
    | some pos =>
      match ids[pos]? with
      | none => (s, "err")
      | some old =>
        if n - 1 < t then (s, "err") else
        match replaceOperator ids old s!"a{gno}.0" with
        | none => (s, "err")
        | some newOps =>
          mkGen s gno n t nv newOps ((List.range n).map fun i => if i == pos then none else some i)
            ((List.range n).map (· + 1)) oldVals
    | none => (s, "bad-op")
  | _ => (s, "bad-op")

/-- keymanager mode: what a keymanager of the given mode answers to successive import requests. -/
def kmResponses : Char → List Bool
  | 'a' => [true, true, true, true]
  | 'f' => [false, true, true, true]
  | _ => [false, false, false, false]

def runStep (s : St) (n t nv alg amts ver flags : String) (km : Option String) : St × String :=
  match n.toNat?, t.toNat?, nv.toNat?, parseIds amts with
  | some n, some t, some nv, some amts =>
    let comp := flags.contains 'c'
    -- keymanager mode: `Run` fails on a node whose (single) import request is refused; the ceremony needs every node
    let kmOk := match km with
      | none => true
      | some modes => modes.length == n &&
          ceremonyOk (modes.toList.map fun m => runWritesKeys true (kmResponses m) true)
    if !validCfg n t nv alg amts ver comp || !kmOk then ({ s with live := false, vals := [], ex := [], gens := [] }, "err")
    else
      let m := (minorOf ver).getD 0
      ({ n := n, t := t, nv := nv, amounts := amountsOf amts m comp, pregen := 7 ≤ m, live := true,
         ex := (List.range n).map fun _ => {} }, "ok")
  | _, _, _, _ => (s, "bad-op")

def step (s : St) (line : String) : St × String :=
  match line.splitOn " " with
  | ["run", n, t, nv, alg, amts, ver, flags, _sched] => runStep s n t nv alg amts ver flags none
  | ["run", n, t, nv, alg, amts, ver, flags, _sched, km] =>
    if km.startsWith "km=" then runStep s n t nv alg amts ver flags (some (km.drop 3).toString) else (s, "bad-op")
  | ["val", v, sks] =>
    if !s.live then (s, "bad-op") else
    match v.toNat?, parseSks sks with
    | some v, some sks =>
      match checkOut s.n s.t sks with
      | .error e => (s, e)
      | .ok x =>
        let vs := (s.vals.filter (·.v != v)) ++ [{ v := v, shares := sks, x := x }]
        ({ s with vals := vs }, s!"x={toHex32 x} pk=1")
    | _, _ => (s, "bad-op")
  | ["rec", v, ids] =>
    if !s.live then (s, "bad-op") else
    match v.toNat?, parseIds ids with
    | some v, some ids =>
      match s.vals.find? (·.v == v) with
      | none => (s, "bad-op")
      | some vs =>
        match ids.mapM fun i => (vs.shares.find? (·.1 == i)) with
        | none => (s, "bad-op")
        | some pts =>
          if pts.isEmpty || !(ids.Nodup) then (s, "err") else
          let y := lagrangeAt0 pts
          (s, s!"{toHex32 y} rpk={b01 (y == vs.x)}")
    | _, _ => (s, "bad-op")
  | ["sig", v, ids, _msg] =>
    if !s.live then (s, "bad-op") else
    match v.toNat?, parseIds ids with
    | some v, some ids =>
      match s.vals.find? (·.v == v) with
      | none => (s, "bad-op")
      | some vs =>
        match ids.mapM fun i => (vs.shares.find? (·.1 == i)) with
        | none => (s, "bad-op")
        | some pts =>
          if pts.isEmpty || !(ids.Nodup) then (s, "err") else
          let ok := b01 (lagrangeAt0 pts == vs.x)
          (s, s!"agg={ok} ver={ok}")
    | _, _ => (s, "bad-op")
  | ["art", j] =>
    if !s.live then (s, "bad-op") else
    match j.toNat? with
    | some j => if j < s.n then (s, artStr s j) else (s, "bad-op")
    | none => (s, "bad-op")
  | ["cdv", j, dd, regs] =>
    if !s.live then (s, "bad-op") else
    match j.toNat?, parseDDSpec s dd, parseIds regs with
    | some j, some dds, some rs =>
      let regs : List (Registration SPK SSig) := rs.map fun k => ⟨.group k, k, gas, .grp k (.reg (.group k) k gas)⟩
      match createDistValidators (sharesOf s (j + 1)) dds regs with
      | .ok vs => (s, "ok " ++ dvsStr s vs)
      | .error e => (s, "err " ++ errStr e)
    | _, _, _ => (s, "bad-op")
  | ["agg", kind, j, data] =>
    if !s.live then (s, "bad-op") else
    match j.toNat?, parseData s data with
    | some j, some data =>
      let C := symCrypto s.t
      let shares := sharesOf s (j + 1)
      if kind == "L" then
        match aggLockHashSig C data (pubkeyToShares shares) .lock with
        | .error e => (s, "err " ++ errStr e)
        | .ok (σ, pks) =>
          let ok := C.verifyAgg pks σ .lock
          (s, s!"ok pks={join "," (sortStr (pks.map (pkId s)))} sig={b01 ok}")
      else if kind == "R" then
        match signRegs C shares (j + 1) (fees s) gas with
        | none => (s, "bad-op")
        | some (_, msgs) =>
          match aggRegs C data shares msgs with
          | .error e => (s, "err " ++ errStr e)
          | .ok rs => (s, "ok " ++ join "," (sortStr (rs.map (regStr s))))
      else if kind.startsWith "D" then
        match (kind.drop 1).toNat? with
        | none => (s, "bad-op")
        | some i =>
          match s.amounts[i]? with
          | none => (s, "bad-op")
          | some a =>
            match signDepositMsgs C shares (j + 1) (wds s) a with
            | none => (s, "bad-op")
            | some (_, msgs) =>
              match aggDepositData C data shares msgs with
              | .error e => (s, "err " ++ errStr e)
              | .ok ds => (s, "ok " ++ join "," (sortStr (ds.map (ddStr s))))
      else (s, "bad-op")
    | _, _ => (s, "bad-op")
  | ["xnew"] =>
    if !s.live then (s, "bad-op") else
    ({ s with ex := (List.range s.n).map fun _ => {} }, "ok")
  | ["xinj", r, a, c, tau, ks, variant] =>
    if !s.live then (s, "bad-op") else
    match r.toNat?, a.toNat?, c.toNat?, tau.toNat?, parseIds ks with
    | some r, some a, some c, some tau, some ks =>
      match s.ex[r]? with
      | none => (s, "bad-op")
      | some st =>
        let set : List (SPK × ParSig SSig) := ks.map fun k =>
          let m := (tauMsg s tau k).getD .lock
          let m := if variant == "b" then (if m == .lock then .reg (.group k) k gas else .lock) else m
          (.group k, ⟨.part (a + 1) k m, c⟩)
        let (st', acc) := recv s.n (peerMap s) st a tau set
        ({ s with ex := s.ex.set r st' }, if acc then "ok" else "refused")
    | _, _, _, _, _ => (s, "bad-op")
  | ["xrun", tau] =>
    if !s.live then (s, "bad-op") else
    match tau.toNat? with
    | some tau =>
      if s.ex.length != s.n || (tauMsg s tau 0).isNone then (s, "bad-op") else
      let ex' := (List.range s.n).map fun j => exchangeAt s (s.ex[j]?.getD {}) j tau
      let outs := ex'.map fun st =>
        match query st tau s.nv with
        | none => "err"
        | some data =>
          join ";" ((List.range s.nv).map fun k =>
            let l := (get? data (SPK.group k)).getD []
            let es := l.map fun p =>
              let id := match p.sig with
                | .part j' k' m => if k' == k && some m == tauMsg s tau k && 1 ≤ j' && j' ≤ s.n then s!"p{j'}" else "?"
                | _ => "?"
              s!"{p.shareIdx}={id}"
            s!"{k}:{join "," (sortStr es)}")
      ({ s with ex := ex' }, join " | " outs)
    | none => (s, "bad-op")
  | "reshare" :: _ | "addop" :: _ | "rmop" :: _ | "replop" :: _ => protoStep s (line.splitOn " ")
  | ["append", extra, _sched] =>
    if !s.live then (s, "bad-op") else
    match extra.toNat? with
    | some extra =>
      if extra < 1 then (s, "err") else
      let (g0, n, t, ids, oldVals, nv) := curCluster s
      let gno := g0 + 1
      -- the add-validators ceremony: the glue of `Run` for the validators nv .. nv+extra-1 among the current operators
      let s' : St := { s with n := n, t := t, vlo := nv, nv := nv + extra, gens := [], ex := [], vals := [] }
      match glueVals s' 0 with
      | .error e => (s, "model-error " ++ e)
      | .ok (_, newVals) =>
        -- every public share is named by the position of its holder in this generation
        let rename (v : DistValidator SPK SSig) : DistValidator SPK SSig :=
          { v with pubShares := v.pubShares.map fun p => match p with
              | .share j k => .share (100 * gno + j % 100) k
              | x => x }
        let g : GenSt := { g := gno, n := n, t := t, ids := ids, prev := (List.range n).map fun i => some i,
                           keysOf := (List.range n).map (· + 1), nv := nv + extra, appended := extra,
                           lockVals := (appendLockValidators oldVals newVals).map rename }
        ({ s with gens := g :: s.gens }, "ok")
    | none => (s, "bad-op")
  | ["aval", v, sks] =>
    if !s.live then (s, "bad-op") else
    match s.gens, v.toNat?, parseSks sks with
    | g :: rest, some v, some sks =>
      if g.appended == 0 || v ≥ g.nv then (s, "bad-op") else
      let isOld := v < g.nv - g.appended
      let old := (prevVals s rest).find? (·.v == v)
      if isOld && old.isNone then (s, "bad-op") else
      match checkOut g.n g.t sks with
      | .error e => (s, e)
      | .ok x =>
        let vs := (g.vals.filter (·.v != v)) ++ [{ v := v, shares := sks, x := x }]
        let tail := match old with
          | some o => if isOld then "kept=" ++ b01 (o.shares == sks) else "new"
          | none => "new"
        ({ s with gens := { g with vals := vs } :: rest }, s!"x={toHex32 x} pk=1 {tail}")
    | _, _, _ => (s, "bad-op")
  | ["nval", v, sks] =>
    if !s.live then (s, "bad-op") else
    match s.gens, v.toNat?, parseSks sks with
    | g :: rest, some v, some sks =>
      if g.appended != 0 then (s, "bad-op") else
      match (prevVals s rest).find? (·.v == v) with
      | none => (s, "bad-op")
      | some old =>
        match checkOut g.n g.t sks with
        | .error e => (s, e)
        | .ok x =>
          let same := x == old.x
          -- every continuing operator's share changed
          let fresh := (List.range g.n).all fun j =>
            match (g.prev[j]?).join, sks[j]? with
            | some p, some new => (old.shares[p]?).map (·.2) != some new.2
            | _, _ => true
          let vs := (g.vals.filter (·.v != v)) ++ [{ v := v, shares := sks, x := x }]
          ({ s with gens := { g with vals := vs } :: rest }, s!"x={toHex32 x} pk={b01 same} same={b01 same} fresh={b01 fresh}")
    | _, _, _ => (s, "bad-op")
  | ["nrec", v, ids] =>
    if !s.live then (s, "bad-op") else
    match s.gens, v.toNat?, parseIds ids with
    | g :: _, some v, some ids =>
      match g.vals.find? (·.v == v) with
      | none => (s, "bad-op")
      | some vs =>
        match ids.mapM fun i => (vs.shares.find? (·.1 == i)) with
        | none => (s, "bad-op")
        | some pts =>
          if pts.isEmpty || !(ids.Nodup) then (s, "err") else
          let y := lagrangeAt0 pts
          (s, s!"{toHex32 y} rpk={b01 (y == vs.x)}")
    | _, _, _ => (s, "bad-op")
  | ["nsig", v, ids, _msg] =>
    if !s.live then (s, "bad-op") else
    match s.gens, v.toNat?, parseIds ids with
    | g :: _, some v, some ids =>
      match g.vals.find? (·.v == v) with
      | none => (s, "bad-op")
      | some vs =>
        match ids.mapM fun i => (vs.shares.find? (·.1 == i)) with
        | none => (s, "bad-op")
        | some pts =>
          if pts.isEmpty || !(ids.Nodup) then (s, "err") else
          let ok := b01 (lagrangeAt0 pts == vs.x)
          (s, s!"agg={ok} ver={ok}")
    | _, _, _ => (s, "bad-op")
  | ["part", j] =>
    if !s.live then (s, "bad-op") else
    match s.gens, j.toNat? with
    | g :: _, some j => if j < g.n then (s, partStr s g j) else (s, "bad-op")
    | _, _ => (s, "bad-op")
  | _ => (s, "bad-op")

end Driver.DkgRun

def main : IO Unit := Driver.runLoop Driver.DkgRun.step {}
