/-
Line driver for the `dkgrun` stream of C11 (`drive-dkgrun`): the glue model `Model/DkgGlue.lean`
over *symbolic* cryptography, plus the scalar model `Model/Fr.lean` for the secret shares.

Symbolic values: `g<k>` group key of validator `k`; `s<j>.<k>` public share of share index `j` for
validator `k` (= public key of node `j`'s secret share); a signature is "made by share (j,k) over m",
"the group signature of validator k over m", "the plain aggregate of the shares' signatures over m"
or junk. `verify` accepts exactly the signature the key produces (BLS signatures are unique),
`thresholdAgg` of ≥ t correctly indexed partials of one validator over one message is the group
signature (C08 `threshold_aggregate`), anything else is junk.

ops (see `harness/cmd/drive-dkgrun/main.go`):
  run <n> <t> <v> <alg> <amts|-> <ver> <flags> <sched>  -> ok | err
  val <k> <j:sk,..>                                      -> x=<group secret> pk=1 | not_shamir | …
  rec <k> <ids>                                          -> <recovered> rpk=b
  sig <k> <ids> <msg>                                    -> agg=b ver=b
  art <j>                                                -> canonical artifacts of node j
  cdv <j> <ddspec> <regs>                                -> ok <validators> | err noreg | err nodd
  agg <kind> <j> <data>                                  -> ok … | err <class>
  xnew | xinj <r> <a> <c> <tau> <ks> <g|b> | xrun <tau>
-/
import CharonV.Model.Fr
import CharonV.Model.DkgGlue
import Driver.Common

open CharonV.Fr CharonV.DkgGlue

namespace Driver.DkgRun

/-! ### symbolic cryptography -/

inductive SPK where
  | group (k : Nat)
  | share (j k : Nat)
  | foreign
  deriving DecidableEq, Repr

structure SSK where
  j : Nat
  k : Nat
  deriving DecidableEq, Repr

inductive SMsg where
  | lock
  | dep (pk : SPK) (wd amount : Nat)
  | reg (pk : SPK) (fee gas : Nat)
  deriving DecidableEq, Repr

inductive SSig where
  | part (j k : Nat) (m : SMsg)
  | grp (k : Nat) (m : SMsg)
  | multi (parts : List (Nat × Nat)) (m : SMsg)
  | junk
  deriving DecidableEq, Repr

def pairLe (a b : Nat × Nat) : Bool := a.1 < b.1 || (a.1 == b.1 && a.2 ≤ b.2)

def insertPair (x : Nat × Nat) : List (Nat × Nat) → List (Nat × Nat)
  | [] => [x]
  | y :: ys => if pairLe x y then x :: y :: ys else y :: insertPair x ys

def sortPairs (xs : List (Nat × Nat)) : List (Nat × Nat) := xs.foldr insertPair []

def symCrypto (t : Nat) : Crypto SPK SSK SSig SMsg where
  pub sk := .share sk.j sk.k
  sign sk m := .part sk.j sk.k m
  verify pk m σ :=
    match pk with
    | .share j k => σ == .part j k m
    | .group k => σ == .grp k m
    | .foreign => false
  thresholdAgg l :=
    match l with
    | (_, .part _ k m) :: _ =>
      if l.all (fun e => e.2 == .part e.1 k m) && decide (t ≤ l.length) then .grp k m else .junk
    | _ => .junk
  aggregate sigs :=
    match sigs with
    | .part _ _ m :: _ =>
      match sigs.mapM (fun σ => match σ with | .part j k m' => if m' = m then some (j, k) else none | _ => none) with
      | some ps => .multi (sortPairs ps) m
      | none => .junk
    | _ => .junk
  verifyAgg pks σ m :=
    match pks.mapM (fun p => match p with | .share j k => some (j, k) | _ => none) with
    | some ps => σ == .multi (sortPairs ps) m
    | none => false
  depositRoot d := .dep d.pubKey d.wd d.amount
  regRoot r := .reg r.pubKey r.fee r.gas

/-! ### state -/

structure ValSt where
  v      : Nat
  shares : List (Nat × Nat)
  x      : Nat

structure St where
  n       : Nat := 0
  t       : Nat := 0
  nv      : Nat := 0
  amounts : List Nat := []
  pregen  : Bool := true
  live    : Bool := false
  vals    : List ValSt := []
  ex      : List (ExState SPK SSig) := []

/-- gas limit: a constant of the ceremony (the harness checks the value). -/
def gas : Nat := 0

def b01 (b : Bool) : String := if b then "1" else "0"

def parseIds (s : String) : Option (List Nat) :=
  if s == "-" then some [] else (s.splitOn ",").mapM String.toNat?

def parseSks (s : String) : Option (List (Nat × Nat)) :=
  (s.splitOn ",").mapM fun it =>
    match it.splitOn ":" with
    | [a, h] => match a.toNat?, ofHex? h with
      | some j, some v => if h.length == 64 then some (j, v) else none
      | _, _ => none
    | _ => none

/-- output check of one validator: ids 1..n, reduced scalars, the `n` shares lie on one polynomial of
degree `< t`; returns the group secret. -/
def checkOut (n t : Nat) (sks : List (Nat × Nat)) : Except String Nat := do
  let ids := (List.range n).map (· + 1)
  if sks.map (·.1) != ids then throw "bad_share_ids"
  if sks.any (·.2 ≥ r) then throw "share_not_reduced"
  if !degreeLt t sks then throw "not_shamir"
  return lagrangeAt0 (sks.take t)

def insertStr (x : String) : List String → List String
  | [] => [x]
  | y :: ys => if x ≤ y then x :: y :: ys else y :: insertStr x ys

def sortStr (xs : List String) : List String := xs.foldr insertStr []

def join (sep : String) (xs : List String) : String := sep.intercalate xs

/-- minor version of `v1.<minor>.<patch>`. -/
def minorOf (ver : String) : Option Nat :=
  match ver.splitOn "." with
  | ["v1", m, _] => m.toNat?
  | _ => none

def dedupSorted (xs : List Nat) : List Nat := sortNat xs.eraseDups

/-! ### the symbolic ceremony output -/

/-- shares of the node with share index `idx`; the public-share map is handed over in descending
index order (any order must do). -/
def sharesOf (s : St) (idx : Nat) : List (Share SPK SSK) :=
  (List.range s.nv).map fun k =>
    { pubKey := .group k, secret := ⟨idx, k⟩,
      pubShares := ((List.range s.n).map fun i => (i + 1, SPK.share (i + 1) k)).reverse }

def wds (s : St) : List Nat := List.range s.nv
def fees (s : St) : List Nat := List.range s.nv

def peerMap (s : St) : List (Nat × Nat) := (List.range s.n).map fun i => (i, i + 1)

/-- the message the partials of validator `k` are over for a sigType; `none` for no kind. -/
def tauMsg (s : St) (tau k : Nat) : Option SMsg :=
  if tau == sigLock then some .lock
  else if tau == sigValidatorRegistration then some (.reg (.group k) k gas)
  else if tau ≥ sigDepositData then (s.amounts[tau - sigDepositData]?).map fun a => .dep (.group k) k a
  else none

/-- the genuine set of the node with share index `idx` for a sigType. -/
def genuineSet (s : St) (idx tau : Nat) : Option (List (SPK × ParSig SSig)) :=
  let C := symCrypto s.t
  if tau == sigLock then some (signLockHash C idx (sharesOf s idx) .lock)
  else if tau == sigValidatorRegistration then (signRegs C (sharesOf s idx) idx (fees s) gas).map (·.1)
  else if tau ≥ sigDepositData then
    match s.amounts[tau - sigDepositData]? with
    | some a => (signDepositMsgs C (sharesOf s idx) idx (wds s) a).map (·.1)
    | none => none
  else none

/-- node `j` (0-based) stores its own set and receives everyone else's (ascending peer index). -/
def exchangeAt (s : St) (st : ExState SPK SSig) (j tau : Nat) : ExState SPK SSig :=
  match genuineSet s (j + 1) tau with
  | none => st
  | some own =>
    let st := storeExternal s.n st tau own
    (List.range s.n).foldl (fun st a =>
      if a == j then st else
      match genuineSet s (a + 1) tau with
      | some set => (recv s.n (peerMap s) st a tau set).1
      | none => st) st

/-! ### rendering -/

def pkId (s : St) : SPK → String
  | .group k => if k < s.nv then s!"g{k}" else "?"
  | .share j k => if 1 ≤ j && j ≤ s.n && k < s.nv then s!"s{j}.{k}" else "?"
  | .foreign => "?"

def wcId (s : St) (w : Nat) : String := if w < s.nv then s!"w{w}" else "?"
def feeId (s : St) (f : Nat) : String := if f < s.nv then s!"f{f}" else "?"

def depSigId (s : St) : SSig → String
  | .grp k (.dep (.group k') w a) => if k == k' && k == w && k < s.nv && s.amounts.contains a then s!"D{k}.{a}" else "?"
  | _ => "?"

def regSigId (s : St) : SSig → String
  | .grp k (.reg (.group k') f g) => if k == k' && k == f && g == gas && k < s.nv then s!"R{k}" else "?"
  | _ => "?"

def ddStr (s : St) (d : DepositData SPK SSig) : String :=
  s!"{d.amount}:{pkId s d.pubKey}:{wcId s d.wd}:{depSigId s d.sig}"

def regStr (s : St) (r : Registration SPK SSig) : String :=
  s!"{pkId s r.pubKey}:{feeId s r.fee}:{regSigId s r.sig}"

def dvStr (s : St) (k : Nat) (v : DistValidator SPK SSig) : String :=
  let reg := match v.reg with | none => "-" | some r => regStr s r
  s!"V{k} pk={pkId s v.pubKey} ps={join "," (v.pubShares.map (pkId s))} dd={join "," (v.deposits.map (ddStr s))} reg={reg}"

def dvsStr (s : St) (vs : List (DistValidator SPK SSig)) : String :=
  if vs.isEmpty then "-" else join " | " ((List.range vs.length).filterMap fun k => (vs[k]?).map (dvStr s k))

def errStr : Err → String
  | .nomsg => "nomsg" | .nopk => "nopk" | .noshare => "noshare" | .badpartial => "badpartial"
  | .badagg => "badagg" | .noreg => "noreg" | .nodd => "nodd" | .badmulti => "badmulti" | .threshold => "threshold"
  | .panic => "panic" | .timeout => "timeout"

/-! ### the whole glue at node `j`, as `dkg.Run` chains it -/

structure Artifacts where
  vals  : List (DistValidator SPK SSig)
  agg   : Bool
  ks    : List SSK
  files : List (List (DepositData SPK SSig))

def nodeRun (s : St) (j : Nat) : Except String Artifacts := do
  let C := symCrypto s.t
  let shares := sharesOf s (j + 1)
  -- what the exchanges return at node j (exchanger model: own set, then every peer's)
  let exchDep ← (List.range s.amounts.length).mapM fun i =>
    match query (exchangeAt s {} j (sigDepositData + i)) (sigDepositData + i) s.nv with
    | some d => pure d
    | none => throw "deposit:exchange"
  let exchReg ← match query (exchangeAt s {} j sigValidatorRegistration) sigValidatorRegistration s.nv with
    | some d => pure d
    | none => throw "reg:exchange"
  -- signAndAggDepositData (kept for the deposit-data files), then the lock's validators
  let dds ← match signAndAggDepositData C shares (j + 1) (wds s) s.amounts exchDep with
    | .ok d => pure d
    | .error e => throw ("deposit:" ++ errStr e)
  let vals ← match lockValidators C shares (j + 1) (wds s) (fees s) gas s.amounts s.pregen exchDep exchReg with
    | .ok v => pure v
    | .error e => throw ("lock:" ++ errStr e)
  let agg ← match query (exchangeAt s {} j sigLock) sigLock s.nv with
    | some data =>
      match lockFromAgg C data shares .lock with
      | .ok σ => pure (σ == .multi (sortPairs ((List.range s.n).flatMap fun i => (List.range s.nv).map fun k => (i + 1, k))) .lock)
      | .error e => throw ("lockhash:" ++ errStr e)
    | none => throw "lockhash:exchange"
  return { vals := vals, agg := agg, ks := keystore shares, files := dds }

def artStr (s : St) (j : Nat) : String :=
  match nodeRun s j with
  | .error e => "model-error " ++ e
  | .ok a =>
    let ns := if s.pregen then join "," ((List.range s.n).map fun i => s!"N{i}") else "-"
    let ks := join "," (a.ks.map fun sk => pkId s (.share sk.j sk.k))
    let files := join ";" (a.files.map fun f => join "," (sortStr (f.map (ddStr s))))
    s!"nv={a.vals.length} h=1 agg={b01 a.agg} ns={ns} || {dvsStr s a.vals} || ks={ks} || files={files}"

/-! ### parsing of the symbolic partial signatures -/

def parseMsg (s : St) (m : String) : Option SMsg :=
  if m == "L" then some .lock
  else if m.startsWith "R" then (m.drop 1).toNat?.map fun k => .reg (.group k) k gas
  else if m.startsWith "D" then
    match (m.drop 1).toString.splitOn "-" with
    | [k, i] => match k.toNat?, i.toNat? with
      | some k, some i => (s.amounts[i]?).map fun a => .dep (.group k) k a
      | _, _ => none
    | _ => none
  else none

def parseEnt (s : St) (e : String) : Option (ParSig SSig) :=
  match e.splitOn "=" with
  | [idx, rhs] =>
    match rhs.splitOn "/" with
    | [sg, v, m] =>
      match idx.toNat?, sg.toNat?, v.toNat?, parseMsg s m with
      | some idx, some sg, some v, some m => some ⟨.part sg v m, idx⟩
      | _, _, _, _ => none
    | _ => none
  | _ => none

def parseData (s : St) (d : String) : Option (List (SPK × List (ParSig SSig))) :=
  if d == "-" then some [] else
  (d.splitOn ";").mapM fun part =>
    match part.splitOn ":" with
    | [key, ents] =>
      let pk : Option SPK := if key == "x" then some .foreign else key.toNat?.map .group
      let es : Option (List (ParSig SSig)) := if ents.isEmpty then some [] else (ents.splitOn ",").mapM (parseEnt s)
      match pk, es with
      | some pk, some es => some (pk, es)
      | _, _ => none
    | _ => none

/-- `i:k,k;i:k,k` -/
def parseDDSpec (s : St) (d : String) : Option (List (List (DepositData SPK SSig))) :=
  if d == "-" then some [] else
  (d.splitOn ";").mapM fun part =>
    match part.splitOn ":" with
    | [i, ks] =>
      match i.toNat?, parseIds ks with
      | some i, some ks =>
        (s.amounts[i]?).map fun a => ks.map fun k => ⟨.group k, k, a, .grp k (.dep (.group k) k a)⟩
      | _, _ => none
    | _ => none

def validCfg (n t nv : Nat) (alg : String) (amts : List Nat) (ver : String) (comp : Bool) : Bool :=
  match minorOf ver with
  | none => false
  | some m =>
    let maxA := if comp then 2048 else 32
    checkThreshold t n && nv ≥ 1 && n ≥ 1 &&
    (alg == "default" || alg == "frost" || alg == "pedersen") &&
    6 ≤ m && m ≤ 11 &&
    (!comp || 10 ≤ m) &&
    (amts.length ≤ 1 || 8 ≤ m) &&
    (amts.isEmpty || (amts.all (fun a => 1 ≤ a && a ≤ maxA) && amts.foldl (· + ·) 0 ≥ 32))

def amountsOf (amts : List Nat) (m : Nat) (comp : Bool) : List Nat :=
  if m < 8 then [32]
  else if amts.isEmpty then (if comp then [1, 8, 32, 256] else [1, 32])
  else dedupSorted amts

def step (s : St) (line : String) : St × String :=
  match line.splitOn " " with
  | ["run", n, t, nv, alg, amts, ver, flags, _sched] =>
    match n.toNat?, t.toNat?, nv.toNat?, parseIds amts with
    | some n, some t, some nv, some amts =>
      let comp := flags.contains 'c'
      if !validCfg n t nv alg amts ver comp then ({ s with live := false, vals := [], ex := [] }, "err")
      else
        let m := (minorOf ver).getD 0
        ({ n := n, t := t, nv := nv, amounts := amountsOf amts m comp, pregen := 7 ≤ m, live := true,
           ex := (List.range n).map fun _ => {} }, "ok")
    | _, _, _, _ => (s, "bad-op")
  | ["val", v, sks] =>
    if !s.live then (s, "bad-op") else
    match v.toNat?, parseSks sks with
    | some v, some sks =>
      match checkOut s.n s.t sks with
      | .error e => (s, e)
      | .ok x =>
        let vs := (s.vals.filter (·.v != v)) ++ [{ v := v, shares := sks, x := x }]
        ({ s with vals := vs }, s!"x={toHex32 x} pk=1")
    | _, _ => (s, "bad-op")
  | ["rec", v, ids] =>
    if !s.live then (s, "bad-op") else
    match v.toNat?, parseIds ids with
    | some v, some ids =>
      match s.vals.find? (·.v == v) with
      | none => (s, "bad-op")
      | some vs =>
        match ids.mapM fun i => (vs.shares.find? (·.1 == i)) with
        | none => (s, "bad-op")
        | some pts =>
          if pts.isEmpty || !(ids.Nodup) then (s, "err") else
          let y := lagrangeAt0 pts
          (s, s!"{toHex32 y} rpk={b01 (y == vs.x)}")
    | _, _ => (s, "bad-op")
  | ["sig", v, ids, _msg] =>
    if !s.live then (s, "bad-op") else
    match v.toNat?, parseIds ids with
    | some v, some ids =>
      match s.vals.find? (·.v == v) with
      | none => (s, "bad-op")
      | some vs =>
        match ids.mapM fun i => (vs.shares.find? (·.1 == i)) with
        | none => (s, "bad-op")
        | some pts =>
          if pts.isEmpty || !(ids.Nodup) then (s, "err") else
          let ok := b01 (lagrangeAt0 pts == vs.x)
          (s, s!"agg={ok} ver={ok}")
    | _, _ => (s, "bad-op")
  | ["art", j] =>
    if !s.live then (s, "bad-op") else
    match j.toNat? with
    | some j => if j < s.n then (s, artStr s j) else (s, "bad-op")
    | none => (s, "bad-op")
  | ["cdv", j, dd, regs] =>
    if !s.live then (s, "bad-op") else
    match j.toNat?, parseDDSpec s dd, parseIds regs with
    | some j, some dds, some rs =>
      let regs : List (Registration SPK SSig) := rs.map fun k => ⟨.group k, k, gas, .grp k (.reg (.group k) k gas)⟩
      match createDistValidators (sharesOf s (j + 1)) dds regs with
      | .ok vs => (s, "ok " ++ dvsStr s vs)
      | .error e => (s, "err " ++ errStr e)
    | _, _, _ => (s, "bad-op")
  | ["agg", kind, j, data] =>
    if !s.live then (s, "bad-op") else
    match j.toNat?, parseData s data with
    | some j, some data =>
      let C := symCrypto s.t
      let shares := sharesOf s (j + 1)
      if kind == "L" then
        match aggLockHashSig C data (pubkeyToShares shares) .lock with
        | .error e => (s, "err " ++ errStr e)
        | .ok (σ, pks) =>
          let ok := C.verifyAgg pks σ .lock
          (s, s!"ok pks={join "," (sortStr (pks.map (pkId s)))} sig={b01 ok}")
      else if kind == "R" then
        match signRegs C shares (j + 1) (fees s) gas with
        | none => (s, "bad-op")
        | some (_, msgs) =>
          match aggRegs C data shares msgs with
          | .error e => (s, "err " ++ errStr e)
          | .ok rs => (s, "ok " ++ join "," (sortStr (rs.map (regStr s))))
      else if kind.startsWith "D" then
        match (kind.drop 1).toNat? with
        | none => (s, "bad-op")
        | some i =>
          match s.amounts[i]? with
          | none => (s, "bad-op")
          | some a =>
            match signDepositMsgs C shares (j + 1) (wds s) a with
            | none => (s, "bad-op")
            | some (_, msgs) =>
              match aggDepositData C data shares msgs with
              | .error e => (s, "err " ++ errStr e)
              | .ok ds => (s, "ok " ++ join "," (sortStr (ds.map (ddStr s))))
      else (s, "bad-op")
    | _, _ => (s, "bad-op")
  | ["xnew"] =>
    if !s.live then (s, "bad-op") else
    ({ s with ex := (List.range s.n).map fun _ => {} }, "ok")
  | ["xinj", r, a, c, tau, ks, variant] =>
    if !s.live then (s, "bad-op") else
    match r.toNat?, a.toNat?, c.toNat?, tau.toNat?, parseIds ks with
    | some r, some a, some c, some tau, some ks =>
      match s.ex[r]? with
      | none => (s, "bad-op")
      | some st =>
        let set : List (SPK × ParSig SSig) := ks.map fun k =>
          let m := (tauMsg s tau k).getD .lock
          let m := if variant == "b" then (if m == .lock then .reg (.group k) k gas else .lock) else m
          (.group k, ⟨.part (a + 1) k m, c⟩)
        let (st', acc) := recv s.n (peerMap s) st a tau set
        ({ s with ex := s.ex.set r st' }, if acc then "ok" else "refused")
    | _, _, _, _, _ => (s, "bad-op")
  | ["xrun", tau] =>
    if !s.live then (s, "bad-op") else
    match tau.toNat? with
    | some tau =>
      if s.ex.length != s.n || (tauMsg s tau 0).isNone then (s, "bad-op") else
      let ex' := (List.range s.n).map fun j => exchangeAt s (s.ex[j]?.getD {}) j tau
      let outs := ex'.map fun st =>
        match query st tau s.nv with
        | none => "err"
        | some data =>
          join ";" ((List.range s.nv).map fun k =>
            let l := (get? data (SPK.group k)).getD []
            let es := l.map fun p =>
              let id := match p.sig with
                | .part j' k' m => if k' == k && some m == tauMsg s tau k && 1 ≤ j' && j' ≤ s.n then s!"p{j'}" else "?"
                | _ => "?"
              s!"{p.shareIdx}={id}"
            s!"{k}:{join "," (sortStr es)}")
      ({ s with ex := ex' }, join " | " outs)
    | none => (s, "bad-op")
  | _ => (s, "bad-op")

end Driver.DkgRun

def main : IO Unit := Driver.runLoop Driver.DkgRun.step {}
