import CharonV.Model.Heap
import Driver.Common

/-!
Line driver for C18 (`drv-heap`): executes the op stream of `harness/cmd/drive-alias` on the heap
model under the implementation's port table `portTable implFixes`.

ops:
  cfg asis | cfg <b1>…<b5>           -> ok                       which proposed fixes the tree under test has (asis = `implFixes`;
                                                                  bits: awaitAtt awaitPro awaitContrib schedResolve cacheClone); also resets
  new <label…>                        -> ok                       fresh heap, no holders
  alloc <h> <shape> [tag]             -> sh[]                     holder h builds a new value; shape = parenthesised forest or `-`
  pass <port> <src> <dst> <ref> [h]   -> sh[ids] eq|ne|-          value of src through port to dst; ids = visible holders sharing
                                                                  memory with dst; eq/ne: dst's value vs the pristine value of ref;
                                                                  trailing `h`: dst is hidden (component state the harness cannot see) -> ok
  passw <port> <src> <dst>            -> sh[ids] chg[ids]         as pass, then the receiving component writes into what it got
  mut <h> <i>                         -> chg[ids]                 h mutates its i-th reachable cell; ids = visible holders whose value
                                                                  differs from their pristine value
  mutall <h>                          -> chg[ids]
  drop <h>                            -> ok
-/

open CharonV.Heap

namespace Driver.Heap

structure Meta where
  id : Nat
  hidden : Bool
  pristine : Option VTree

structure DState where
  fx : Fixes := implFixes
  st : State := {}
  metas : List Meta := []
  tick : Nat := 1

/-- parse a parenthesised forest: F ::= ε | '(' F ')' F -/
partial def parseForest (cs : List Char) : Option (Tree × List Char) :=
  match cs with
  | '(' :: r =>
    match parseForest r with
    | some (k, ')' :: r2) =>
      match parseForest r2 with
      | some (s, r3) => some (.node 0 k s, r3)
      | none => none
    | _ => none
  | _ => some (.nil, cs)

def parseShape (s : String) : Option Tree :=
  if s == "-" then some .nil else
  match parseForest s.toList with
  | some (t, []) => some t
  | _ => none

def tbl (fx : Fixes) : Port → Mode := modeOf (portTable fx)

def knownPort (fx : Fixes) (p : Port) : Bool := (portTable fx).any (fun r => portName r.1 r.2.1 == p)

def parseFixes (s : String) : Option Fixes :=
  if s == "asis" then some implFixes else
  match s.toList with
  | [a, b, c, d, e] =>
    if [a, b, c, d, e].all (fun x => x == '0' || x == '1') then
      some ⟨a == '1', b == '1', c == '1', d == '1', e == '1'⟩
    else none
  | _ => none

def setMeta (d : DState) (g : Nat) (hidden : Bool) : DState :=
  let m : Meta := { id := g, hidden := hidden, pristine := observe d.st g }
  { d with metas := m :: d.metas.filter (fun x => x.id != g) }

def insertSorted (x : Nat) : List Nat → List Nat
  | [] => [x]
  | y :: ys => if x < y then x :: y :: ys else y :: insertSorted x ys

def sortNat (xs : List Nat) : List Nat := xs.foldl (fun acc x => insertSorted x acc) []

def ids (xs : List Nat) : String := "[" ++ Driver.joinWith "," ((sortNat xs).map toString) ++ "]"

def visible (d : DState) : List Meta := d.metas.filter (fun m => !m.hidden)

def sharers (d : DState) (g : Nat) : List Nat :=
  match lookup g d.st.holders with
  | none => []
  | some t =>
    (visible d).filterMap (fun m =>
      if m.id == g then none else
      match lookup m.id d.st.holders with
      | some u => if sharesMem t u then some m.id else none
      | none => none)

def changed (d : DState) : List Nat :=
  (visible d).filterMap (fun m => if observe d.st m.id != m.pristine then some m.id else none)

def hasHolder (d : DState) (g : Nat) : Bool := (lookup g d.st.holders).isSome

def doPass (d : DState) (port : String) (src dst : Nat) (hidden : Bool) : DState :=
  let st := step (tbl d.fx) d.st (.pass port src dst)
  setMeta { d with st := st } dst hidden

def step (d : DState) (line : String) : DState × String :=
  match line.splitOn " " with
  | ["cfg", b] =>
    match parseFixes b with
    | some fx => ({ fx := fx }, "ok")
    | none => (d, "bad-op")
  | "new" :: _ => ({ fx := d.fx }, "ok")
  | "alloc" :: h :: shape :: _ =>
    match h.toNat?, parseShape shape with
    | some g, some t =>
      let st := CharonV.Heap.step (tbl d.fx) d.st (.alloc g t)
      let d' := setMeta { d with st := st } g false
      (d', "sh" ++ ids (sharers d' g))
    | _, _ => (d, "bad-op")
  | "pass" :: port :: src :: dst :: ref :: rest =>
    match src.toNat?, dst.toNat? with
    | some s, some g =>
      if !knownPort d.fx port || !hasHolder d s then (d, "bad-op") else
      let hidden := rest == ["h"]
      let d' := doPass d port s g hidden
      if hidden then (d', "ok") else
      let cmp :=
        if ref == "-" then "-" else
        match ref.toNat? with
        | none => "?"
        | some r =>
          match d.metas.find? (fun m => m.id == r) with
          | none => "?"
          | some m => if observe d'.st g == m.pristine then "eq" else "ne"
      if cmp == "?" then (d, "bad-op") else
      (d', "sh" ++ ids (sharers d' g) ++ " " ++ cmp)
    | _, _ => (d, "bad-op")
  | ["passw", port, src, dst] =>
    match src.toNat?, dst.toNat? with
    | some s, some g =>
      if !knownPort d.fx port || !hasHolder d s then (d, "bad-op") else
      let d1 := doPass d port s g false
      let st2 := CharonV.Heap.step (tbl d.fx) d1.st (.mutCell g 0 d1.tick)
      let d2 := setMeta { d1 with st := st2, tick := d1.tick + 1 } g false
      (d2, "sh" ++ ids (sharers d2 g) ++ " chg" ++ ids (changed d2))
    | _, _ => (d, "bad-op")
  | ["mut", h, i] =>
    match h.toNat?, i.toNat? with
    | some g, some k =>
      if !hasHolder d g then (d, "bad-op") else
      let st := CharonV.Heap.step (tbl d.fx) d.st (.mutCell g k d.tick)
      let d' := { d with st := st, tick := d.tick + 1 }
      (d', "chg" ++ ids (changed d'))
    | _, _ => (d, "bad-op")
  | ["mutall", h] =>
    match h.toNat? with
    | some g =>
      if !hasHolder d g then (d, "bad-op") else
      let st := CharonV.Heap.step (tbl d.fx) d.st (.mutAll g d.tick)
      let d' := { d with st := st, tick := d.tick + 1 }
      (d', "chg" ++ ids (changed d'))
    | none => (d, "bad-op")
  | ["drop", h] =>
    match h.toNat? with
    | some g =>
      let st := CharonV.Heap.step (tbl d.fx) d.st (.drop g)
      ({ d with st := st, metas := d.metas.filter (fun m => m.id != g) }, "ok")
    | none => (d, "bad-op")
  | _ => (d, "bad-op")

end Driver.Heap

def main : IO Unit := Driver.runLoop Driver.Heap.step {}
