/-
Line driver for the C13 model (`CharonV.Model.Bcast`), symbolic crypto `symC`.

ops (hex strings, `-` = empty):
  new <n> <sessA> <sessB> <faulty> <app>   two worlds (0: sessA, 1: sessB), same peers 0..n-1, empty pool
                                          (<faulty> bitmask and <app> mode only concern the Go side's monitors/callbacks)
  reg <w> <m> <id>                        RegisterMessageIDFuncs at member m of world w
  sreq <w> <m> <from> <id> <pay>          handleSigRequest at m with transport identity `from`
  sreq2 <w> <m> <from> <id> <payA> <payB> <ab|ba>
                                          two overlapping signature requests of one requester and id. The model's
                                          handler is atomic, so the admissible outcomes are the two sequential
                                          orders; the last token (written by the Go driver from what it observed)
                                          says which one to run. Anything else the implementation does is a diff.
  msg <w> <m> <from> <id> <pay> <sigs>    handleMessage at m with transport identity `from`
  bc <w> <a> <id> <pay> <ov>              client a calls Broadcast; honest transport except overrides
  hash <sess> <id> <typeUrl> <value>      SHA-256 of the model's hash-input encoding
pay  = <typeUrlHex>:<valueHex>:<um><ck><bd>   um: Any.UnmarshalNew ok, ck: CheckMessage ok,
        bd: callback accepts from `*` anybody / `x` nobody / digit = that peer only
sigs = `-` | comma list of p<k> (pool entry) | v<k> (pool entry, recovery id written as 27/28) | g<k> (valid signature of key k over this very
        message) | j (65 junk bytes) | s (short)
ov   = one char per peer: h handler runs | j answers junk | e transport error | g answers with a
        valid signature without running the handler | . (self)
-/
import CharonV.Model.Bcast
import Driver.Common

open CharonV.Bcast

namespace Driver.Bcast

/-! ### SHA-256 (core Lean), only used to tie `encode` to Go's `newHashAny` bit-for-bit -/

def kTab : Array UInt32 := #[
  0x428a2f98, 0x71374491, 0xb5c0fbcf, 0xe9b5dba5, 0x3956c25b, 0x59f111f1, 0x923f82a4, 0xab1c5ed5,
  0xd807aa98, 0x12835b01, 0x243185be, 0x550c7dc3, 0x72be5d74, 0x80deb1fe, 0x9bdc06a7, 0xc19bf174,
  0xe49b69c1, 0xefbe4786, 0x0fc19dc6, 0x240ca1cc, 0x2de92c6f, 0x4a7484aa, 0x5cb0a9dc, 0x76f988da,
  0x983e5152, 0xa831c66d, 0xb00327c8, 0xbf597fc7, 0xc6e00bf3, 0xd5a79147, 0x06ca6351, 0x14292967,
  0x27b70a85, 0x2e1b2138, 0x4d2c6dfc, 0x53380d13, 0x650a7354, 0x766a0abb, 0x81c2c92e, 0x92722c85,
  0xa2bfe8a1, 0xa81a664b, 0xc24b8b70, 0xc76c51a3, 0xd192e819, 0xd6990624, 0xf40e3585, 0x106aa070,
  0x19a4c116, 0x1e376c08, 0x2748774c, 0x34b0bcb5, 0x391c0cb3, 0x4ed8aa4a, 0x5b9cca4f, 0x682e6ff3,
  0x748f82ee, 0x78a5636f, 0x84c87814, 0x8cc70208, 0x90befffa, 0xa4506ceb, 0xbef9a3f7, 0xc67178f2]

def h0Tab : Array UInt32 := #[
  0x6a09e667, 0xbb67ae85, 0x3c6ef372, 0xa54ff53a, 0x510e527f, 0x9b05688c, 0x1f83d9ab, 0x5be0cd19]

@[inline] def rotr (x : UInt32) (n : UInt32) : UInt32 := (x >>> n) ||| (x <<< (32 - n))

def sha256 (msg : List Nat) : List Nat := Id.run do
  let len := msg.length
  let padLen := (119 - len % 64) % 64   -- zeros after 0x80 so that total ≡ 56 mod 64
  let bits := len * 8
  let lenBytes : List Nat := (List.range 8).map fun i => (bits >>> (8 * (7 - i))) % 256
  let data : Array Nat := (msg ++ [0x80] ++ List.replicate padLen 0 ++ lenBytes).toArray
  let mut h := h0Tab
  for blk in [0:data.size / 64] do
    let mut w : Array UInt32 := Array.replicate 64 0
    for i in [0:16] do
      let b := blk * 64 + i * 4
      let v : Nat := data[b]! * 16777216 + data[b+1]! * 65536 + data[b+2]! * 256 + data[b+3]!
      w := w.set! i v.toUInt32
    for i in [16:64] do
      let x15 := w[i-15]!
      let x2 := w[i-2]!
      let s0 := rotr x15 7 ^^^ rotr x15 18 ^^^ (x15 >>> 3)
      let s1 := rotr x2 17 ^^^ rotr x2 19 ^^^ (x2 >>> 10)
      w := w.set! i (w[i-16]! + s0 + w[i-7]! + s1)
    let mut a := h[0]!
    let mut b := h[1]!
    let mut c := h[2]!
    let mut d := h[3]!
    let mut e := h[4]!
    let mut f := h[5]!
    let mut g := h[6]!
    let mut hh := h[7]!
    for i in [0:64] do
      let s1 := rotr e 6 ^^^ rotr e 11 ^^^ rotr e 25
      let ch := (e &&& f) ^^^ ((~~~ e) &&& g)
      let t1 := hh + s1 + ch + kTab[i]! + w[i]!
      let s0 := rotr a 2 ^^^ rotr a 13 ^^^ rotr a 22
      let mj := (a &&& b) ^^^ (a &&& c) ^^^ (b &&& c)
      let t2 := s0 + mj
      hh := g; g := f; f := e; e := d + t1; d := c; c := b; b := a; a := t1 + t2
    h := #[h[0]! + a, h[1]! + b, h[2]! + c, h[3]! + d, h[4]! + e, h[5]! + f, h[6]! + g, h[7]! + hh]
  let mut out : List Nat := []
  for x in h.toList.reverse do
    let n := x.toNat
    out := [n / 16777216 % 256, n / 65536 % 256, n / 256 % 256, n % 256] ++ out
  return out

/-! ### parsing / printing -/

def hexVal (c : Char) : Option Nat :=
  if '0' ≤ c ∧ c ≤ '9' then some (c.toNat - '0'.toNat)
  else if 'a' ≤ c ∧ c ≤ 'f' then some (c.toNat - 'a'.toNat + 10)
  else none

def hexList : List Char → Option (List Nat)
  | [] => some []
  | [_] => none
  | a :: b :: t => do
    let x ← hexVal a
    let y ← hexVal b
    let r ← hexList t
    pure ((x * 16 + y) :: r)

def parseBytes (s : String) : Option Bytes :=
  if s == "-" then some Bytes.empty
  else (hexList s.toList).bind Bytes.ofList?

def hexDigit (n : Nat) : Char := if n < 10 then Char.ofNat (48 + n) else Char.ofNat (87 + n)

def toHex (l : List Nat) : String :=
  String.ofList (l.flatMap fun b => [hexDigit (b / 16 % 16), hexDigit (b % 16)])

structure PayTok where
  pay : Payload
  env : Env

def parsePay (s : String) : Option PayTok :=
  match s.splitOn ":" with
  | [t, v, fl] =>
    match parseBytes t, parseBytes v, fl.toList with
    | some tb, some vb, [um, ck, bd] =>
      let b? : Option (Peer → Bool) :=
        if bd == '*' then some (fun _ => true)
        else if bd == 'x' then some (fun _ => false)
        else (hexVal bd).map fun k => (fun q => q == k)
      match b? with
      | some b =>
        if (um == '0' || um == '1') && (ck == '0' || ck == '1') then
          some ⟨⟨tb, vb⟩, ⟨fun _ _ _ => ck == '1', fun _ => um == '1', fun _ _ q => b q⟩⟩
        else none
      | none => none
    | _, _, _ => none
  | _ => none

structure DState where
  n : Nat := 0
  cfg0 : Cfg := ⟨[], Bytes.empty⟩
  cfg1 : Cfg := ⟨[], Bytes.empty⟩
  w0 : World (List Nat) := {}
  w1 : World (List Nat) := {}
  pool : Array SymSig := #[]

def DState.cfg (d : DState) (w : Nat) : Cfg := if w == 0 then d.cfg0 else d.cfg1
def DState.world (d : DState) (w : Nat) : World (List Nat) := if w == 0 then d.w0 else d.w1
def DState.setWorld (d : DState) (w : Nat) (x : World (List Nat)) : DState :=
  if w == 0 then { d with w0 := x } else { d with w1 := x }

def sigRespStr : SigResp SymSig → String
  | .ok _ => "ok" | .unknownId => "unknown-id" | .checkFail => "check-fail" | .dup => "dup"

def msgRespStr : MsgResp → String
  | .ok => "ok cb=1" | .cbErr => "cb-err cb=0" | .wrongCount => "wrong-count"
  | .notAllowed => "not-allowed" | .badLen => "bad-len" | .badSig => "bad-sig" | .badAny => "bad-any"

def parseSig (d : DState) (cfg : Cfg) (id : Bytes) (P : Payload) (t : String) : Option SymSig :=
  if t == "j" then some .junk
  else if t == "s" then some .short
  else match t.toList with
    | 'p' :: r => (String.ofList r).toNat?.bind fun k => d.pool[k]?
    | 'v' :: r => (String.ofList r).toNat?.bind fun k => d.pool[k]?   -- same signature, V+27 form
    | 'g' :: r => (String.ofList r).toNat?.map fun k => .good k (encode (hinOf cfg.session id P))
    | _ => none

def parseSigs (d : DState) (cfg : Cfg) (id : Bytes) (P : Payload) (s : String) : Option (List SymSig) :=
  if s == "-" then some [] else (s.splitOn ",").mapM (parseSig d cfg id P)

def parseOv (cfg : Cfg) (id : Bytes) (P : Payload) (n : Nat) (s : String) :
    Option (Peer → Option (Option SymSig)) :=
  let cs := s.toList
  if cs.length ≠ n then none
  else if cs.all (fun c => c == 'h' || c == 'j' || c == 'e' || c == 'g' || c == '.') then
    some fun h =>
      match cs[h]? with
      | some 'j' => some (some .junk)
      | some 'e' => some none
      | some 'g' => some (some (.good h (encode (hinOf cfg.session id P))))
      | _ => none
  else none

def step (d : DState) (line : String) : DState × String :=
  match line.splitOn " " with
  | ["new", a, b, c, _, _] =>
    match a.toNat?, parseBytes b, parseBytes c with
    | some n, some sa, some sb =>
      ({ n := n, cfg0 := ⟨List.range n, sa⟩, cfg1 := ⟨List.range n, sb⟩ }, "ok")
    | _, _, _ => (d, "bad-op")
  | ["reg", a, b, c] =>
    match a.toNat?, b.toNat?, parseBytes c with
    | some w, some m, some id =>
      if w > 1 || m ≥ d.n then (d, "bad-op") else
      let E : Env := ⟨fun _ _ _ => true, fun _ => true, fun _ _ _ => true⟩
      let (x, _) := CharonV.Bcast.step symC E (d.cfg w) (d.world w) (.reg m id)
      (d.setWorld w x, "ok")
    | _, _, _ => (d, "bad-op")
  | ["sreq", a, b, c, e, f] =>
    match a.toNat?, b.toNat?, c.toNat?, parseBytes e, parsePay f with
    | some w, some m, some frm, some id, some pt =>
      if w > 1 || m ≥ d.n then (d, "bad-op") else
      let (x, o) := CharonV.Bcast.step symC pt.env (d.cfg w) (d.world w) (.sigReq m frm id pt.pay)
      let d1 := d.setWorld w x
      let dl := ((x.mem m).dedup.length)
      match o with
      | .sig (.ok s) => ({ d1 with pool := d1.pool.push s }, s!"ok s{d1.pool.size} d={dl}")
      | .sig r => (d1, s!"{sigRespStr r} d={dl}")
      | _ => (d1, "?")
    | _, _, _, _, _ => (d, "bad-op")
  | ["sreq2", a, b, c, e, f, g, ord] =>
    match a.toNat?, b.toNat?, c.toNat?, parseBytes e, parsePay f, parsePay g with
    | some w, some m, some frm, some id, some pa, some pb =>
      if w > 1 || m ≥ d.n || !(ord == "ab" || ord == "ba") then (d, "bad-op") else
      let (p1, p2) := if ord == "ab" then (pa, pb) else (pb, pa)
      let (x1, o1) := CharonV.Bcast.step symC p1.env (d.cfg w) (d.world w) (.sigReq m frm id p1.pay)
      let (x2, o2) := CharonV.Bcast.step symC p2.env (d.cfg w) x1 (.sigReq m frm id p2.pay)
      let (oa, ob) := if ord == "ab" then (o1, o2) else (o2, o1)
      let d1 := d.setWorld w x2
      let show1 (dd : DState) (o : Out SymSig) : DState × String :=
        match o with
        | .sig (.ok s) => ({ dd with pool := dd.pool.push s }, s!"ok s{dd.pool.size}")
        | .sig r => (dd, sigRespStr r)
        | _ => (dd, "?")
      let (d2, sa) := show1 d1 oa
      let (d3, sb) := show1 d2 ob
      (d3, s!"{sa} {sb} d={(x2.mem m).dedup.length}")
    | _, _, _, _, _, _ => (d, "bad-op")
  | ["msg", a, b, c, e, f, g] =>
    match a.toNat?, b.toNat?, c.toNat?, parseBytes e, parsePay f with
    | some w, some m, some frm, some id, some pt =>
      if w > 1 || m ≥ d.n then (d, "bad-op") else
      match parseSigs d (d.cfg w) id pt.pay g with
      | none => (d, "bad-op")
      | some sigs =>
        let (x, o) := CharonV.Bcast.step symC pt.env (d.cfg w) (d.world w) (.msg m frm id pt.pay sigs)
        match o with
        | .msg r => (d.setWorld w x, msgRespStr r)
        | _ => (d, "?")
    | _, _, _, _, _ => (d, "bad-op")
  | ["bc", a, b, e, f, g] =>
    match a.toNat?, b.toNat?, parseBytes e, parsePay f with
    | some w, some m, some id, some pt =>
      if w > 1 || m ≥ d.n then (d, "bad-op") else
      match parseOv (d.cfg w) id pt.pay d.n g with
      | none => (d, "bad-op")
      | some ov =>
        let (x, o) := broadcast symC pt.env (d.cfg w) (d.world w) m id pt.pay ov
        let res := match o.res with
          | .ok => "ok" | .signFail => "sign-fail" | .reqFail => "req-fail" | .verifyFail => "verify-fail"
        let reqStr := (List.range d.n).map fun h =>
          if h == m then "." else
          match o.reqs.find? (·.1 == h) with
          | some (_, some r) => sigRespStr r
          | some (_, none) => "o"
          | none => "-"
        let msgStr := (List.range d.n).map fun h =>
          if h == m then "." else
          match o.msgs.find? (·.1 == h) with
          | some (_, some r) => msgRespStr r
          | some (_, none) => "o"
          | none => "-"
        let newSigs : List SymSig := o.reqs.filterMap fun
          | (_, some (.ok s)) => some s
          | _ => none
        let selfSig : List SymSig :=
          if o.res == .ok then (o.sigs[m]?).toList else []
        let pool := (newSigs ++ selfSig).foldl (fun p s => p.push s) d.pool
        ({ d.setWorld w x with pool := pool },
          s!"{res} req={Driver.joinWith "," reqStr} msg={Driver.joinWith "," msgStr} pool={pool.size}")
    | _, _, _, _ => (d, "bad-op")
  | ["hash", a, b, c, e] =>
    match parseBytes a, parseBytes b, parseBytes c, parseBytes e with
    | some s, some i, some t, some v => (d, toHex (sha256 (encode ⟨s, i, t, v⟩)))
    | _, _, _, _ => (d, "bad-op")
  | _ => (d, "bad-op")

end Driver.Bcast

def main : IO Unit := Driver.runLoop Driver.Bcast.step {}
