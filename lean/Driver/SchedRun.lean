import CharonV.Model.SchedRun
import Driver.Common

/-!
Line driver for the `Run` model (C15, stream `schedrun`). Ops (see `harness/cmd/drive-schedrun/main.go`):

  cfg <spe> <durMs> <startMs> <genesisMs> <builder 0|1> <nsubs> <nvals>   new episode: `Run` is called at clock
                                 value startMs; the beacon node reports genesis at genesisMs; nvals active validators
  gen ok|fail                    answer of the pending Genesis call (waitChainStart or newSlotTicker)
  syn ok|syncing|fail            answer of the pending NodeSyncing call
  back <ms>                      the clock steps back (only while Run is in its loop); pending timers keep their deadlines
  adv <ms>                       the clock moves (a jittered backoff sleep must be covered completely, else `ambiguous`)
  hold                           the next validators call of the slot handler blocks until `rel`
  rel                            the blocked validators call returns
  failv <bits>                   the next validators calls fail where the bit is 1
  stop                           Stop()
  regans ok|fail                 the beacon node answers every registration submission in flight

Answer: `<phase> tk=<ticker> t=<slots received> d=<duties triggered slot/type> sub=<subscriber calls>
reg=<waiting>/<in flight>/<submissions so far> re=<resolvedEpoch>` after everything that can run has run.
-/
open CharonV.Sched CharonV.SchedRun

namespace Driver.SchedRun

def ms : Nat := 1000000

structure DState where
  cfg : RCfg := { s := { spe := 1, slotDur := 1, reorgEnabled := false }, builder := false, nsubs := 0 }
  x : St := {}
  nvals : Nat := 0
  failV : List Bool := []
  hold : Bool := false
  parked : Bool := false
  live : Bool := false

def failAt (bits : List Bool) (k base : Nat) : Bool := (bits[k - base]?).getD false

/-- the scripted beacon node: validator `i` has pubkey `100 + i` and is active; in epoch `e` it attests in slot
`e*spe + (i+e) % spe`; validator `e % n` proposes in slot `e*spe + (3e) % spe`; validator 0 is in the sync
committee in even epochs. -/
def bnOf (d : DState) : BN where
  vals k _ := if failAt d.failV k d.x.core.sys.st.nv then none
              else some ((List.range d.nvals).map (fun i => some ⟨i, 100 + i, true, 0⟩))
  att _ e _ := some ((List.range d.nvals).map (fun i => some ⟨i, 100 + i, e * d.cfg.s.spe + (i + e) % d.cfg.s.spe, i⟩))
  pro _ e _ := if d.nvals == 0 then some []
               else some [some ⟨e % d.nvals, 100 + e % d.nvals, e * d.cfg.s.spe + (3 * e) % d.cfg.s.spe⟩]
  sync _ e _ := if d.nvals == 0 || e % 2 == 1 then some [] else some [some ⟨0, 100, 7⟩]

/-- upper bounds (ms) of `expbackoff.Backoff(FastConfig, i)` and `Backoff(DefaultConfig, i)` (jitter +20 %). -/
def fastHi : List Nat := [121, 193, 309, 493, 788, 1260, 2015, 3223, 5156]
def defHi : List Nat := [1201, 1921, 3073, 4917, 7866, 12584, 20134, 32214, 51541, 82465, 131943]

def hiOf (fast : Bool) (i : Nat) : Nat :=
  if fast then (fastHi[i]?).getD 6001 else (defHi[i]?).getD 144001

def insSorted (x : Nat × Nat) : List (Nat × Nat) → List (Nat × Nat)
  | [] => [x]
  | y :: ys => if x.1 < y.1 || (x.1 == y.1 && x.2 < y.2) then x :: y :: ys else y :: insSorted x ys

def sortPairs (l : List (Nat × Nat)) : List (Nat × Nat) := l.foldl (fun acc x => insSorted x acc) []

structure Acc where
  taken : List Nat := []
  trig : List (Nat × Nat) := []
  subs : Nat := 0

def ev (d : DState) (e : CharonV.SchedRun.Ev) : DState := { d with x := CharonV.SchedRun.step (bnOf d) d.cfg d.x e }

/-- first registration goroutine that can run: (index, quit branch?). -/
def regReady (d : DState) : Option (Nat × Bool) :=
  let c := d.x.core
  let rec go (i : Nat) : List Reg → Option (Nat × Bool)
    | [] => none
    | r :: rs =>
      match r.st with
      | .timer t => if t ≤ c.now then some (i, false)
                    else if r.delayed && c.stopped then some (i, true) else go (i + 1) rs
      | _ => go (i + 1) rs
  go 0 d.x.reg.regs

def settle : Nat → DState → Acc → DState × Acc
  | 0, d, a => (d, a)
  | fuel + 1, d, a =>
    let c := d.x.core
    -- a sleep until genesis that is over
    match c.phase with
    | .gSleep _ (some t) => if t ≤ c.now then settle fuel (ev d .wake) a else (d, a)
    | _ =>
    -- the ticker
    let tickable := match c.tk with
      | .wait n => (tickerStep d.cfg.s.slotDur c.since n).isSome
      | _ => false
    if tickable then settle fuel (ev d .tick) a else
    match c.phase with
    | .idle =>
      let offer := match c.tk with | .offer _ => true | _ => false
      if offer || c.stopped then
        let d' := ev d (.take true)
        let newT := d'.x.core.taken.drop c.taken.length
        settle fuel d' { a with taken := a.taken ++ newT, subs := a.subs + (d'.x.core.subCalls.length - c.subCalls.length) }
      else regs fuel d a
    | .busy s =>
      if d.parked then regs fuel d a else
      let r := Sys.tick (bnOf d) d.cfg.s c.sys s (s + 1)
      if d.hold && r.1.st.nv > c.sys.st.nv then regs fuel { d with hold := false, parked := true } a
      else
        let d' := ev d .done
        let used := r.1.st.nv - c.sys.st.nv
        settle fuel { d' with failV := d'.failV.drop used }
          { a with trig := a.trig ++ r.2.map (fun t => (t.duty.slot, t.duty.ty)) }
    | _ => regs fuel d a
where
  regs (fuel : Nat) (d : DState) (a : Acc) : DState × Acc :=
    match regReady d with
    | some (i, true) => settle fuel (ev d (.regQuit i)) a
    | some (i, false) => settle fuel (ev d (.regTimer i)) a
    | none => (d, a)

def phaseStr (d : DState) : String :=
  match d.x.core.phase with
  | .gCall _ => "G"
  | .gSleep i none => s!"Zgb{min i 8}"
  | .gSleep _ (some _) => "Zgd"
  | .sCall _ => "S"
  | .sSleep i false => s!"Zsf{min i 8}"
  | .sSleep i true => s!"Zsy{min i 10}"
  | .tCall => "T"
  | .idle => "I"
  | .busy s => s!"B{s}"
  | .returned false => "R0"
  | .returned true => "R1"

def tkStr (d : DState) : String :=
  match d.x.core.tk with
  | .off => "-"
  | .wait n => s!"w{n}"
  | .offer _ => "o"
  | .dead => "x"

def lst (l : List String) : String := if l.isEmpty then "-" else Driver.joinWith "," l

def render (d : DState) (a : Acc) : String :=
  let regs := d.x.reg.regs
  let waiting := (regs.filter (fun r => match r.st with | .timer _ => true | _ => false)).length
  let infl := (regs.filter (fun r => r.st == .inflight)).length
  let calls := d.x.reg.calls.length
  let re := if d.x.core.sys.st.resolvedEpoch == maxInt64 then "-" else toString d.x.core.sys.st.resolvedEpoch
  s!"{phaseStr d} tk={tkStr d} t={lst (a.taken.map toString)} d={lst ((sortPairs a.trig).map (fun p => s!"{p.1}/{p.2}"))} sub={a.subs} reg={waiting}/{infl}/{calls} re={re}"

def finish (d : DState) : DState × String :=
  let r := settle 400 d {}
  -- ghost histories of the base model are not needed by the driver
  let x := r.1.x
  let x' : St := { x with core := { x.core with sys := { x.core.sys with hist := [] } } }
  ({ r.1 with x := x' }, render r.1 r.2)

def answerAll (d : DState) (ok : Bool) : DState :=
  let idx := (List.range d.x.reg.regs.length).filter (fun i => match d.x.reg.regs[i]? with
    | some r => r.st == .inflight
    | none => false)
  idx.foldl (fun d i => ev d (.regAns i ok)) d

def bits? (s : String) : Option (List Bool) :=
  s.toList.mapM (fun c => if c == '0' then some false else if c == '1' then some true else none)

def step (d : DState) (line : String) : DState × String :=
  match line.splitOn " " with
  | ["cfg", a, b, c, g, bl, ns, nv] =>
    match a.toNat?, b.toNat?, c.toNat?, g.toNat?, bl.toNat?, ns.toNat?, nv.toNat? with
    | some spe, some dur, some start, some gen, some bl, some ns, some nv =>
      if spe == 0 || dur == 0 then (d, "bad-op") else
      let cfg : RCfg := { s := { spe := spe, slotDur := dur * ms, reorgEnabled := false }, builder := bl != 0, nsubs := ns }
      let x : St := { core := { now := start * ms, genesis := gen * ms } }
      finish { cfg := cfg, x := x, nvals := nv, live := true }
    | _, _, _, _, _, _, _ => (d, "bad-op")
  | ["gen", w] =>
    if !d.live || (w != "ok" && w != "fail") then (d, "bad-op") else
    match d.x.core.phase with
    | .gCall _ | .tCall =>
      -- the scripted node's genesis time is the episode's constant (kept in `core.genesis` from `cfg` on)
      finish (ev d (.genesis (if w == "ok" then some d.x.core.genesis else none)))
    | _ => (d, "bad-op")
  | ["syn", w] =>
    if !d.live then (d, "bad-op") else
    match d.x.core.phase with
    | .sCall _ =>
      if w == "ok" then finish (ev d (.syncing (some false)))
      else if w == "syncing" then finish (ev d (.syncing (some true)))
      else if w == "fail" then finish (ev d (.syncing none))
      else (d, "bad-op")
    | _ => (d, "bad-op")
  | ["adv", a] =>
    match a.toNat? with
    | some n =>
      if !d.live then (d, "bad-op") else
      match d.x.core.phase with
      | .gSleep i none =>
        if n ≥ hiOf true i then finish (ev (ev d (.adv (n * ms))) .wake) else (d, "ambiguous")
      | .sSleep i syncing =>
        if n ≥ hiOf (!syncing) i then finish (ev (ev d (.adv (n * ms))) .wake) else (d, "ambiguous")
      | _ => finish (ev d (.adv (n * ms)))
    | none => (d, "bad-op")
  | ["back", a] =>
    match a.toNat? with
    | some n =>
      if !d.live || n * ms > d.x.core.now then (d, "bad-op") else
      match d.x.core.phase with
      | .idle | .busy _ => finish (ev d (.back (n * ms)))
      | _ => (d, "bad-op")
    | none => (d, "bad-op")
  | ["hold"] => if !d.live || d.hold || d.parked then (d, "bad-op") else finish { d with hold := true }
  | ["rel"] => if !d.live || !d.parked then (d, "bad-op") else finish { d with parked := false }
  | ["failv", b] =>
    match bits? b with
    | some bits => if !d.live then (d, "bad-op") else finish { d with failV := bits }
    | none => (d, "bad-op")
  | ["stop"] => if !d.live || d.x.core.stopped then (d, "bad-op") else finish (ev d .stop)
  | ["regans", w] =>
    if !d.live || (w != "ok" && w != "fail") then (d, "bad-op") else finish (answerAll d (w == "ok"))
  | _ => (d, "bad-op")

end Driver.SchedRun

def main : IO Unit := Driver.runLoop Driver.SchedRun.step {}
