import CharonV.Model.Router
import Driver.Common

/-!
Line driver for the router model (`CharonV.Model.Router` in front of `CharonV.Model.Admit`). Op
syntax: see `harness/cmd/drive-router/main.go`. Everything before ` | ` is the concrete recipe of
the Go driver; the model reads only what follows:

  cfg … | <lock>                     lock := v:idx.key,idx.key;v:…
  rt  … | <route> <method> <ctflags> <hdr|-> <dec> <node> <nsub> <fail|-> <ord|-> <facts|-> <attenv|-> <items|->
            ctflags := three bits: header empty, contains application/json, contains application/octet-stream
            dec     := - | <json|ssz>:<version index|x>:<ok|empty|fail|nossz>   (the harness's own decoding,
                       tagged with the encoding and version it was made for)
            attenv  := slot.commIdx.valIdx.validator,…      (pubKeyByAttestation)
            items   := N | P | S,pre,ci,ai,slot,obj | pre,val|-,gate,slot,subcomm,obj   (`;`-separated)
  pb  … | <paramsOk> <node> <nsub> <facts|-> <item|->

Answer: `<status> <calls|->`. `dec-mismatch`: the model asks the decoder another question than the one
the harness answered. `unmodelled -`: an element the harness itself cannot inspect (`P`).
-/

open CharonV.Admit CharonV.Router

namespace Driver.Router

structure DState where
  lock : List (Validator × List (Int × Key)) := []

def lockFn (l : List (Validator × List (Int × Key))) : Lock := fun v =>
  match l.find? (·.1 = v) with
  | none => none
  | some (_, m) => some (fun i => (m.find? (·.1 = i)).map (·.2))

def optNat (s : String) : Option (Option Nat) :=
  if s == "x" || s == "-" then some none else s.toNat?.map some

def parseBool (s : String) : Option Bool :=
  if s == "1" then some true else if s == "0" then some false else none

def sigTypes : List SigType :=
  [.proposal, .attestation, .exit, .registration, .randao, .bcSelection, .aggProof, .vAggProof,
   .syncMessage, .contribution, .syncSelection, .rawSig]

def domains : List Domain :=
  [.beaconProposer, .beaconAttester, .voluntaryExit, .applicationBuilder, .randao, .selectionProof,
   .aggregateAndProof, .syncCommittee, .contributionAndProof, .syncCommitteeSelectionProof]

def parseObj (s : String) : Option Obj :=
  match s.splitOn ":" with
  | [a, b, c, d, e] => do
    let id ← a.toNat?
    let ty ← b.toNat? >>= (sigTypes[·]?)
    let ep ← optNat c
    let rt ← optNat d
    let sg ← e.toNat?
    pure ⟨id, ty, ep, rt, sg⟩
  | _ => none

def parseList {α : Type} (sep : String) (f : String → Option α) (s : String) : Option (List α) :=
  if s == "-" then some [] else (s.splitOn sep).mapM f

/-- `none`: the uninspectable element `P`. -/
def parseElem (s : String) : Option (Option Elem) :=
  if s == "N" then some (some .nil)
  else if s == "P" then some none
  else match s.splitOn "," with
  | ["S", p, ci, ai, slot, obj] => do
    let p ← parseBool p
    let ci ← ci.toNat?
    let ai ← ai.toNat?
    let slot ← slot.toNat?
    let obj ← parseObj obj
    pure (some (.single p ci ai slot obj))
  | [a, b, c, d, e, f] => do
    let pre ← parseBool a
    let val ← optNat b
    let gate ← parseBool c
    let slot ← d.toNat?
    let sc ← e.toNat?
    let obj ← parseObj f
    pure (some (.item ⟨pre, val, gate, slot, sc, obj⟩))
  | _ => none

def parseFact (s : String) : Option (Key × Nat × Epoch × Root × Sig) :=
  match (s.splitOn ".").mapM String.toNat? with
  | some [k, d, e, r, sg] => some (k, d, e, r, sg)
  | _ => none

def domIdx (d : Domain) : Nat := (domains.findIdx? (· == d)).getD 99

def verifyOf (facts : List (Key × Nat × Epoch × Root × Sig)) : VerifyFn :=
  fun k d e r s => facts.contains (k, domIdx d, e, r, s)

def parseGKey (s : String) : Option GKey :=
  match (s.splitOn ".").mapM String.toNat? with
  | some [a, b] => some (a, b)
  | _ => none

def parseAttEnv (s : String) : Option (Nat × Nat × Nat × Validator) :=
  match (s.splitOn ".").mapM String.toNat? with
  | some [a, b, c, d] => some (a, b, c, d)
  | _ => none

def attEnvOf (t : List (Nat × Nat × Nat × Validator)) : AttEnv := fun slot ci vi =>
  (t.find? (fun e => e.1 = slot ∧ e.2.1 = ci ∧ e.2.2.1 = vi)).map (·.2.2.2)

def parseLockEntry (s : String) : Option (Validator × List (Int × Key)) :=
  match s.splitOn ":" with
  | [a, b] => do
    let v ← a.toNat?
    let m ← parseList "," (fun t => match t.splitOn "." with
      | [i, k] => do pure ((← i.toInt?), (← k.toNat?))
      | _ => none) b
    pure (v, m)
  | _ => none

def ordFromHint {α : Type} [BEq α] (hint : List α) (xs : List α) : List α :=
  hint.filter (xs.contains ·) ++ xs.filter (fun x => !hint.contains x)

def insertSorted (e : Validator × Par) : List (Validator × Par) → List (Validator × Par)
  | [] => [e]
  | x :: xs => if e.1 ≤ x.1 then e :: x :: xs else x :: insertSorted e xs

def callStr (c : Call) : String :=
  let es := c.set.foldl (fun acc e => insertSorted e acc) []
  s!"s{c.sub}:{c.dutyTy}:{c.slot}:" ++ "{" ++
    Driver.joinWith "," (es.map fun e => s!"{e.1}={e.2.obj.id}@{e.2.idx}") ++ "}"

def callsStr (cs : List Call) : String :=
  if cs.isEmpty then "-" else Driver.joinWith ";" (cs.map callStr)

def statusStr : Status → String
  | .ok200 => "200" | .empty400 => "400:empty" | .json400 => "400:json" | .param400 => "400:param"
  | .notFound404 => "404:nf" | .media415 => "415:media" | .enc415 => "415:enc" | .ssz415 => "415:ssz"
  | .noSsz415 => "415:nossz" | .ise500 => "500:ise" | .proxied => "proxied" | .panic => "panic"

def render (r : Status × List Call) : String := statusStr r.1 ++ " " ++ callsStr r.2

/-- the body as the driver sees it: the harness's decoding, tagged with what it was decoded for. -/
abbrev Body := Option (Enc × Option Version × Decoded)

def parseEnc (s : String) : Option Enc :=
  if s == "json" then some .json else if s == "ssz" then some .ssz else none

def parseVerTag (s : String) : Option (Option Version) :=
  if s == "x" then some none else s.toNat? >>= (Version.all[·]?) |>.map some

/-- `none` inside: an uninspectable element was seen. -/
def parseDec (dec : String) (items : String) : Option (Body × Bool) :=
  if dec == "-" then some (none, false)
  else match dec.splitOn ":" with
  | [e, v, o] => do
    let e ← parseEnc e
    let v ← parseVerTag v
    if o == "ok" then
      let es ← parseList ";" parseElem items
      let opq := es.any Option.isNone
      pure (some (e, v, .ok (es.filterMap id)), opq)
    else if o == "empty" then pure (some (e, v, .empty), false)
    else if o == "fail" then pure (some (e, v, .fail), false)
    else if o == "nossz" then pure (some (e, v, .noSsz), false)
    else none
  | _ => none

def decodeDrv : Decoder Body := fun enc _ v b =>
  match b with
  | some (e', v', d) => if e' = enc ∧ v' = v then d else .fail
  | none => .fail

def parseCt (s : String) : Option CtHdr :=
  match s.toList with
  | [a, b, c] => do
    pure ⟨← parseBool a.toString, ← parseBool b.toString, ← parseBool c.toString⟩
  | _ => none

def doRt (d : DState) (toks : List String) : Option String :=
  match toks with
  | [rt, meth, ct, hdr, dec, idx, nsub, failAt, ord, facts, attenv, items] => do
    let rt ← Route.all.find? (·.name == rt)
    let ct ← parseCt ct
    let hdr := if hdr == "-" then [] else hdr.toList
    let meth := if meth == "POST" then Method.post else Method.other
    let (body, opq) ← parseDec dec items
    let idx ← idx.toInt?
    let nsub ← nsub.toNat?
    let failAt ← optNat failAt
    let hint ← parseList "," parseGKey ord
    let facts ← parseList "," parseFact facts
    let env ← parseList "," parseAttEnv attenv
    let rq : Request Body := ⟨rt, meth, ct, hdr, body⟩
    -- the question the model puts to the decoder must be the one the harness answered
    let asked : Option (Enc × Option Version) := match decodeArgs rq with
      | .ok (_, e, v) => some (e, v)
      | .error _ => none
    let answered : Option (Enc × Option Version) := body.map (fun b => (b.1, b.2.1))
    if asked != answered then pure "dec-mismatch"
    else if opq then pure "unmodelled -"
    else pure (render (serve decodeDrv (verifyOf facts) (lockFn d.lock) (attEnvOf env) idx nsub
      (ordFromHint hint) failAt rq))
  | _ => none

def doPb (d : DState) (toks : List String) : Option String :=
  match toks with
  | [pok, idx, nsub, facts, item] => do
    let pok ← parseBool pok
    let idx ← idx.toInt?
    let nsub ← nsub.toNat?
    let facts ← parseList "," parseFact facts
    let it : Item ← if item == "-" then pure ⟨false, none, true, 0, 0, ⟨0, .randao, none, none, 0⟩⟩
      else match parseElem item with
        | some (some (.item it)) => pure it
        | _ => none
    pure (render (servePropose (verifyOf facts) (lockFn d.lock) idx nsub pok it))
  | _ => none

def step (d : DState) (line : String) : DState × String :=
  match line.splitOn " | " with
  | [pre, abs] =>
    let toks := (abs.splitOn " ").filter (· ≠ "")
    match (pre.splitOn " ").head? with
    | some "cfg" => match toks with
      | [lock] => match parseList ";" parseLockEntry lock with
        | some l => ({ lock := l }, "ok")
        | none => (d, "bad-op")
      | _ => (d, "bad-op")
    | some "rt" => (d, (doRt d toks).getD "bad-op")
    | some "pb" => (d, (doPb d toks).getD "bad-op")
    | _ => (d, "bad-op")
  | _ => (d, "bad-op")

end Driver.Router

def main : IO Unit := Driver.runLoop Driver.Router.step {}
