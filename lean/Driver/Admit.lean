import CharonV.Model.Admit
import Driver.Common

/-!
Line driver for the C10 model (`CharonV.Model.Admit`). Op syntax: see
`harness/cmd/drive-admit/main.go`. Everything before ` | ` on a line is the concrete recipe the Go
driver needs to rebuild the submission; the model reads only what follows:

  cfg  … | <spe> <curEpoch> <allowed> <sentinel> <lock>
           lock  := v:idx.key,idx.key;v:…                      (`-`: empty)
  vc   … | <GoMethod> <nodeIdx> <nsub> <failAt|-> <ord|-> <facts|-> <items|->
           ord   := slot.subcomm,…   (observed group order, a hint for the map-iteration oracle)
           facts := key.dom.epoch.root.sig,…   (tuples on which `tbls.Verify` said yes)
           items := pre,val|-,gate,slot,subcomm,obj;…
           obj   := id:ty:epoch|x:root|x:sig
  peer … | <wf> <dutyTy> <slot> <parseOk> <nsub> <ord|-> <facts|-> <entries|->
           ord   := v,…              (order in which the verifier was called)
           entries := v,idx,obj;…

Answer: `<class> <calls|->`, call := s<sub>:<dutyTy>:<slot>:{v=objid@idx,…} (set sorted by v).
-/

open CharonV.Admit

namespace Driver.Admit

structure DState where
  gater : Gater := ⟨32, 0, 2, 14⟩
  lock  : List (Validator × List (Int × Key)) := []

def lockFn (l : List (Validator × List (Int × Key))) : Lock := fun v =>
  match l.find? (·.1 = v) with
  | none => none
  | some (_, m) => some (fun i => (m.find? (·.1 = i)).map (·.2))

def optNat (s : String) : Option (Option Nat) :=
  if s == "x" || s == "-" then some none else s.toNat?.map some

def parseBool (s : String) : Option Bool :=
  if s == "1" then some true else if s == "0" then some false else none

def sigTypes : List SigType :=
  [.proposal, .attestation, .exit, .registration, .randao, .bcSelection, .aggProof, .vAggProof,
   .syncMessage, .contribution, .syncSelection, .rawSig]

def domains : List Domain :=
  [.beaconProposer, .beaconAttester, .voluntaryExit, .applicationBuilder, .randao, .selectionProof,
   .aggregateAndProof, .syncCommittee, .contributionAndProof, .syncCommitteeSelectionProof]

def parseObj (s : String) : Option Obj :=
  match s.splitOn ":" with
  | [a, b, c, d, e] => do
    let id ← a.toNat?
    let ty ← b.toNat? >>= (sigTypes[·]?)
    let ep ← optNat c
    let rt ← optNat d
    let sg ← e.toNat?
    pure ⟨id, ty, ep, rt, sg⟩
  | _ => none

def parseList {α : Type} (sep : String) (f : String → Option α) (s : String) : Option (List α) :=
  if s == "-" then some [] else (s.splitOn sep).mapM f

def parseItem (s : String) : Option Item :=
  match s.splitOn "," with
  | [a, b, c, d, e, f] => do
    let pre ← parseBool a
    let val ← optNat b
    let gate ← parseBool c
    let slot ← d.toNat?
    let sc ← e.toNat?
    let obj ← parseObj f
    pure ⟨pre, val, gate, slot, sc, obj⟩
  | _ => none

def parseEntry (s : String) : Option (Validator × Par) :=
  match s.splitOn "," with
  | [a, b, c] => do
    let v ← a.toNat?
    let i ← b.toInt?
    let obj ← parseObj c
    pure (v, ⟨obj, i⟩)
  | _ => none

def parseFact (s : String) : Option (Key × Nat × Epoch × Root × Sig) :=
  match (s.splitOn ".").mapM String.toNat? with
  | some [k, d, e, r, sg] => some (k, d, e, r, sg)
  | _ => none

def domIdx (d : Domain) : Nat := (domains.findIdx? (· == d)).getD 99

def verifyOf (facts : List (Key × Nat × Epoch × Root × Sig)) : VerifyFn :=
  fun k d e r s => facts.contains (k, domIdx d, e, r, s)

def parseGKey (s : String) : Option GKey :=
  match (s.splitOn ".").mapM String.toNat? with
  | some [a, b] => some (a, b)
  | _ => none

def parseLockEntry (s : String) : Option (Validator × List (Int × Key)) :=
  match s.splitOn ":" with
  | [a, b] => do
    let v ← a.toNat?
    let m ← parseList "," (fun t => match t.splitOn "." with
      | [i, k] => do pure ((← i.toInt?), (← k.toNat?))
      | _ => none) b
    pure (v, m)
  | _ => none

def parseEndpoint (s : String) : Option Endpoint := Endpoint.all.find? (·.goName == s)

/-- a map-iteration oracle built from an observed order: hinted elements first, in hinted order. -/
def ordFromHint {α : Type} [BEq α] (hint : List α) (xs : List α) : List α :=
  hint.filter (xs.contains ·) ++ xs.filter (fun x => !hint.contains x)

def ordEntries (hint : List Validator) (es : List (Validator × Par)) : List (Validator × Par) :=
  hint.filterMap (fun v => es.find? (·.1 = v)) ++ es.filter (fun e => !hint.contains e.1)

def resStr : Res → String
  | .ok => "ok" | .pre => "pre" | .notFound => "pre" | .gate => "gate"
  | .unknownValidator => "unknown" | .badShare => "badshare" | .notEth2 => "noteth2"
  | .objErr => "objerr" | .zeroSig => "zerosig" | .badSig => "badsig" | .malformed => "malformed"
  | .gated => "gated" | .parse => "parse" | .subErr => "suberr"

def insertSorted (e : Validator × Par) : List (Validator × Par) → List (Validator × Par)
  | [] => [e]
  | x :: xs => if e.1 ≤ x.1 then e :: x :: xs else x :: insertSorted e xs

def callStr (c : Call) : String :=
  let es := c.set.foldl (fun acc e => insertSorted e acc) []
  s!"s{c.sub}:{c.dutyTy}:{c.slot}:" ++ "{" ++
    Driver.joinWith "," (es.map fun e => s!"{e.1}={e.2.obj.id}@{e.2.idx}") ++ "}"

def callsStr (cs : List Call) : String :=
  if cs.isEmpty then "-" else Driver.joinWith ";" (cs.map callStr)

def render (r : Res × List Call) : String := resStr r.1 ++ " " ++ callsStr r.2

/-- the two endpoints whose second gate is itself a signature check return the same Go errors for
a bad inner proof and a bad partial signature: both drivers print one class `sig` for them. -/
def innerGate : Endpoint → Bool
  | .submitAggregateAttestations | .submitSyncCommitteeContributions => true
  | _ => false

def renderVC (ep : Endpoint) (r : Res × List Call) : String :=
  let cls := match r.1 with
    | .gate | .zeroSig | .badSig => if innerGate ep then "sig" else resStr r.1
    | x => resStr x
  cls ++ " " ++ callsStr r.2

def doVC (d : DState) (toks : List String) : Option String :=
  match toks with
  | [ep, idx, nsub, failAt, ord, facts, items] => do
    let ep ← parseEndpoint ep
    let idx ← idx.toInt?
    let nsub ← nsub.toNat?
    let failAt ← optNat failAt
    let hint ← parseList "," parseGKey ord
    let facts ← parseList "," parseFact facts
    let items ← parseList ";" parseItem items
    pure (renderVC ep (admitVC (verifyOf facts) (lockFn d.lock) idx nsub (ordFromHint hint) failAt ep items))
  | _ => none

def doPeer (d : DState) (toks : List String) : Option String :=
  match toks with
  | [wf, ty, slot, pok, nsub, ord, facts, entries] => do
    let wf ← parseBool wf
    let ty ← ty.toInt?
    let slot ← slot.toNat?
    let pok ← parseBool pok
    let nsub ← nsub.toNat?
    let hint ← parseList "," String.toNat? ord
    let facts ← parseList "," parseFact facts
    let entries ← parseList ";" parseEntry entries
    pure (render (admitPeer (verifyOf facts) (lockFn d.lock) d.gater nsub (ordEntries hint)
      ⟨wf, ty, slot, pok, entries⟩))
  | _ => none

def doCfg (toks : List String) : Option DState :=
  match toks with
  | [spe, cur, allowed, sentinel, lock] => do
    let spe ← spe.toNat?
    let cur ← cur.toNat?
    let allowed ← allowed.toNat?
    let sentinel ← sentinel.toInt?
    let lock ← parseList ";" parseLockEntry lock
    pure { gater := ⟨spe, cur, allowed, sentinel⟩, lock := lock }
  | _ => none

def step (d : DState) (line : String) : DState × String :=
  match line.splitOn " | " with
  | [pre, abs] =>
    let toks := (abs.splitOn " ").filter (· ≠ "")
    match (pre.splitOn " ").head? with
    | some "cfg" => match doCfg toks with
      | some d' => (d', "ok")
      | none => (d, "bad-op")
    | some "vc" => (d, (doVC d toks).getD "bad-op")
    | some "peer" => (d, (doPeer d toks).getD "bad-op")
    | _ => (d, "bad-op")
  | _ => (d, "bad-op")

end Driver.Admit

def main : IO Unit := Driver.runLoop Driver.Admit.step {}
