import CharonV.Model.SszSchema
import CharonV.Generated.ClusterSsz
import CharonV.Generated.ClusterFields
import Driver.Common

/-!
Line driver for C12 (`drv-cluster`): reproduces `hashDefinition` / `hashLock` of the Go code from the
regenerated schemas (`Generated/ClusterSsz.lean`), the generic schema interpreter `encode` and the
core-Lean SHA-256; compares the JSON leaves met in real files with `Generated/ClusterFields.lean`.
-/
open CharonV.Ssz

namespace Driver.Cluster

def hexVal (c : UInt8) : Option Nat :=
  if 48 ≤ c ∧ c ≤ 57 then some (c.toNat - 48)
  else if 97 ≤ c ∧ c ≤ 102 then some (c.toNat - 87)
  else none

def hexChar (n : Nat) : Char := if n < 10 then Char.ofNat (48 + n) else Char.ofNat (87 + n)

def toHexStr (b : List UInt8) : String :=
  String.ofList (b.flatMap fun x => [hexChar (x.toNat / 16), hexChar (x.toNat % 16)])

/-- the compression function of the real hasher: SHA-256 of the 64 bytes. -/
def sha2 (a b : Chunk) : Chunk := mkChunk (Sha256.hashList (a.bytes ++ b.bytes))

/-! value dump parser: `{F=v;..}` `[v,..]` `x<hex>` `i<int>` `t` `f` -/

partial def parseHex (s : ByteArray) (i : Nat) (acc : Array UInt8) : Array UInt8 × Nat :=
  if h : i + 1 < s.size then
    match hexVal s[i], hexVal s[i+1] with
    | some a, some b => parseHex s (i + 2) (acc.push (UInt8.ofNat (a * 16 + b)))
    | _, _ => (acc, i)
  else (acc, i)

partial def parseDigits (s : ByteArray) (i : Nat) (acc : Nat) : Nat × Nat :=
  if h : i < s.size then
    let c := s[i]
    if 48 ≤ c ∧ c ≤ 57 then parseDigits s (i + 1) (acc * 10 + (c.toNat - 48)) else (acc, i)
  else (acc, i)

partial def parseName (s : ByteArray) (i : Nat) (acc : List Char) : String × Nat :=
  if h : i < s.size then
    let c := s[i]
    if c == 61 then (String.ofList acc.reverse, i + 1) else parseName s (i + 1) (Char.ofNat c.toNat :: acc)
  else (String.ofList acc.reverse, i)

mutual
partial def parseVal (s : ByteArray) (i : Nat) : Option (Val × Nat) :=
  if h : i < s.size then
    let c := s[i]
    if c == 123 then parseFields s (i + 1) #[]          -- {
    else if c == 91 then parseList s (i + 1) #[]        -- [
    else if c == 120 then                               -- x
      let (b, j) := parseHex s (i + 1) #[]
      some (.bytes b.toList, j)
    else if c == 105 then                               -- i
      if h2 : i + 1 < s.size then
        if s[i+1] == 45 then
          let (n, j) := parseDigits s (i + 2) 0
          some (.int (-(n : Int)), j)
        else
          let (n, j) := parseDigits s (i + 1) 0
          some (.int n, j)
      else none
    else if c == 116 then some (.bool true, i + 1)
    else if c == 102 then some (.bool false, i + 1)
    else none
  else none

partial def parseFields (s : ByteArray) (i : Nat) (acc : Array (String × Val)) : Option (Val × Nat) :=
  if h : i < s.size then
    if s[i] == 125 then some (.obj acc.toList, i + 1)
    else
      let (name, j) := parseName s i []
      match parseVal s j with
      | none => none
      | some (v, k) =>
        let k' := if h2 : k < s.size then (if s[k] == 59 then k + 1 else k) else k
        parseFields s k' (acc.push (name, v))
  else none

partial def parseList (s : ByteArray) (i : Nat) (acc : Array Val) : Option (Val × Nat) :=
  if h : i < s.size then
    if s[i] == 93 then some (.list acc.toList, i + 1)
    else
      match parseVal s i with
      | none => none
      | some (v, k) =>
        let k' := if h2 : k < s.size then (if s[k] == 44 then k + 1 else k) else k
        parseList s k' (acc.push v)
  else none
end

def schemaFor (ver kind : String) : Option Sch :=
  match CharonV.Generated.ClusterSsz.schemas.find? (·.1 == ver) with
  | none => none
  | some (_, c, d, l, _) =>
    if kind == "cfg" then some c else if kind == "def" then some d else if kind == "lock" then some l else none

def doHash (ver kind val : String) : String :=
  if kind != "cfg" && kind != "def" && kind != "lock" then "bad-op" else
  match schemaFor ver kind with
  | none => "err"   -- getDefinitionHashFunc / hashLock: unknown version
  | some sch =>
    let bs := val.toUTF8
    match parseVal bs 0 with
    | none => "bad-op"
    | some (v, j) =>
      if j != bs.size then "bad-op" else
      match encode sha2 sch v with
      | .ok c => "ok " ++ toHexStr c.bytes
      | .error .panic => "panic"
      | .error _ => "err"

/-- leaves that a valid file may omit (`omitempty` on a field that decoding requires to be empty). -/
def optionalLeaves : List String := ["distributed_validators[].fee_recipient_address"]

def doLeaves (ver kind paths : String) : String :=
  match CharonV.Generated.ClusterFields.fields.find? (·.1 == ver) with
  | none => "bad-op"
  | some (_, dl, ll) =>
    let gen := (if kind == "def" then dl else ll).map (fun l => pathName CharonV.Generated.ClusterSsz.pathTable l.pid)
    -- a JSON `null` in place of a list stands for the (empty) list
    let found := (paths.splitOn ",").map (fun p => if !gen.contains p && gen.contains (p ++ "[]") then p ++ "[]" else p)
    let extra := found.filter (fun p => !gen.contains p)
    let missing := gen.filter (fun p => !found.contains p && !optionalLeaves.contains p)
    if extra.isEmpty && missing.isEmpty then "ok"
    else "diff extra=" ++ ",".intercalate extra ++ " missing=" ++ ",".intercalate missing

def doSha (h : String) : String :=
  let bs := h.toUTF8
  let (b, j) := parseHex bs 0 #[]
  if j != bs.size then "bad-op" else toHexStr (Sha256.hash (ByteArray.mk b)).toList

def kvNat (key s : String) : Option Nat :=
  match s.splitOn "=" with
  | [k, v] => if k == key then v.toNat? else none
  | _ => none

def doCombine (a b : String) : String :=
  match kvNat "t" a, kvNat "shares" b with
  | some t, some k => if combineAccepts t k then "accept" else "refuse"
  | _, _ => "bad-op"

def step (_ : Unit) (line : String) : Unit × String :=
  let out :=
    match line.splitOn " " with
    | ["sha"] => doSha ""
    | ["sha", h] => doSha h
    | ["hash", ver, kind, val] => doHash ver kind val
    | ["leaves", ver, kind, ps] => doLeaves ver kind ps
    | ["doc", _, _, _] => "-"
    | ["reenc"] => "-"
    | ["tamper", _, _] => "-"
    | ["forged", _, _, _] => "-"
    | ["combine", a, b] => doCombine a b
    -- the lock of ONE of the node directories was altered in a hashed field (its stored hashes kept): whatever the number of
    -- shares, the combine command verifies every lock it loads and must refuse (C12: tamper evidence)
    | ["combinet", a, b, _] => (match kvNat "t" a, kvNat "shares" b with | some _, some _ => "refuse" | _, _ => "bad-op")
    | "create" :: _ => "-"
    | _ => "bad-op"
  ((), out)

end Driver.Cluster

def main : IO Unit := Driver.runLoop Driver.Cluster.step ()
