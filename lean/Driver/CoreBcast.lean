import CharonV.Model.CoreBcast
import Driver.Common

/-!
Line driver for the model of `core/bcast/bcast.go` (`CharonV.Model.CoreBcast`). Op syntax: see
`harness/cmd/drive-corebcast/main.go`. The model reads only what follows ` | `:

  cfg … | …                                  (answer `ok`)
  bc …  | <duty> <set|-> <vals> <duties> <dom> <sub|-> <facts|-> <order|-> # <observed answer>
          duty   := the Go `core.DutyType` number
          set    := v:ty:cid:sig:ver:blinded:idx|x:dataOk:slot:epoch:root;…   (ty: index into `sigTypes`)
          vals   := x (the call fails) | - | idx.isNil.active.activationEpoch,…
          duties := x (the call fails) | - | key.slot.idx,…
          dom    := 1|0 (signing.GetDomain succeeds)
          sub    := answers of the node to the submit calls in order, o|p|e,…  (missing: o)
          facts  := key.epoch.root.sig.res,…   res: 1 = tbls.Verify said nil, 2 = another error
                    (every tuple not listed: ErrSigNotVerified)

          order  := v,v,… the set keys in the order in which their objects reached the beacon node
                    (= the prefix of Go's iteration order that could be observed; `-`: nothing observed)

Go's iteration order over the set is an oracle: the driver answers with the observed answer iff
some order of the entries THAT STARTS WITH THE OBSERVED ORDER produces it, otherwise with the answer
for the first such order (the order as written when there is none).

Answer: `<class> <calls|->`, calls := call;call…, call := <endpoint>[!]{cid/sig/idx|x,…} with the
items sorted, `!` = the node answered this call with an error.
-/

open CharonV.Admit (SigType)
open CharonV.CoreBcast

namespace Driver.CoreBcast

def sigTypes : List SigType :=
  [.proposal, .attestation, .exit, .registration, .randao, .bcSelection, .aggProof, .vAggProof,
   .syncMessage, .contribution, .syncSelection, .rawSig]

def dutyOf (n : Nat) : Duty :=
  match n with
  | 0 => .unknown | 1 => .proposer | 2 => .attester | 3 => .signature | 4 => .exit
  | 5 => .builderProposer | 6 => .builderRegistration | 7 => .randao | 8 => .prepareAggregator
  | 9 => .aggregator | 10 => .syncMessage | 11 => .prepareSyncContribution | 12 => .syncContribution
  | 13 => .infoSync | _ => .other

def optNat (s : String) : Option (Option Nat) :=
  if s == "x" then some none else s.toNat?.map some

def parseBool (s : String) : Option Bool :=
  if s == "1" then some true else if s == "0" then some false else none

def parseList {α : Type} (sep : String) (f : String → Option α) (s : String) : Option (List α) :=
  if s == "-" then some [] else (s.splitOn sep).mapM f

def parseEntry (s : String) : Option (Validator × Obj) :=
  match s.splitOn ":" with
  | [v, ty, cid, sig, ver, bl, idx, dok, slot, ep, root] => do
    let v ← v.toNat?
    let ty ← ty.toNat? >>= (sigTypes[·]?)
    let cid ← cid.toNat?
    let sig ← sig.toNat?
    let ver ← ver.toNat?
    let bl ← parseBool bl
    let idx ← optNat idx
    let dok ← parseBool dok
    let slot ← slot.toNat?
    let ep ← ep.toNat?
    let root ← root.toNat?
    pure (v, ⟨ty, cid, sig, ver, bl, idx, dok, slot, ep, root⟩)
  | _ => none

def parseVal (s : String) : Option BNVal :=
  match s.splitOn "." with
  | [a, b, c, d] => do pure ⟨← a.toNat?, ← parseBool b, ← parseBool c, ← d.toNat?⟩
  | _ => none

def parseDuty (s : String) : Option AttDuty :=
  match (s.splitOn ".").mapM String.toNat? with
  | some [k, sl, i] => some ⟨k, sl, i⟩
  | _ => none

def parseSub (s : String) : Option SubRes :=
  if s == "o" then some .ok else if s == "p" then some .priorKnown else if s == "e" then some .err else none

def parseFact (s : String) : Option (Nat × Nat × Nat × Nat × Nat) :=
  match (s.splitOn ".").mapM String.toNat? with
  | some [k, e, r, sg, res] => some (k, e, r, sg, res)
  | _ => none

def verifyOf (facts : List (Nat × Nat × Nat × Nat × Nat)) : VerifyFn := fun k e r s =>
  if facts.contains (k, e, r, s, 1) then .ok
  else if facts.contains (k, e, r, s, 2) then .err
  else .no

def optList {α : Type} (f : String → Option α) (s : String) : Option (Option (List α)) :=
  if s == "x" then some none else (parseList "," f s).map some

def errStr : Err → String
  | .invalidAttestation => "invatt" | .noAttestations => "noatt" | .att0Data => "att0data"
  | .validators => "validators" | .validatorNil => "valnil" | .fetchDuties => "duties"
  | .domain => "domain" | .attData => "attdata" | .sigVerification => "sigverif" | .bn => "bn"
  | .expectedOne => "expectone" | .invalidProposal => "invprop" | .deprecated => "deprecated"
  | .invalidExit => "invexit" | .invalidAgg => "invagg" | .invalidSyncMsg => "invsync"
  | .invalidContribution => "invcontrib" | .unsupported => "unsupported"

def epStr : Endpoint → String
  | .attestations => "att" | .proposal => "prop" | .blindedProposal => "bprop" | .voluntaryExit => "exit"
  | .aggregates => "agg" | .syncMessages => "syncmsg" | .contributions => "contrib"

def itemLe (a b : Item) : Bool :=
  let ia := match a.valIdx with | none => 0 | some i => i + 1
  let ib := match b.valIdx with | none => 0 | some i => i + 1
  if a.cid != b.cid then a.cid < b.cid
  else if a.sig != b.sig then a.sig < b.sig
  else ia ≤ ib

def insItem (e : Item) : List Item → List Item
  | [] => [e]
  | x :: xs => if itemLe e x then e :: x :: xs else x :: insItem e xs

def itemStr (i : Item) : String :=
  s!"{i.cid}/{i.sig}/" ++ (match i.valIdx with | none => "x" | some v => toString v)

def callStr (c : Call) : String :=
  let items := c.items.foldl (fun acc e => insItem e acc) []
  epStr c.ep ++ (if c.failed then "!" else "") ++ "{" ++ Driver.joinWith "," (items.map itemStr) ++ "}"

def render (r : Result) : String :=
  (match r.err with | none => "ok" | some e => errStr e) ++ " " ++
    (if r.calls.isEmpty then "-" else Driver.joinWith ";" (r.calls.map callStr))

def perms {α : Type} : List α → List (List α)
  | [] => [[]]
  | x :: xs => (perms xs).flatMap fun p => (List.range (p.length + 1)).map fun i => p.take i ++ [x] ++ p.drop i

def doBc (toks : List String) (obs : String) : Option String :=
  match toks with
  | [duty, set, vals, duties, dom, sub, facts, ordHint] => do
    let duty ← duty.toNat?
    let set ← parseList ";" parseEntry set
    let vals ← optList parseVal vals
    let duties ← optList parseDuty duties
    let dom ← parseBool dom
    let sub ← parseList "," parseSub sub
    let facts ← parseList "," parseFact facts
    let bn : BN := ⟨vals, duties, dom, fun i => sub.getD i .ok⟩
    let run := fun (o : List (Validator × Obj)) =>
      render (broadcast (verifyOf facts) bn (fun _ => o) (dutyOf duty) set)
    let hint ← parseList "," String.toNat? ordHint
    let all := if set.length ≤ 6 then perms set else [set]
    -- the observed iteration order (as far as objects were handed over) restricts the oracle
    let cands := all.filter fun o => (o.map (·.1)).take hint.length == hint
    match cands.find? (fun o => run o == obs) with
    | some o => pure (run o)
    | none => pure (run (cands.headD set))
  | _ => none

def step (d : Unit) (line : String) : Unit × String :=
  match line.splitOn " | " with
  | [pre, rest] =>
    match (pre.splitOn " ").head? with
    | some "cfg" => (d, "ok")
    | some "bc" =>
      match rest.splitOn " # " with
      | [abs, obs] =>
        let toks := (abs.splitOn " ").filter (· ≠ "")
        (d, (doBc toks obs.trimAscii.toString).getD "bad-op")
      | _ => (d, "bad-op")
    | _ => (d, "bad-op")
  | _ => (d, "bad-op")

end Driver.CoreBcast

def main : IO Unit := Driver.runLoop Driver.CoreBcast.step ()
