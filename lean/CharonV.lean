-- Root of the `CharonV` library: models, specs, proofs and property theorems.
import CharonV.Model.Deadliner
